import Goirc.Proofs.C13InvAuxView
/-!
# C13, invariant of the model network: the ground truth part

`GInv n`: the fields of `NetInv` that do not mention the view.  The ground-truth updates of
`serverStep` (`setChan`, `leave`, the quit fold, the nick renaming, `applyChange`) are described by
what they do to `onChan` and shown to keep `GInv`.
-/
namespace Proofs.C13
open Go Go.Tracker Spec.Tracker Spec.Net

structure GInv (n : Net) : Prop where
  me_user : AL.has n.users n.me = true
  users_ok : ∀ u x, AL.lookup n.users u = some x →
    nickOk u = true ∧ nameOk x.ident = true ∧ nameOk x.host = true ∧ textOk x.real = true
  chans_nodup : (AL.keys n.chans).Nodup
  chan_inv : ∀ c ch, AL.lookup n.chans c = some ch → ChanInv n c ch

theorem ChanInv.mono {n n' : Net} {c : Bytes} {ch : NChan} (h : ChanInv n c ch)
    (hu : ∀ u, AL.has n.users u = true → AL.has n'.users u = true) : ChanInv n' c ch :=
  ⟨h.name, h.topic, h.key, h.limit, h.members_nodup, fun u hu' => hu u (h.members_users u hu')⟩

theorem GInv.of_eq {n n' : Net} (h : GInv n) (hme : n'.me = n.me) (hu : n'.users = n.users)
    (hc : n'.chans = n.chans) : GInv n' := by
  refine ⟨by rw [hme, hu]; exact h.me_user, by rw [hu]; exact h.users_ok, by rw [hc]; exact h.chans_nodup, ?_⟩
  intro c ch hl
  rw [hc] at hl
  exact (h.chan_inv c ch hl).mono (by rw [hu]; exact fun _ => id)

theorem onChan_of_lookup {n : Net} {c : Bytes} {ch : NChan} (h : AL.lookup n.chans c = some ch) (u : Bytes) :
    onChan n u c = AL.has ch.members u := by simp only [onChan, h]

theorem onChan_of_none {n : Net} {c : Bytes} (h : AL.lookup n.chans c = none) (u : Bytes) :
    onChan n u c = false := by simp only [onChan, h]

theorem onChan_true_iff (n : Net) (u c : Bytes) :
    onChan n u c = true ↔ ∃ ch, AL.lookup n.chans c = some ch ∧ AL.has ch.members u = true := by
  cases h : AL.lookup n.chans c with
  | none => simp [onChan_of_none h]
  | some ch => simp [onChan_of_lookup h]

theorem onChan_users {n : Net} (h : GInv n) {u c : Bytes} (ho : onChan n u c = true) : AL.has n.users u = true := by
  obtain ⟨ch, h1, h2⟩ := (onChan_true_iff n u c).1 ho
  exact (h.chan_inv c ch h1).members_users u h2

/-! ## `sharesWithMe` -/

theorem sharesWithMe_iff' (n : Net) (hnd : (AL.keys n.chans).Nodup) (u : Bytes) :
    sharesWithMe n u = true ↔ ∃ c, onChan n u c = true ∧ onChan n n.me c = true := by
  simp only [sharesWithMe, List.any_eq_true, Bool.and_eq_true]
  constructor
  · rintro ⟨⟨c, ch⟩, hm, h1, h2⟩
    have hl := (AL.mem_iff_lookup hnd c ch).1 hm
    exact ⟨c, by rw [onChan_of_lookup hl]; exact h1, by rw [onChan_of_lookup hl]; exact h2⟩
  · rintro ⟨c, h1, h2⟩
    obtain ⟨ch, hl, h3⟩ := (onChan_true_iff n u c).1 h1
    rw [onChan_of_lookup hl] at h2
    exact ⟨(c, ch), AL.mem_of_lookup hl, h3, h2⟩

/-! ## `NetInv` = ground part + view part -/

theorem NetInv.ground {n : Net} (h : NetInv n) : GInv n := ⟨h.me_user, h.users_ok, h.chans_nodup, h.chan_inv⟩

theorem NetInv.vinv {n : Net} (h : NetInv n) : VInv n.me (onChan n) n.view := by
  refine ⟨h.me_view, h.view_chans, h.view_mem, fun u => ?_, h.view_mem_nodup⟩
  rw [h.view_nicks, Bool.or_eq_true, sharesWithMe_iff' n h.chans_nodup, beq_iff_eq]

theorem NetInv.of {n : Net} (hg : GInv n) (hv : VInv n.me (onChan n) n.view) : NetInv n := by
  refine ⟨hv.me_eq, hg.me_user, hg.users_ok, hg.chans_nodup, hg.chan_inv, hv.chans, hv.mem, fun u => ?_, hv.mem_nodup⟩
  rw [Bool.eq_iff_iff, hv.nicks, Bool.or_eq_true, sharesWithMe_iff' n hg.chans_nodup, beq_iff_eq]

/-! ## `setChan` -/

theorem onChan_setChan (n : Net) (c : Bytes) (ch : NChan) (u c' : Bytes) :
    onChan (setChan n c ch) u c' = if c' = c then AL.has ch.members u else onChan n u c' := by
  simp only [onChan, setChan, AL.lookup_insert]
  by_cases h : c = c'
  · subst h; simp
  · have : ¬ c' = c := fun h1 => h h1.symm
    simp [h, this]

theorem GInv.setChan {n : Net} (h : GInv n) {c : Bytes} {ch : NChan} (hc : ChanInv n c ch) : GInv (setChan n c ch) := by
  refine ⟨h.me_user, h.users_ok, AL.nodup_insert h.chans_nodup _ _, ?_⟩
  intro c' ch' hl
  simp only [Spec.Net.setChan, AL.lookup_insert] at hl
  split at hl
  · rename_i h1; subst h1; cases hl; exact hc.mono (fun _ => id)
  · exact (h.chan_inv c' ch' hl).mono (fun _ => id)

/-- replacing a channel by one with the same member set changes nothing for `onChan` -/
theorem onChan_setChan_same {n : Net} {c : Bytes} {ch ch' : NChan} (hl : AL.lookup n.chans c = some ch)
    (hm : ∀ u, AL.has ch'.members u = AL.has ch.members u) (u c' : Bytes) :
    onChan (setChan n c ch') u c' = onChan n u c' := by
  rw [onChan_setChan]
  split
  · rename_i h; subst h; rw [hm, onChan_of_lookup hl]
  · rfl

/-! ## `leave` -/

theorem leave_eq (n : Net) (u c : Bytes) : leave n u c =
    match AL.lookup n.chans c with
    | some ch =>
      if (AL.erase ch.members u).isEmpty then { n with chans := AL.erase n.chans c }
      else setChan n c { ch with members := AL.erase ch.members u }
    | none => n := rfl

theorem leave_users_v (n : Net) (u c : Bytes) : (leave n u c).users = n.users := by
  rw [leave_eq]; split
  · split <;> rfl
  · rfl

theorem leave_me (n : Net) (u c : Bytes) : (leave n u c).me = n.me := by
  rw [leave_eq]; split
  · split <;> rfl
  · rfl

theorem leave_view_v (n : Net) (u c : Bytes) : (leave n u c).view = n.view := by
  rw [leave_eq]; split
  · split <;> rfl
  · rfl

theorem has_isEmpty {κ ν : Type} [DecidableEq κ] {m : List (κ × ν)} (h : m.isEmpty = true) (k : κ) : AL.has m k = false := by
  rw [List.isEmpty_iff] at h; subst h; rfl

theorem onChan_leave (n : Net) (u c w c' : Bytes) :
    onChan (leave n u c) w c' = (onChan n w c' && !(decide (c' = c) && decide (w = u))) := by
  unfold leave
  cases hl : AL.lookup n.chans c with
  | none =>
    simp only
    by_cases h : c' = c
    · subst h; simp [onChan_of_none hl]
    · simp [h]
  | some ch =>
    simp only
    split
    · rename_i he
      have := has_isEmpty he w
      rw [has_erase] at this
      simp only [onChan, AL.lookup_erase]
      by_cases h : c = c'
      · subst h; simp only [if_true, hl]; grind
      · have : ¬ c' = c := fun h1 => h h1.symm
        simp [h, this]
    · rw [onChan_setChan]
      by_cases h : c' = c
      · subst h; simp only [if_true, onChan_of_lookup hl, has_erase]; grind
      · simp [h]

theorem lookup_leave {n : Net} {u c c' : Bytes} {ch' : NChan} (h : AL.lookup (leave n u c).chans c' = some ch') :
    ∃ ch, AL.lookup n.chans c' = some ch ∧ ch'.topic = ch.topic ∧ ch'.modes = ch.modes ∧
      (ch'.members = ch.members ∨ ch'.members = AL.erase ch.members u) := by
  unfold leave at h
  cases hl : AL.lookup n.chans c with
  | none => rw [hl] at h; exact ⟨ch', h, rfl, rfl, Or.inl rfl⟩
  | some ch =>
    rw [hl] at h
    simp only at h
    split at h
    · simp only [AL.lookup_erase] at h
      split at h
      · cases h
      · exact ⟨ch', h, rfl, rfl, Or.inl rfl⟩
    · simp only [setChan, AL.lookup_insert] at h
      split at h
      · rename_i h1; subst h1; cases h
        exact ⟨ch, hl, rfl, rfl, Or.inr rfl⟩
      · exact ⟨ch', h, rfl, rfl, Or.inl rfl⟩

theorem leave_chans_nodup {n : Net} (h : (AL.keys n.chans).Nodup) (u c : Bytes) : (AL.keys (leave n u c).chans).Nodup := by
  rw [leave_eq]; split
  · split
    · exact AL.nodup_erase h _
    · exact AL.nodup_insert h _ _
  · exact h

theorem GInv.leave {n : Net} (h : GInv n) (u c : Bytes) : GInv (leave n u c) := by
  refine ⟨by rw [leave_users_v, leave_me]; exact h.me_user, by rw [leave_users_v]; exact h.users_ok,
    leave_chans_nodup h.chans_nodup u c, ?_⟩
  intro c' ch' hl
  obtain ⟨ch, h1, h2, h3, h4⟩ := lookup_leave hl
  have hi := h.chan_inv c' ch h1
  refine ⟨hi.name, by rw [h2]; exact hi.topic, by rw [h3]; exact hi.key, by rw [h3]; exact hi.limit, ?_, ?_⟩
  · rcases h4 with h4 | h4 <;> rw [h4]
    · exact hi.members_nodup
    · exact AL.nodup_erase hi.members_nodup _
  · intro w hw
    rw [leave_users_v]
    apply hi.members_users
    rcases h4 with h4 | h4 <;> rw [h4] at hw
    · exact hw
    · rw [has_erase] at hw; simp only [Bool.and_eq_true] at hw; exact hw.2

/-! ## the quit fold -/

def quitF (u : Bytes) (acc : Net) (c : Bytes) : Net := if onChan acc u c then leave acc u c else acc

theorem quitF_spec (u : Bytes) (n : Net) (c : Bytes) (h : GInv n) :
    GInv (quitF u n c) ∧ (quitF u n c).users = n.users ∧ (quitF u n c).me = n.me ∧ (quitF u n c).view = n.view ∧
    ∀ w c', onChan (quitF u n c) w c' = (onChan n w c' && !(decide (w = u) && decide (c' = c))) := by
  unfold quitF
  split
  · refine ⟨h.leave u c, leave_users_v n u c, leave_me n u c, leave_view_v n u c, fun w c' => ?_⟩
    rw [onChan_leave]; grind
  · rename_i hn
    refine ⟨h, rfl, rfl, rfl, fun w c' => ?_⟩
    grind

theorem foldl_quitF (u : Bytes) (ks : List Bytes) (n : Net) (h : GInv n) :
    GInv (ks.foldl (quitF u) n) ∧ (ks.foldl (quitF u) n).users = n.users ∧ (ks.foldl (quitF u) n).me = n.me ∧
    (ks.foldl (quitF u) n).view = n.view ∧
    ∀ w c', onChan (ks.foldl (quitF u) n) w c' = (onChan n w c' && !(decide (w = u) && decide (c' ∈ ks))) := by
  induction ks generalizing n with
  | nil => exact ⟨h, rfl, rfl, rfl, by simp⟩
  | cons a l ih =>
    rw [List.foldl_cons]
    obtain ⟨s1, s2, s3, s4, s5⟩ := quitF_spec u n a h
    obtain ⟨i1, i2, i3, i4, i5⟩ := ih (quitF u n a) s1
    refine ⟨i1, i2.trans s2, i3.trans s3, i4.trans s4, fun w c' => ?_⟩
    rw [i5, s5]; simp only [List.mem_cons]; grind

theorem quit_ground {n : Net} (h : GInv n) {u : Bytes} (hu : u ≠ n.me) :
    let n1 := (AL.keys n.chans).foldl (quitF u) n
    GInv { n1 with users := AL.erase n1.users u } ∧ n1.me = n.me ∧ n1.view = n.view ∧
    ∀ w c', onChan n1 w c' = (onChan n w c' && !decide (w = u)) := by
  intro n1
  obtain ⟨i1, i2, i3, i4, i5⟩ := foldl_quitF u (AL.keys n.chans) n h
  have hon : ∀ w c', onChan n1 w c' = (onChan n w c' && !decide (w = u)) := by
    intro w c'
    rw [i5]
    cases ho : onChan n w c' with
    | false => rfl
    | true =>
      obtain ⟨ch, h1, _⟩ := (onChan_true_iff n w c').1 ho
      have : c' ∈ AL.keys n.chans := (AL.has_iff_mem_keys _ _).1 (has_of_lookup_v h1)
      simp [this]
  refine ⟨⟨?_, ?_, i1.chans_nodup, ?_⟩, i3, i4, hon⟩
  · show AL.has (AL.erase n1.users u) n1.me = true
    rw [has_erase, i1.me_user, i3]; simp [hu]
  · intro w x hl
    change AL.lookup (AL.erase n1.users u) w = some x at hl
    rw [AL.lookup_erase] at hl
    split at hl
    · cases hl
    · exact i1.users_ok w x hl
  · intro c ch hl
    change AL.lookup n1.chans c = some ch at hl
    have hi := i1.chan_inv c ch hl
    refine ⟨hi.name, hi.topic, hi.key, hi.limit, hi.members_nodup, fun w hw => ?_⟩
    show AL.has (AL.erase n1.users u) w = true
    rw [has_erase, hi.members_users w hw]
    have := hon w c
    rw [onChan_of_lookup hl, hw] at this
    grind

/-! ## the nick renaming -/

def renM (u nw : Bytes) (ms : List (Bytes × ChanPrivs)) : List (Bytes × ChanPrivs) :=
  ms.map fun (m, p) => (if m == u then nw else m, p)

def renC (u nw : Bytes) (chans : List (Bytes × NChan)) : List (Bytes × NChan) :=
  chans.map fun (c, ch) => (c, { ch with members := ch.members.map fun (m, p) => (if m == u then nw else m, p) })

def nickNet (n : Net) (u nw : Bytes) : Net :=
  { n with users := AL.insert (AL.erase n.users u) nw ((AL.lookup n.users u).getD ⟨[], [], []⟩),
           chans := n.chans.map fun (c, ch) => (c, { ch with members := ch.members.map fun (m, p) => (if m == u then nw else m, p) }),
           me := if u == n.me then nw else n.me }

theorem has_renM {u nw : Bytes} (hne : u ≠ nw) (ms : List (Bytes × ChanPrivs)) (hfree : AL.has ms nw = false) (w : Bytes) :
    AL.has (renM u nw ms) w = if w = nw then AL.has ms u else if w = u then false else AL.has ms w := by
  induction ms with
  | nil => simp [renM, has_nil]
  | cons e ms ih =>
    obtain ⟨a, p⟩ := e
    rw [has_cons] at hfree
    simp only [Bool.or_eq_false_iff, decide_eq_false_iff_not] at hfree
    have ih := ih hfree.2
    simp only [renM, List.map_cons] at ih ⊢
    rw [has_cons, ih, has_cons, has_cons]
    simp only [beq_iff_eq]
    have := hfree.1
    by_cases h1 : a = u
    · subst h1; simp only [if_true]; grind
    · simp only [h1, if_false]; grind

theorem nodup_renM {u nw : Bytes} (ms : List (Bytes × ChanPrivs)) (hfree : AL.has ms nw = false)
    (nd : (AL.keys ms).Nodup) : (AL.keys (renM u nw ms)).Nodup := by
  unfold AL.keys renM
  rw [List.map_map]
  apply AL.nodup_map_of_keys _ nd
  intro x hx y hy hxy
  obtain ⟨a, p⟩ := x
  obtain ⟨b, q⟩ := y
  have f1 : a ≠ nw := by intro h; subst h; rw [has_of_mem hx] at hfree; cases hfree
  have f2 : b ≠ nw := by intro h; subst h; rw [has_of_mem hy] at hfree; cases hfree
  simp only [Function.comp, beq_iff_eq] at hxy
  show a = b
  grind

theorem lookup_renC (u nw : Bytes) (chans : List (Bytes × NChan)) (c : Bytes) :
    AL.lookup (renC u nw chans) c = (AL.lookup chans c).map (fun ch => { ch with members := renM u nw ch.members }) := by
  induction chans with
  | nil => rfl
  | cons e l ih =>
    obtain ⟨a, ch⟩ := e
    simp only [renC, List.map_cons] at ih ⊢
    rw [AL.lookup_cons, AL.lookup_cons, ih]
    split <;> rfl

theorem keys_renC (u nw : Bytes) (chans : List (Bytes × NChan)) : AL.keys (renC u nw chans) = AL.keys chans := by
  induction chans with
  | nil => rfl
  | cons e l ih =>
    obtain ⟨a, ch⟩ := e
    simp only [renC, List.map_cons, AL.keys_cons] at ih ⊢
    rw [ih]

theorem nick_ground {n : Net} (h : GInv n) {u nw : Bytes} (hu : AL.has n.users u = true)
    (hnw : AL.has n.users nw = false) (hok : nickOk nw = true) :
    GInv (nickNet n u nw) ∧
    ∀ w c, onChan (nickNet n u nw) w c = if w = nw then onChan n u c else if w = u then false else onChan n w c := by
  have hne : u ≠ nw := by intro h1; subst h1; rw [hu] at hnw; cases hnw
  have hfree : ∀ c ch, AL.lookup n.chans c = some ch → AL.has ch.members nw = false := by
    intro c ch hl
    cases hh : AL.has ch.members nw with
    | false => rfl
    | true => rw [(h.chan_inv c ch hl).members_users nw hh] at hnw; cases hnw
  obtain ⟨x, hx⟩ := (AL.has_true_iff _ _).1 hu
  have hus : ∀ w, AL.has (nickNet n u nw).users w = (decide (nw = w) || (!decide (u = w) && AL.has n.users w)) := by
    intro w; show AL.has (AL.insert (AL.erase n.users u) nw _) w = _
    rw [has_insert_v, has_erase]
  have hch : ∀ c, AL.lookup (nickNet n u nw).chans c =
      (AL.lookup n.chans c).map (fun ch => { ch with members := renM u nw ch.members }) := lookup_renC u nw n.chans
  refine ⟨⟨?_, ?_, ?_, ?_⟩, ?_⟩
  · rw [hus]
    have hm : (nickNet n u nw).me = if u == n.me then nw else n.me := rfl
    rw [hm]
    by_cases h1 : u = n.me
    · simp [h1]
    · have h2 : (u == n.me) = false := by simp [h1]
      simp [h2, h1, h.me_user]
  · intro w y hl
    change AL.lookup (AL.insert (AL.erase n.users u) nw ((AL.lookup n.users u).getD ⟨[], [], []⟩)) w = some y at hl
    rw [AL.lookup_insert, AL.lookup_erase, hx] at hl
    split at hl
    · rename_i h1; subst h1
      simp only [Option.getD_some, Option.some.injEq] at hl
      subst hl
      exact ⟨hok, (h.users_ok u x hx).2⟩
    · split at hl
      · cases hl
      · exact h.users_ok w y hl
  · show (AL.keys (renC u nw n.chans)).Nodup
    rw [keys_renC]; exact h.chans_nodup
  · intro c ch' hl
    rw [hch] at hl
    cases hl0 : AL.lookup n.chans c with
    | none => rw [hl0] at hl; cases hl
    | some ch =>
      rw [hl0] at hl
      simp only [Option.map_some, Option.some.injEq] at hl
      subst hl
      have hi := h.chan_inv c ch hl0
      refine ⟨hi.name, hi.topic, hi.key, hi.limit, nodup_renM _ (hfree c ch hl0) hi.members_nodup, fun w hw => ?_⟩
      rw [hus]
      rw [has_renM hne _ (hfree c ch hl0)] at hw
      have := hi.members_users w
      grind
  · intro w c
    simp only [onChan]
    rw [hch]
    cases hl0 : AL.lookup n.chans c with
    | none => simp
    | some ch =>
      simp only [Option.map_some]
      exact has_renM hne _ (hfree c ch hl0) w

/-! ## mode changes -/

theorem applyFlag_key_limit (m : ChanMode) (a : Bool) (l : UInt8) :
    (applyFlag m a l).key = m.key ∧ (applyFlag m a l).limit = m.limit := by
  unfold applyFlag applyChanFlag
  repeat' split
  all_goals exact ⟨rfl, rfl⟩

theorem applyChange_spec {n : Net} {c : Bytes} {ch : NChan} (h : ChanInv n c ch) (chg : ModeChange)
    (hok : changeOk n c chg = true) :
    ChanInv n c (applyChange ch chg) ∧ ∀ w, AL.has (applyChange ch chg).members w = AL.has ch.members w := by
  cases chg with
  | flag a l =>
    refine ⟨⟨h.name, h.topic, ?_, ?_, h.members_nodup, h.members_users⟩, fun _ => rfl⟩
    · show (applyFlag ch.modes a l).key = [] ∨ nameOk (applyFlag ch.modes a l).key = true
      rw [(applyFlag_key_limit _ _ _).1]; exact h.key
    · show 0 ≤ (applyFlag ch.modes a l).limit ∧ (applyFlag ch.modes a l).limit < 100000
      rw [(applyFlag_key_limit _ _ _).2]; exact h.limit
  | key a k =>
    refine ⟨⟨h.name, h.topic, ?_, h.limit, h.members_nodup, h.members_users⟩, fun _ => rfl⟩
    show (if a then k else []) = [] ∨ nameOk (if a then k else []) = true
    cases a
    · exact Or.inl rfl
    · exact Or.inr hok
  | limit a k =>
    refine ⟨⟨h.name, h.topic, h.key, ?_, h.members_nodup, h.members_users⟩, fun _ => rfl⟩
    show 0 ≤ (if a then (k : Int) else 0) ∧ (if a then (k : Int) else 0) < 100000
    simp only [changeOk, Bool.and_eq_true, decide_eq_true_eq] at hok
    cases a
    · simp
    · simp only [if_true]; omega
  | priv a l u =>
    simp only [applyChange]
    split
    · rename_i p hp
      refine ⟨⟨h.name, h.topic, h.key, h.limit, AL.nodup_insert h.members_nodup _ _, fun w hw => ?_⟩, fun w => ?_⟩
      · apply h.members_users
        rw [← has_insert_of_has_v _ _ _ (has_of_lookup_v hp) w]; exact hw
      · exact has_insert_of_has_v _ _ _ (has_of_lookup_v hp) w
    · exact ⟨h, fun _ => rfl⟩
  | ban a m => exact ⟨h, fun _ => rfl⟩

theorem foldl_applyChange_spec {n : Net} {c : Bytes} (chs : List ModeChange) {ch : NChan} (h : ChanInv n c ch)
    (hok : chs.all (changeOk n c) = true) :
    ChanInv n c (chs.foldl applyChange ch) ∧ ∀ w, AL.has (chs.foldl applyChange ch).members w = AL.has ch.members w := by
  induction chs generalizing ch with
  | nil => exact ⟨h, fun _ => rfl⟩
  | cons a l ih =>
    simp only [List.all_cons, Bool.and_eq_true] at hok
    obtain ⟨s1, s2⟩ := applyChange_spec h a hok.1
    obtain ⟨i1, i2⟩ := ih s1 hok.2
    exact ⟨i1, fun w => (i2 w).trans (s2 w)⟩

/-! ## joining -/

theorem join_ground {n : Net} (h : GInv n) {u c : Bytes} (hu : AL.has n.users u = true) (hc : chanOk c = true)
    (hn : onChan n u c = false) (p : ChanPrivs) :
    let ch0 := (AL.lookup n.chans c).getD {}
    let ch : NChan := { ch0 with members := ch0.members ++ [(u, p)] }
    GInv (setChan n c ch) ∧
    (∀ w, AL.has ch.members w = (onChan n w c || decide (w = u))) ∧
    ∀ w c', onChan (setChan n c ch) w c' = (onChan n w c' || (decide (w = u) && decide (c' = c))) := by
  intro ch0 ch
  have h0 : ChanInv n c ch0 ∧ ∀ w, AL.has ch0.members w = onChan n w c := by
    cases hl : AL.lookup n.chans c with
    | none =>
      have e : ch0 = {} := by show (AL.lookup n.chans c).getD {} = {}; rw [hl]; rfl
      rw [e]
      refine ⟨⟨hc, rfl, Or.inl rfl, by decide, List.nodup_nil, fun w hw => by cases hw⟩, fun w => ?_⟩
      rw [onChan_of_none hl]; rfl
    | some x =>
      have e : ch0 = x := by show (AL.lookup n.chans c).getD {} = x; rw [hl]; rfl
      rw [e]
      exact ⟨h.chan_inv c x hl, fun w => (onChan_of_lookup hl w).symm⟩
  obtain ⟨hi, hm⟩ := h0
  have hms : ∀ w, AL.has ch.members w = (onChan n w c || decide (w = u)) := by
    intro w
    show AL.has (ch0.members ++ [(u, p)]) w = _
    rw [has_append, hm, has_cons, has_nil]; grind
  refine ⟨h.setChan ⟨hc, hi.topic, hi.key, hi.limit, ?_, fun w hw => ?_⟩, hms, fun w c' => ?_⟩
  · show (AL.keys (ch0.members ++ [(u, p)])).Nodup
    have : AL.keys (ch0.members ++ [(u, p)]) = AL.keys ch0.members ++ [u] := by simp [AL.keys]
    rw [this, List.nodup_append]
    refine ⟨hi.members_nodup, by simp, ?_⟩
    intro a ha b hb
    simp only [List.mem_singleton] at hb
    subst hb
    intro hab; subst hab
    rw [← AL.has_iff_mem_keys, hm, hn] at ha
    cases ha
  · rw [hms] at hw
    simp only [Bool.or_eq_true, decide_eq_true_eq] at hw
    rcases hw with hw | hw
    · exact onChan_users h hw
    · rw [hw]; exact hu
  · rw [onChan_setChan]
    split
    · rename_i h1; subst h1; rw [hms]; simp
    · rename_i h1; simp [h1]

end Proofs.C13
