import Goirc.Model.Snapshot
import Goirc.Model.Locked
import Goirc.Proofs.AList
/-! Helper lemmas for C14: the snapshot heap model (first half) and the generic mutex LTS (second half). -/
namespace Go.Snapshot

/-- `omega` does not look through the abbreviation `Ref := Nat` -/
local macro "omegaR" : tactic => `(tactic| ((try dsimp only at *); (try unfold Ref at *); omega))

theorem lookup_append_single (m : List (Ref × Obj)) (k : Ref) (o : Obj) (r : Ref) :
    AL.lookup (m ++ [(k, o)]) r =
      match AL.lookup m r with
      | some v => some v
      | none => if k = r then some o else none := by
  induction m with
  | nil => simp [AL.lookup_cons]
  | cons e m ih =>
    obtain ⟨a, b⟩ := e
    simp only [List.cons_append, AL.lookup_cons]
    split
    · rfl
    · exact ih

theorem read_none_of_bounded {h : Heap} (hb : Bounded h) {r : Ref} (hr : h.next ≤ r) : read h r = none := by
  unfold read
  rw [AL.lookup_eq_none_iff]
  intro hmem
  obtain ⟨e, he, rfl⟩ := List.mem_map.1 hmem
  have := hb e.1 e.2 he
  omegaR

theorem lt_next_of_read {h : Heap} (hb : Bounded h) {r : Ref} {o : Obj} (hr : read h r = some o) :
    r < h.next := hb r o (AL.mem_of_lookup hr)

theorem read_alloc {h : Heap} (hb : Bounded h) (o : Obj) (r : Ref) :
    read (alloc h o).1 r = if r = h.next then some o else read h r := by
  show AL.lookup (h.objs ++ [(h.next, o)]) r = _
  rw [lookup_append_single]
  by_cases hr : r = h.next
  · subst hr
    have := read_none_of_bounded hb (Nat.le_refl h.next)
    unfold read at this
    simp [this]
  · have hr' : ¬ h.next = r := fun e => hr e.symm
    unfold read
    cases AL.lookup h.objs r <;> simp [hr, hr']

theorem bounded_alloc {h : Heap} (hb : Bounded h) (o : Obj) : Bounded (alloc h o).1 := by
  intro r o' hm
  have hm : (r, o') ∈ h.objs ++ [(h.next, o)] := hm
  show r < h.next + 1
  rcases List.mem_append.1 hm with hm | hm
  · have := hb r o' hm; omegaR
  · simp only [List.mem_singleton, Prod.mk.injEq] at hm
    omegaR

@[simp] theorem alloc_next (h : Heap) (o : Obj) : (alloc h o).1.next = h.next + 1 := rfl
@[simp] theorem alloc_ref (h : Heap) (o : Obj) : (alloc h o).2 = h.next := rfl

theorem read_alloc_old {h : Heap} (hb : Bounded h) (o : Obj) {r : Ref} (hr : r < h.next) :
    read (alloc h o).1 r = read h r := by
  rw [read_alloc hb]
  have : r ≠ h.next := by omegaR
  simp [this]

theorem read_alloc_new {h : Heap} (hb : Bounded h) (o : Obj) : read (alloc h o).1 h.next = some o := by
  rw [read_alloc hb]; simp

/-- the object `copyRec` allocates -/
def copyObj (h : Heap) (r : Ref) : Obj :=
  match read h r with | some (.record f) => .record f | _ => .record []

theorem copyRec_eq (h : Heap) (r : Ref) : copyRec h r = alloc h (copyObj h r) := rfl

theorem copyObj_of_record {h : Heap} {r : Ref} {f : List Bytes} (hr : read h r = some (.record f)) :
    some (copyObj h r) = read h r := by
  simp [copyObj, hr]

theorem copyObj_congr {h h' : Heap} {r : Ref} (e : read h' r = read h r) : copyObj h' r = copyObj h r := by
  simp [copyObj, e]

theorem copyCells_cons (h : Heap) (n : Bytes) (c : Ref) (rest : List (Bytes × Ref)) :
    copyCells h ((n, c) :: rest) =
      ((copyCells (alloc h (copyObj h c)).1 rest).1, (n, h.next) :: (copyCells (alloc h (copyObj h c)).1 rest).2) := rfl

/-- what the loop over the cells does -/
theorem copyCells_spec (cells : List (Bytes × Ref)) : ∀ (h : Heap), Bounded h →
    Bounded (copyCells h cells).1 ∧
    (copyCells h cells).1.next = h.next + cells.length ∧
    (∀ r, r < h.next → read (copyCells h cells).1 r = read h r) ∧
    (∀ e ∈ (copyCells h cells).2, h.next ≤ e.2 ∧ e.2 < (copyCells h cells).1.next) ∧
    ((∀ e ∈ cells, e.2 < h.next) →
      (copyCells h cells).2.map (fun e => (e.1, read (copyCells h cells).1 e.2)) =
        cells.map (fun e => (e.1, some (copyObj h e.2)))) := by
  induction cells with
  | nil =>
    intro h hb
    refine ⟨hb, rfl, fun _ _ => rfl, ?_, fun _ => rfl⟩
    intro e he; cases he
  | cons e rest ih =>
    intro h hb
    obtain ⟨n, c⟩ := e
    rw [copyCells_cons]
    have hb1 := bounded_alloc hb (copyObj h c)
    obtain ⟨hb2, hnext, hpres, hrefs, hcont⟩ := ih (alloc h (copyObj h c)).1 hb1
    simp only [alloc_next] at hnext hpres hrefs
    refine ⟨hb2, ?_, ?_, ?_, ?_⟩
    · simp only [List.length_cons]; omegaR
    · intro r hr
      rw [hpres r (by omegaR), read_alloc_old hb _ hr]
    · intro e he
      rcases List.mem_cons.1 he with he | he
      · subst he
        simp only
        omegaR
      · have := hrefs e he
        omegaR
    · intro hlt
      simp only [List.map_cons]
      congr 1
      · rw [hpres _ (by omegaR), read_alloc_new hb]
      · rw [hcont (fun e he => by have := hlt e (List.mem_cons_of_mem _ he); simp only [alloc_next]; omegaR)]
        apply List.map_congr_left
        intro e he
        have := hlt e (List.mem_cons_of_mem _ he)
        rw [copyObj_congr (read_alloc_old hb _ this)]

theorem snapshot_eq (h : Heap) (x : Internal) :
    snapshot h x =
      ((alloc (copyCells (alloc h (copyObj h x.modes)).1 x.cells).1
          (.map (copyCells (alloc h (copyObj h x.modes)).1 x.cells).2)).1,
        { scalars := x.scalars, modes := h.next,
          members := (copyCells (alloc h (copyObj h x.modes)).1 x.cells).1.next }) := rfl

/-- everything the property theorems need about one `snapshot` call -/
theorem snapshot_spec (h : Heap) (x : Internal) (hb : Bounded h) :
    Bounded (snapshot h x).1 ∧
    (snapshot h x).1.next = h.next + x.cells.length + 2 ∧
    (∀ r, r < h.next → read (snapshot h x).1 r = read h r) ∧
    (snapshot h x).2.scalars = x.scalars ∧
    (snapshot h x).2.modes = h.next ∧
    (snapshot h x).2.members = h.next + x.cells.length + 1 ∧
    read (snapshot h x).1 (snapshot h x).2.modes = some (copyObj h x.modes) ∧
    ∃ es, read (snapshot h x).1 (snapshot h x).2.members = some (.map es) ∧
      (∀ e ∈ es, h.next < e.2 ∧ e.2 < h.next + x.cells.length + 1) ∧
      ((∀ e ∈ x.cells, e.2 < h.next) →
        es.map (fun e => (e.1, read (snapshot h x).1 e.2)) =
          x.cells.map (fun e => (e.1, some (copyObj h e.2)))) := by
  rw [snapshot_eq]
  have hb1 := bounded_alloc hb (copyObj h x.modes)
  obtain ⟨hb2, hnext, hpres, hrefs, hcont⟩ := copyCells_spec x.cells (alloc h (copyObj h x.modes)).1 hb1
  generalize hcc : copyCells (alloc h (copyObj h x.modes)).1 x.cells = cc at *
  obtain ⟨h2, es⟩ := cc
  simp only [alloc_next] at hnext hpres hrefs hcont ⊢
  have hb3 := bounded_alloc hb2 (.map es)
  refine ⟨hb3, by omegaR, ?_, trivial, trivial, by omegaR, ?_, es, ?_, ?_, ?_⟩
  · intro r hr
    rw [read_alloc_old hb2 _ (by omegaR), hpres r (by omegaR), read_alloc_old hb _ hr]
  · rw [read_alloc_old hb2 _ (by omegaR), hpres _ (by omegaR), read_alloc_new hb]
  · exact read_alloc_new hb2 _
  · intro e he
    have := hrefs e he
    omegaR
  · intro hlt
    have h1 : es.map (fun e => (e.1, read (alloc h2 (.map es)).1 e.2)) =
        es.map (fun e => (e.1, read h2 e.2)) := by
      apply List.map_congr_left
      intro e he
      have := hrefs e he
      rw [read_alloc_old hb2 _ this.2]
    rw [h1, hcont (fun e he => by have := hlt e he; omegaR)]
    apply List.map_congr_left
    intro e he
    rw [copyObj_congr (read_alloc_old hb _ (hlt e he))]

/-! ### writes -/

theorem read_write (h : Heap) (r' : Ref) (o : Obj) (r : Ref) :
    read (write h r' o) r = if r' = r then some o else read h r := by
  show AL.lookup (AL.insert h.objs r' o) r = _
  rw [AL.lookup_insert]
  rfl

theorem read_applyWrites (ws : List (Ref × Obj)) : ∀ (h : Heap) (r : Ref), (∀ w ∈ ws, w.1 ≠ r) →
    read (applyWrites h ws) r = read h r := by
  induction ws with
  | nil => intro h r _; rfl
  | cons w ws ih =>
    intro h r hne
    obtain ⟨r', o⟩ := w
    simp only [applyWrites]
    rw [ih _ r (fun w' hw' => hne w' (List.mem_cons_of_mem _ hw')), read_write]
    have := hne (r', o) (by simp)
    simp only at this
    simp [this]

end Go.Snapshot

namespace Go.Locked
variable {σ Op Ret : Type}

@[simp] theorem setPc_self (s : St σ Op Ret) (t : Tid) (p : Pc Op Ret) : setPc s t p t = p := by
  simp [setPc]

theorem setPc_ne (s : St σ Op Ret) {t u : Tid} (p : Pc Op Ret) (h : u ≠ t) : setPc s t p u = s.pc u := by
  simp [setPc, h]

/-! ### what each step does -/

theorem step_call {f : σ → Op → σ × Ret} {s s' : St σ Op Ret} {t : Tid} {o : Op}
    (hs : step f s (.call t o) = some s') :
    s.pc t = .idle ∧ s' = { s with pc := setPc s t (.waiting o), log := s.log ++ [.call t o] } := by
  simp only [step] at hs
  split at hs
  · next hp => cases hs; exact ⟨hp, rfl⟩
  · cases hs

theorem step_lock {f : σ → Op → σ × Ret} {s s' : St σ Op Ret} {t : Tid}
    (hs : step f s (.lock t) = some s') :
    ∃ o, s.pc t = .waiting o ∧ s.mu = none ∧ s' = { s with mu := some t, pc := setPc s t (.holding o) } := by
  simp only [step] at hs
  split at hs
  · next o hp hm => cases hs; exact ⟨o, hp, hm, rfl⟩
  · cases hs

theorem step_body {f : σ → Op → σ × Ret} {s s' : St σ Op Ret} {t : Tid}
    (hs : step f s (.body t) = some s') :
    ∃ o, s.pc t = .holding o ∧
      s' = { s with obj := (f s.obj o).1, pc := setPc s t (.finished o (f s.obj o).2),
                    hist := s.hist ++ [(t, o, (f s.obj o).2)] } := by
  simp only [step] at hs
  split at hs
  · next o hp => cases hs; exact ⟨o, hp, rfl⟩
  · cases hs

theorem step_unlockRet {f : σ → Op → σ × Ret} {s s' : St σ Op Ret} {t : Tid}
    (hs : step f s (.unlockRet t) = some s') :
    ∃ o r, s.pc t = .finished o r ∧
      s' = { s with mu := none, pc := setPc s t .idle, log := s.log ++ [.ret t o r] } := by
  simp only [step] at hs
  split at hs
  · next o r hp => cases hs; exact ⟨o, r, hp, rfl⟩
  · cases hs

/-! ### atomicity -/

theorem seqRun_append (f : σ → Op → σ × Ret) : ∀ (x : σ) (os : List Op) (o : Op),
    seqRun f x (os ++ [o]) =
      ((f (seqRun f x os).1 o).1, (seqRun f x os).2 ++ [(f (seqRun f x os).1 o).2]) := by
  intro x os
  induction os generalizing x with
  | nil => intro o; simp [seqRun]
  | cons a os ih => intro o; simp [seqRun, ih]

theorem atomic (f : σ → Op → σ × Ret) (x : σ) {s : St σ Op Ret} (h : Reach f x s) :
    seqRun f x (s.hist.map (·.2.1)) = (s.obj, s.hist.map (·.2.2)) := by
  induction h with
  | init => rfl
  | @step s l s' _ hs ih =>
    cases l with
    | call t o => obtain ⟨_, rfl⟩ := step_call hs; exact ih
    | lock t => obtain ⟨_, _, _, rfl⟩ := step_lock hs; exact ih
    | unlockRet t => obtain ⟨_, _, _, rfl⟩ := step_unlockRet hs; exact ih
    | body t =>
      obtain ⟨o, _, rfl⟩ := step_body hs
      simp only [List.map_append, List.map_cons, List.map_nil]
      rw [seqRun_append, ih]

/-! ### mutual exclusion -/

/-- whoever is past `mu.Lock()` and not yet past the deferred `Unlock` owns the mutex -/
def MuInv (s : St σ Op Ret) : Prop :=
  ∀ t, ((∃ o, s.pc t = .holding o) ∨ (∃ o r, s.pc t = .finished o r)) → s.mu = some t

theorem muInv (f : σ → Op → σ × Ret) (x : σ) {s : St σ Op Ret} (h : Reach f x s) : MuInv s := by
  induction h with
  | init => intro t ht; rcases ht with ⟨o, ho⟩ | ⟨o, r, ho⟩ <;> cases ho
  | @step s l s' _ hs ih =>
    intro u hu
    cases l with
    | call t o =>
      obtain ⟨hp, rfl⟩ := step_call hs
      by_cases hut : u = t
      · subst hut; simp at hu
      · simp only [setPc_ne _ _ hut] at hu; exact ih u hu
    | lock t =>
      obtain ⟨o, hp, hm, rfl⟩ := step_lock hs
      by_cases hut : u = t
      · subst hut; rfl
      · simp only [setPc_ne _ _ hut] at hu
        have := ih u hu
        rw [hm] at this; cases this
    | body t =>
      obtain ⟨o, hp, rfl⟩ := step_body hs
      by_cases hut : u = t
      · subst hut; exact ih u (Or.inl ⟨o, hp⟩)
      · simp only [setPc_ne _ _ hut] at hu; exact ih u hu
    | unlockRet t =>
      obtain ⟨o, r, hp, rfl⟩ := step_unlockRet hs
      by_cases hut : u = t
      · subst hut; simp at hu
      · simp only [setPc_ne _ _ hut] at hu
        have h1 := ih u hu
        have h2 := ih t (Or.inr ⟨o, r, hp⟩)
        rw [h1] at h2
        exact absurd (Option.some.inj h2) hut

/-! ### real time -/

/-- entries of the lock-order history that belong to thread `t` -/
def byT (t : Tid) : Tid × Op × Ret → Bool := fun e => e.1 == t

/-- call events of thread `t` -/
def isCallBy (t : Tid) : Ev Op Ret → Bool
  | .call u _ => u == t
  | _ => false

/-- 1 if the thread has called an operation whose body has not run yet -/
def pending : Pc Op Ret → Nat
  | .waiting _ => 1
  | .holding _ => 1
  | _ => 0

/-- Invariant linking the real-time log with the lock-order history.  The ghost list `st` gives, for
every entry of `hist`, the length of the log at the moment the body ran. -/
structure Inv (s : St σ Op Ret) (st : List Nat) : Prop where
  len : st.length = s.hist.length
  mono : ∀ (a b na nb : Nat), a ≤ b → st[a]? = some na → st[b]? = some nb → na ≤ nb
  bound : ∀ (a n : Nat), st[a]? = some n → n ≤ s.log.length
  ret : ∀ (i : Nat) (t : Tid) (o : Op) (r : Ret), s.log[i]? = some (Ev.ret t o r) →
    ∃ (k n : Nat), s.hist[k]? = some (t, o, r) ∧ st[k]? = some n ∧ n ≤ i
  call : ∀ (j : Nat) (t : Tid) (o : Op), s.log[j]? = some (Ev.call t o) →
    (s.pc t = .waiting o ∨ s.pc t = .holding o) ∨
      ∃ (k : Nat) (r : Ret) (n : Nat), s.hist[k]? = some (t, o, r) ∧ st[k]? = some n ∧ j < n
  fin : ∀ (t : Tid) (o : Op) (r : Ret), s.pc t = .finished o r →
    ∃ (k n : Nat), s.hist[k]? = some (t, o, r) ∧ st[k]? = some n
  cnt : ∀ (t : Tid), s.hist.countP (byT t) + pending (s.pc t) = s.log.countP (isCallBy t)
  stamp : ∀ (k : Nat) (t : Tid) (o : Op) (r : Ret) (n : Nat), s.hist[k]? = some (t, o, r) → st[k]? = some n →
    (s.hist.take (k + 1)).countP (byT t) = (s.log.take n).countP (isCallBy t)

theorem getElem?_snoc {α : Type} (l : List α) (a b : α) (i : Nat) (h : (l ++ [a])[i]? = some b) :
    l[i]? = some b ∨ (i = l.length ∧ b = a) := by
  by_cases hi : i < l.length
  · rw [List.getElem?_append_left hi] at h; exact Or.inl h
  · rw [List.getElem?_append_right (by omega)] at h
    right
    have : i - l.length = 0 := by
      rcases Nat.eq_zero_or_pos (i - l.length) with e | e
      · exact e
      · rw [List.getElem?_eq_none (by simp; omega)] at h; cases h
    rw [this] at h
    simp at h
    exact ⟨by omega, h.symm⟩

theorem getElem?_snoc_left {α : Type} (l : List α) (a b : α) (i : Nat) (h : l[i]? = some b) :
    (l ++ [a])[i]? = some b := by
  have : i < l.length := by
    rcases Nat.lt_or_ge i l.length with h' | h'
    · exact h'
    · rw [List.getElem?_eq_none h'] at h; cases h
  rw [List.getElem?_append_left this]; exact h

theorem inv (f : σ → Op → σ × Ret) (x : σ) {s : St σ Op Ret} (h : Reach f x s) : ∃ st, Inv s st := by
  induction h with
  | init =>
    refine ⟨[], rfl, ?_, ?_, ?_, ?_, ?_, ?_, ?_⟩
    · intro a b na nb _ e; simp at e
    · intro a n e; simp at e
    · intro i t o r e; simp [init] at e
    · intro j t o e; simp [init] at e
    · intro t o r e; cases e
    · intro t; rfl
    · intro k t o r n e; simp [init] at e
  | @step s l s' _ hs ih =>
    obtain ⟨st, I⟩ := ih
    cases l with
    | call t o =>
      obtain ⟨hp, rfl⟩ := step_call hs
      refine ⟨st, I.len, I.mono, ?_, ?_, ?_, ?_, ?_, ?_⟩
      rotate_left 4
      · intro u
        have := I.cnt u
        simp only [List.countP_append, List.countP_cons, List.countP_nil]
        by_cases hut : u = t
        · subst hut
          rw [hp] at this
          simp only [setPc_self, pending, isCallBy, beq_self_eq_true, if_true] at this ⊢
          omega
        · have hne : (t == u) = false := by simp; exact fun e => hut e.symm
          simp only [setPc_ne _ _ hut, isCallBy, hne]
          simpa using this
      · intro k u o' r' n h1 h2
        rw [List.take_append_of_le_length (I.bound k n h2)]
        exact I.stamp k u o' r' n h1 h2
      · intro a n e
        have := I.bound a n e
        simp only [List.length_append, List.length_singleton]; omega
      · intro i t' o' r' e
        rcases getElem?_snoc _ _ _ _ e with e | ⟨_, e⟩
        · exact I.ret i t' o' r' e
        · cases e
      · intro j t' o' e
        rcases getElem?_snoc _ _ _ _ e with e1 | ⟨_, e1⟩
        · clear e
          by_cases htt : t' = t
          · subst htt
            rcases I.call j t' o' e1 with (h1 | h1) | h1
            · rw [hp] at h1; cases h1
            · rw [hp] at h1; cases h1
            · exact Or.inr h1
          · simp only [setPc_ne _ _ htt]; exact I.call j t' o' e1
        · cases e1; left; left; simp
      · intro t' o' r' e
        by_cases htt : t' = t
        · subst htt; simp at e
        · simp only [setPc_ne _ _ htt] at e; exact I.fin t' o' r' e
    | lock t =>
      obtain ⟨o, hp, hm, rfl⟩ := step_lock hs
      refine ⟨st, I.len, I.mono, I.bound, I.ret, ?_, ?_, ?_, I.stamp⟩
      rotate_left 2
      · intro u
        have := I.cnt u
        by_cases hut : u = t
        · subst hut
          rw [hp] at this
          simpa [pending] using this
        · simpa only [setPc_ne _ _ hut] using this
      · intro j t' o' e
        by_cases htt : t' = t
        · subst htt
          rcases I.call j t' o' e with (h1 | h1) | h1
          · rw [hp] at h1; cases h1; left; right; simp
          · rw [hp] at h1; cases h1
          · exact Or.inr h1
        · simp only [setPc_ne _ _ htt]; exact I.call j t' o' e
      · intro t' o' r' e
        by_cases htt : t' = t
        · subst htt; simp at e
        · simp only [setPc_ne _ _ htt] at e; exact I.fin t' o' r' e
    | body t =>
      obtain ⟨o, hp, rfl⟩ := step_body hs
      have hnew : (st ++ [s.log.length])[s.hist.length]? = some s.log.length := by
        rw [← I.len]; simp
      have hnewh : ∀ e : Tid × Op × Ret, (s.hist ++ [e])[s.hist.length]? = some e := by
        intro e; simp
      refine ⟨st ++ [s.log.length], ?_, ?_, ?_, ?_, ?_, ?_, ?_, ?_⟩
      rotate_left 6
      · intro u
        have := I.cnt u
        simp only [List.countP_append, List.countP_cons, List.countP_nil]
        by_cases hut : u = t
        · subst hut
          rw [hp] at this
          simp only [setPc_self, pending, byT, beq_self_eq_true, if_true] at this ⊢
          omega
        · have hne : (t == u) = false := by simp; exact fun e => hut e.symm
          simp only [setPc_ne _ _ hut, byT, hne]
          simpa using this
      · intro k u o' r' n h1 h2
        rcases getElem?_snoc _ _ _ _ h1 with h1' | ⟨hk, h1'⟩
        · have hk : k < s.hist.length := by
            rcases Nat.lt_or_ge k s.hist.length with h' | h'
            · exact h'
            · rw [List.getElem?_eq_none h'] at h1'; cases h1'
          rcases getElem?_snoc _ _ _ _ h2 with h2' | ⟨hk2, _⟩
          · rw [List.take_append_of_le_length (by omega)]
            exact I.stamp k u o' r' n h1' h2'
          · have := I.len; omega
        · cases h1'
          rcases getElem?_snoc _ _ _ _ h2 with h2' | ⟨_, h2'⟩
          · have : k < st.length := by
              rcases Nat.lt_or_ge k st.length with h' | h'
              · exact h'
              · rw [List.getElem?_eq_none h'] at h2'; cases h2'
            have := I.len; omega
          · subst h2'
            subst hk
            have := I.cnt t
            rw [hp] at this
            rw [List.take_of_length_le (by simp), List.take_length]
            simp only [List.countP_append, List.countP_cons, List.countP_nil, byT, beq_self_eq_true,
              if_true, pending] at this ⊢
            omega
      · simp [I.len]
      · intro a b na nb hab ea eb
        rcases getElem?_snoc _ _ _ _ eb with eb | ⟨_, eb⟩
        · rcases getElem?_snoc _ _ _ _ ea with ea | ⟨ea, _⟩
          · exact I.mono a b na nb hab ea eb
          · have : b < st.length := by
              rcases Nat.lt_or_ge b st.length with h' | h'
              · exact h'
              · rw [List.getElem?_eq_none h'] at eb; cases eb
            omega
        · rcases getElem?_snoc _ _ _ _ ea with ea | ⟨_, ea⟩
          · rw [eb]; exact I.bound a na ea
          · rw [ea, eb]; exact Nat.le_refl _
      · intro a n e
        rcases getElem?_snoc _ _ _ _ e with e | ⟨_, e⟩
        · exact I.bound a n e
        · rw [e]; exact Nat.le_refl _
      · intro i t' o' r' e
        obtain ⟨k, n, h1, h2, h3⟩ := I.ret i t' o' r' e
        exact ⟨k, n, getElem?_snoc_left _ _ _ _ h1, getElem?_snoc_left _ _ _ _ h2, h3⟩
      · intro j t' o' e
        have hj : j < s.log.length := by
          rcases Nat.lt_or_ge j s.log.length with h' | h'
          · exact h'
          · rw [List.getElem?_eq_none h'] at e; cases e
        rcases I.call j t' o' e with (h1 | h1) | ⟨k, r, n, h1, h2, h3⟩
        · by_cases htt : t' = t
          · subst htt; rw [hp] at h1; cases h1
          · simp only [setPc_ne _ _ htt]; exact Or.inl (Or.inl h1)
        · by_cases htt : t' = t
          · subst htt; rw [hp] at h1; cases h1
            exact Or.inr ⟨s.hist.length, _, s.log.length, hnewh _, hnew, hj⟩
          · simp only [setPc_ne _ _ htt]; exact Or.inl (Or.inr h1)
        · exact Or.inr ⟨k, r, n, getElem?_snoc_left _ _ _ _ h1, getElem?_snoc_left _ _ _ _ h2, h3⟩
      · intro t' o' r' e
        by_cases htt : t' = t
        · subst htt
          simp only [setPc_self] at e
          cases e
          exact ⟨s.hist.length, s.log.length, hnewh _, hnew⟩
        · simp only [setPc_ne _ _ htt] at e
          obtain ⟨k, n, h1, h2⟩ := I.fin t' o' r' e
          exact ⟨k, n, getElem?_snoc_left _ _ _ _ h1, getElem?_snoc_left _ _ _ _ h2⟩
    | unlockRet t =>
      obtain ⟨o, r, hp, rfl⟩ := step_unlockRet hs
      refine ⟨st, I.len, I.mono, ?_, ?_, ?_, ?_, ?_, ?_⟩
      rotate_left 4
      · intro u
        have := I.cnt u
        simp only [List.countP_append, List.countP_cons, List.countP_nil, isCallBy]
        by_cases hut : u = t
        · subst hut
          rw [hp] at this
          simpa [pending] using this
        · simpa [setPc_ne _ _ hut] using this
      · intro k u o' r' n h1 h2
        rw [List.take_append_of_le_length (I.bound k n h2)]
        exact I.stamp k u o' r' n h1 h2
      · intro a n e
        have := I.bound a n e
        simp only [List.length_append, List.length_singleton]; omega
      · intro i t' o' r' e
        rcases getElem?_snoc _ _ _ _ e with e | ⟨hi, e⟩
        · exact I.ret i t' o' r' e
        · cases e
          obtain ⟨k, n, h1, h2⟩ := I.fin _ _ _ hp
          exact ⟨k, n, h1, h2, by rw [hi]; exact I.bound k n h2⟩
      · intro j t' o' e
        rcases getElem?_snoc _ _ _ _ e with e1 | ⟨_, e1⟩
        · clear e
          by_cases htt : t' = t
          · subst htt
            rcases I.call j t' o' e1 with (h1 | h1) | h1
            · rw [hp] at h1; cases h1
            · rw [hp] at h1; cases h1
            · exact Or.inr h1
          · simp only [setPc_ne _ _ htt]; exact I.call j t' o' e1
        · cases e1
      · intro t' o' r' e
        by_cases htt : t' = t
        · subst htt; simp at e
        · simp only [setPc_ne _ _ htt] at e; exact I.fin t' o' r' e

theorem lt_length_of_getElem? {α : Type} {l : List α} {i : Nat} {a : α} (h : l[i]? = some a) : i < l.length := by
  rcases Nat.lt_or_ge i l.length with h' | h'
  · exact h'
  · rw [List.getElem?_eq_none h'] at h; cases h

/-- an operation that returned (log position `i`) before log position `j` precedes, in lock order, every
history entry whose body ran after log position `j` -/
theorem Inv.before {s : St σ Op Ret} {st : List Nat} (I : Inv s st) {i j : Nat} {ta : Tid} {oa : Op} {ra : Ret}
    (hi : s.log[i]? = some (.ret ta oa ra)) (hij : i < j) {kb nb : Nat} (hkb : st[kb]? = some nb) (hnb : j < nb) :
    ∃ ka, ka < kb ∧ s.hist[ka]? = some (ta, oa, ra) := by
  obtain ⟨ka, na, h1, h2, h3⟩ := I.ret i ta oa ra hi
  refine ⟨ka, ?_, h1⟩
  rcases Nat.lt_or_ge ka kb with h' | h'
  · exact h'
  · have := I.mono kb ka nb na h' hkb h2
    omega

/-- the stamp of the history entry that belongs to the call at log position `j` is after `j` -/
theorem Inv.stamp_after {s : St σ Op Ret} {st : List Nat} (I : Inv s st) {j : Nat} {tb : Tid} {ob ob' : Op}
    (hj : s.log[j]? = some (.call tb ob')) {kb : Nat} {rb : Ret} (hkb : s.hist[kb]? = some (tb, ob, rb))
    (hnth : (s.hist.take (kb + 1)).countP (byT tb) = (s.log.take (j + 1)).countP (isCallBy tb))
    {nb : Nat} (hst : st[kb]? = some nb) : j < nb := by
  have h1 := I.stamp kb tb ob rb nb hkb hst
  rcases Nat.lt_or_ge j nb with h' | h'
  · exact h'
  · have h2 : (s.log.take nb).countP (isCallBy tb) ≤ (s.log.take j).countP (isCallBy tb) :=
      (List.take_sublist_take_left h').countP_le
    have h3 : (s.log.take (j + 1)).countP (isCallBy tb) = (s.log.take j).countP (isCallBy tb) + 1 := by
      rw [List.take_add_one, hj]
      simp [isCallBy]
    omega

end Go.Locked
