import Goirc.Model.Flood
/-! Helper lemmas for C10. -/
namespace Go.Flood

theorem charge_nonneg (n : Nat) : 0 ≤ charge n := by
  unfold charge second
  have : (0:Int) ≤ (n:Int) * 1000000000 / 120 := Int.ediv_nonneg (by omega) (by omega)
  omega

theorem rate_fst (chars : Nat) (b e : Int) :
    (rate chars b e).1 = if b + (charge chars - e) < 0 then 0 else b + (charge chars - e) := rfl

theorem rate_snd (chars : Nat) (b e : Int) :
    (rate chars b e).2 = if (rate chars b e).1 > 10 * second then charge chars else 0 := rfl

/-- the invariant carried along a run: penalty ≥ 0, `lastsent` not after the previous write, and
penalty + lastsent ≤ 10 s + previous write time (a held line really was held for its charge) -/
def Inv (s : St) (pw : Int) : Prop := 0 ≤ s.badness ∧ s.lastsent ≤ pw ∧ s.badness + s.lastsent ≤ 10 * second + pw

theorem inv_fresh (t0 : Int) : Inv (fresh t0) t0 := by
  unfold Inv fresh second; simp; omega

theorem inv_next (s : St) (pw : Int) (e : Ev) (h : Inv s pw)
    (h1 : pw ≤ e.t) (h2 : e.t ≤ e.l) (h3 : e.l + delay s e ≤ e.w) : Inv (next s e) e.w := by
  obtain ⟨hb, hl, hs⟩ := h
  have hc := charge_nonneg e.chars
  unfold Inv next delay at *
  simp only [rate_snd, rate_fst, second] at *
  refine ⟨?_, ?_, ?_⟩
  · split <;> omega
  · split at h3 <;> omega
  · split at h3
    · split at h3 <;> split <;> omega
    · split at h3 <;> split <;> omega

theorem valid_append (s : St) (pw : Int) (es fs : List Ev) :
    Valid s pw (es ++ fs) ↔ Valid s pw es ∧ Valid (final s es) (lastW pw es) fs := by
  induction es generalizing s pw with
  | nil => simp [Valid, final, lastW]
  | cons e es ih => simp [Valid, final, lastW, ih, and_assoc]

theorem inv_final (s : St) (pw : Int) (es : List Ev) (h : Inv s pw) (hv : Valid s pw es) :
    Inv (final s es) (lastW pw es) := by
  induction es generalizing s pw with
  | nil => simpa [final, lastW] using h
  | cons e es ih =>
    obtain ⟨h1, h2, h3, h4⟩ := hv
    exact ih _ _ (inv_next s pw e h h1 h2 h3) h4

/-- accumulation: charges pile up in the penalty except for the time that elapsed -/
theorem accumulate (s : St) (pw : Int) (es : List Ev) (hl : s.lastsent ≤ pw) (hv : Valid s pw es) :
    s.badness + totalCharge es ≤ (final s es).badness + ((final s es).lastsent - s.lastsent) := by
  induction es generalizing s pw with
  | nil => simp [totalCharge, final]
  | cons e es ih =>
    obtain ⟨h1, h2, h3, h4⟩ := hv
    have hd : 0 ≤ delay s e := by
      unfold delay; rw [rate_snd]; split
      · exact charge_nonneg _
      · omega
    have := ih (next s e) e.w (by simp [next]; omega) h4
    simp only [totalCharge, List.map_cons, List.sum_cons, final] at this ⊢
    have hstep : s.badness + charge e.chars ≤ (next s e).badness + (e.l - s.lastsent) := by
      simp only [next, rate_fst]; split <;> omega
    simp only [next] at this hstep ⊢
    omega

end Go.Flood
