import Goirc.Model.Flood
/-! Helper lemmas for C10. -/
namespace Go.Flood

theorem charge_nonneg (n : Nat) : 0 ≤ charge n := by
  unfold charge second
  have : (0:Int) ≤ (n:Int) * 1000000000 / 120 := Int.ediv_nonneg (by omega) (by omega)
  omega

theorem rate_fst (chars : Nat) (b e : Int) :
    (rate chars b e).1 = if b + (charge chars - e) < 0 then 0 else b + (charge chars - e) := rfl

theorem rate_snd (chars : Nat) (b e : Int) :
    (rate chars b e).2 = if (rate chars b e).1 > 10 * second then charge chars else 0 := rfl

/-- the invariant carried along a run: penalty ≥ 0, `lastsent` not after the previous write, and
penalty + lastsent ≤ 10 s + previous write time (a held line really was held for its charge) -/
def Inv (s : St) (pw : Int) : Prop := 0 ≤ s.badness ∧ s.lastsent ≤ pw ∧ s.badness + s.lastsent ≤ 10 * second + pw

theorem inv_fresh (t0 : Int) : Inv (fresh t0) t0 := by
  unfold Inv fresh second; simp; omega

theorem inv_next (s : St) (pw : Int) (e : Ev) (h : Inv s pw)
    (h1 : pw ≤ e.t) (h2 : e.t ≤ e.l) (h3 : e.l + delay s e ≤ e.w) : Inv (next s e) e.w := by
  obtain ⟨hb, hl, hs⟩ := h
  have hc := charge_nonneg e.chars
  unfold Inv next delay at *
  simp only [rate_snd, rate_fst, second] at *
  refine ⟨?_, ?_, ?_⟩
  · split <;> omega
  · split at h3 <;> omega
  · split at h3
    · split at h3 <;> split <;> omega
    · split at h3 <;> split <;> omega

theorem valid_append (s : St) (pw : Int) (es fs : List Ev) :
    Valid s pw (es ++ fs) ↔ Valid s pw es ∧ Valid (final s es) (lastW pw es) fs := by
  induction es generalizing s pw with
  | nil => simp [Valid, final, lastW]
  | cons e es ih => simp [Valid, final, lastW, ih, and_assoc]

theorem inv_final (s : St) (pw : Int) (es : List Ev) (h : Inv s pw) (hv : Valid s pw es) :
    Inv (final s es) (lastW pw es) := by
  induction es generalizing s pw with
  | nil => simpa [final, lastW] using h
  | cons e es ih =>
    obtain ⟨h1, h2, h3, h4⟩ := hv
    exact ih _ _ (inv_next s pw e h h1 h2 h3) h4

/-- accumulation: charges pile up in the penalty except for the time that elapsed -/
theorem accumulate (s : St) (pw : Int) (es : List Ev) (hl : s.lastsent ≤ pw) (hv : Valid s pw es) :
    s.badness + totalCharge es ≤ (final s es).badness + ((final s es).lastsent - s.lastsent) := by
  induction es generalizing s pw with
  | nil => simp [totalCharge, final]
  | cons e es ih =>
    obtain ⟨h1, h2, h3, h4⟩ := hv
    have hd : 0 ≤ delay s e := by
      unfold delay; rw [rate_snd]; split
      · exact charge_nonneg _
      · omega
    have := ih (next s e) e.w (by simp [next]; omega) h4
    simp only [totalCharge, List.map_cons, List.sum_cons, final] at this ⊢
    have hstep : s.badness + charge e.chars ≤ (next s e).badness + (e.l - s.lastsent) := by
      simp only [next, rate_fst]; split <;> omega
    simp only [next] at this hstep ⊢
    omega


/-! ## no hold after silence (C10 `quiet_after_idle`) -/

theorem totalCharge_nonneg (es : List Ev) : 0 ≤ totalCharge es := by
  induction es with
  | nil => simp [totalCharge]
  | cons x xs ih =>
    have := charge_nonneg x.chars
    simp only [totalCharge, List.map_cons, List.sum_cons] at ih ⊢
    omega

/-- no line of the run is held back -/
def NoHold : St → List Ev → Prop
  | _, [] => True
  | s, e :: es => delay s e = 0 ∧ NoHold (next s e) es

/-- from a state whose penalty is at most `b`, lines whose charges sum (with `b`) to at most 10 s are not held:
elapsed time only ever lowers the penalty -/
theorem noHold_of_budget (s : St) (pw : Int) (es : List Ev) (hl : s.lastsent ≤ pw) (hv : Valid s pw es)
    (b : Int) (hb0 : 0 ≤ b) (hb : s.badness ≤ b) (hsum : b + totalCharge es ≤ 10 * second) : NoHold s es := by
  induction es generalizing s pw b with
  | nil => trivial
  | cons e es ih =>
    obtain ⟨h1, h2, h3, h4⟩ := hv
    have hc := charge_nonneg e.chars
    have hrest := totalCharge_nonneg es
    have hT : totalCharge (e :: es) = charge e.chars + totalCharge es := by simp [totalCharge]
    -- the new penalty is at most b + charge
    have hn : (next s e).badness ≤ b + charge e.chars := by
      simp only [next, rate_fst]; split <;> omega
    have hd : delay s e = 0 := by
      unfold delay; rw [rate_snd, rate_fst]
      have : ¬ ((if s.badness + (charge e.chars - (e.t - s.lastsent)) < 0 then 0
                else s.badness + (charge e.chars - (e.t - s.lastsent))) > 10 * second) := by
        split <;> omega
      simp [this]
    exact ⟨hd, ih (next s e) e.w (by simp only [next]; omega) h4 (b + charge e.chars) (by omega) hn (by omega)⟩


end Go.Flood
