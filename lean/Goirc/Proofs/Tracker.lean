import Goirc.Proofs.AList
import Goirc.Spec.Tracker
/-!
# Simulation relation between the heap model of the tracker and the relational spec
-/
namespace Go.Tracker
open AL

macro "idomega" : tactic => `(tactic| ((try unfold Go.Tracker.Id at *); omega))

/-! ## Heap access -/

def hgetN (h : List (Id × NickObj)) (i : Id) : NickObj := (AL.lookup h i).getD { nick := [] }
def hgetC (h : List (Id × ChanObj)) (i : Id) : ChanObj := (AL.lookup h i).getD { name := [] }
def hgetP (h : List (Id × ChanPrivs)) (i : Id) : ChanPrivs := (AL.lookup h i).getD {}

@[simp] theorem getN_mk (h ch ce n c m f) (i : Id) : getN ⟨h, ch, ce, n, c, m, f⟩ i = hgetN h i := rfl
@[simp] theorem getC_mk (h ch ce n c m f) (i : Id) : getC ⟨h, ch, ce, n, c, m, f⟩ i = hgetC ch i := rfl
@[simp] theorem getP_mk (h ch ce n c m f) (i : Id) : getP ⟨h, ch, ce, n, c, m, f⟩ i = hgetP ce i := rfl
@[simp] theorem hgetN_proj (s : St) (i : Id) : hgetN s.nickHeap i = getN s i := rfl
@[simp] theorem hgetC_proj (s : St) (i : Id) : hgetC s.chanHeap i = getC s i := rfl
@[simp] theorem hgetP_proj (s : St) (i : Id) : hgetP s.cells i = getP s i := rfl
@[simp] theorem hgetN_insert (h : List (Id × NickObj)) (i : Id) (o : NickObj) (j : Id) :
    hgetN (AL.insert h i o) j = if i = j then o else hgetN h j := by
  unfold hgetN; rw [lookup_insert]; split <;> rfl
@[simp] theorem hgetC_insert (h : List (Id × ChanObj)) (i : Id) (o : ChanObj) (j : Id) :
    hgetC (AL.insert h i o) j = if i = j then o else hgetC h j := by
  unfold hgetC; rw [lookup_insert]; split <;> rfl
@[simp] theorem hgetP_insert (h : List (Id × ChanPrivs)) (i : Id) (o : ChanPrivs) (j : Id) :
    hgetP (AL.insert h i o) j = if i = j then o else hgetP h j := by
  unfold hgetP; rw [lookup_insert]; split <;> rfl

@[simp] theorem setN_nicks (s : St) (i : Id) (o : NickObj) : (setN s i o).nicks = s.nicks := rfl
@[simp] theorem setN_chans (s : St) (i : Id) (o : NickObj) : (setN s i o).chans = s.chans := rfl
@[simp] theorem setN_me (s : St) (i : Id) (o : NickObj) : (setN s i o).me = s.me := rfl
@[simp] theorem setN_fresh (s : St) (i : Id) (o : NickObj) : (setN s i o).fresh = s.fresh := rfl
@[simp] theorem getN_setN (s : St) (i : Id) (o : NickObj) (j : Id) :
    getN (setN s i o) j = if i = j then o else getN s j := by simp [setN]
@[simp] theorem getC_setN (s : St) (i : Id) (o : NickObj) (j : Id) : getC (setN s i o) j = getC s j := rfl
@[simp] theorem getP_setN (s : St) (i : Id) (o : NickObj) (j : Id) : getP (setN s i o) j = getP s j := rfl
@[simp] theorem setC_nicks (s : St) (i : Id) (o : ChanObj) : (setC s i o).nicks = s.nicks := rfl
@[simp] theorem setC_chans (s : St) (i : Id) (o : ChanObj) : (setC s i o).chans = s.chans := rfl
@[simp] theorem setC_me (s : St) (i : Id) (o : ChanObj) : (setC s i o).me = s.me := rfl
@[simp] theorem setC_fresh (s : St) (i : Id) (o : ChanObj) : (setC s i o).fresh = s.fresh := rfl
@[simp] theorem getC_setC (s : St) (i : Id) (o : ChanObj) (j : Id) :
    getC (setC s i o) j = if i = j then o else getC s j := by simp [setC]
@[simp] theorem getN_setC (s : St) (i : Id) (o : ChanObj) (j : Id) : getN (setC s i o) j = getN s j := rfl
@[simp] theorem getP_setC (s : St) (i : Id) (o : ChanObj) (j : Id) : getP (setC s i o) j = getP s j := rfl
@[simp] theorem setP_nicks (s : St) (i : Id) (o : ChanPrivs) : (setP s i o).nicks = s.nicks := rfl
@[simp] theorem setP_chans (s : St) (i : Id) (o : ChanPrivs) : (setP s i o).chans = s.chans := rfl
@[simp] theorem setP_me (s : St) (i : Id) (o : ChanPrivs) : (setP s i o).me = s.me := rfl
@[simp] theorem setP_fresh (s : St) (i : Id) (o : ChanPrivs) : (setP s i o).fresh = s.fresh := rfl
@[simp] theorem getP_setP (s : St) (i : Id) (o : ChanPrivs) (j : Id) :
    getP (setP s i o) j = if i = j then o else getP s j := by simp [setP]
@[simp] theorem getN_setP (s : St) (i : Id) (o : ChanPrivs) (j : Id) : getN (setP s i o) j = getN s j := rfl
@[simp] theorem getC_setP (s : St) (i : Id) (o : ChanPrivs) (j : Id) : getC (setP s i o) j = getC s j := rfl

/-! ## The invariant of the heap -/

/-- nick object `i` is the one registered under its own name -/
def LiveN (st : St) (i : Id) : Prop := AL.lookup st.nicks (getN st i).nick = some i
/-- channel object `c` is the one registered under its own name -/
def LiveC (st : St) (c : Id) : Prop := AL.lookup st.chans (getC st c).name = some c

structure WF (st : St) : Prop where
  nick_name : ∀ a i, AL.lookup st.nicks a = some i → (getN st i).nick = a
  chan_name : ∀ a c, AL.lookup st.chans a = some c → (getC st c).name = a
  me_live : LiveN st st.me
  nk_nodup : ∀ i, LiveN st i → (AL.keys (getN st i).chans).Nodup
  ch_nodup : ∀ c, LiveC st c → (AL.keys (getC st c).nicks).Nodup
  nk_ch : ∀ i, LiveN st i → ∀ c cell, AL.lookup (getN st i).chans c = some cell →
    LiveC st c ∧ AL.lookup (getC st c).nicks i = some cell
  ch_nk : ∀ c, LiveC st c → ∀ i cell, AL.lookup (getC st c).nicks i = some cell →
    LiveN st i ∧ AL.lookup (getN st i).chans c = some cell
  ch_lookup : ∀ c, LiveC st c → ∀ a i, AL.lookup (getC st c).lookup a = some i ↔
    (AL.has (getC st c).nicks i = true ∧ (getN st i).nick = a)
  cell_inj : ∀ i, LiveN st i → ∀ j, LiveN st j → ∀ c d cell,
    AL.lookup (getN st i).chans c = some cell → AL.lookup (getN st j).chans d = some cell → i = j ∧ c = d
  fresh_nick : ∀ a i, AL.lookup st.nicks a = some i → i < st.fresh
  fresh_chan : ∀ a c, AL.lookup st.chans a = some c → c < st.fresh
  fresh_cell : ∀ i, LiveN st i → ∀ c cell, AL.lookup (getN st i).chans c = some cell → cell < st.fresh

theorem WF.liveN {st : St} (w : WF st) {a : Bytes} {i : Id} (h : AL.lookup st.nicks a = some i) : LiveN st i := by
  unfold LiveN; rw [w.nick_name a i h]; exact h
theorem WF.liveC {st : St} (w : WF st) {a : Bytes} {c : Id} (h : AL.lookup st.chans a = some c) : LiveC st c := by
  unfold LiveC; rw [w.chan_name a c h]; exact h
theorem WF.liveN_lt {st : St} (w : WF st) {i : Id} (h : LiveN st i) : i < st.fresh := w.fresh_nick _ _ h
theorem WF.liveC_lt {st : St} (w : WF st) {c : Id} (h : LiveC st c) : c < st.fresh := w.fresh_chan _ _ h
theorem WF.nick_inj {st : St} (w : WF st) {a b : Bytes} {i : Id} (h : AL.lookup st.nicks a = some i)
    (h' : AL.lookup st.nicks b = some i) : a = b := by
  rw [← w.nick_name a i h, w.nick_name b i h']
theorem WF.chan_inj {st : St} (w : WF st) {a b : Bytes} {i : Id} (h : AL.lookup st.chans a = some i)
    (h' : AL.lookup st.chans b = some i) : a = b := by
  rw [← w.chan_name a i h, w.chan_name b i h']
theorem LiveN.eq_of_nick {st : St} {i j : Id} (hi : LiveN st i) (hj : LiveN st j)
    (h : (getN st i).nick = (getN st j).nick) : i = j := by
  unfold LiveN at hi hj; rw [h, hj] at hi; exact (Option.some.inj hi).symm
theorem LiveC.eq_of_name {st : St} {i j : Id} (hi : LiveC st i) (hj : LiveC st j)
    (h : (getC st i).name = (getC st j).name) : i = j := by
  unfold LiveC at hi hj; rw [h, hj] at hi; exact (Option.some.inj hi).symm

/-- two states with the same names, links and ids (attributes and cell contents may differ) -/
structure SameSkel (st st' : St) : Prop where
  nicks : st'.nicks = st.nicks
  chans : st'.chans = st.chans
  me : st'.me = st.me
  fresh : st'.fresh = st.fresh
  nnick : ∀ i, (getN st' i).nick = (getN st i).nick
  nchans : ∀ i, (getN st' i).chans = (getN st i).chans
  cname : ∀ c, (getC st' c).name = (getC st c).name
  cnicks : ∀ c, (getC st' c).nicks = (getC st c).nicks
  clookup : ∀ c, (getC st' c).lookup = (getC st c).lookup

theorem WF.of_sameSkel {st st' : St} (h : SameSkel st st') (w : WF st) : WF st' := by
  have hN : ∀ i, LiveN st' i ↔ LiveN st i := by intro i; simp only [LiveN, h.nicks, h.nnick]
  have hC : ∀ i, LiveC st' i ↔ LiveC st i := by intro i; simp only [LiveC, h.chans, h.cname]
  constructor
  · simpa only [h.nicks, h.nnick] using w.nick_name
  · simpa only [h.chans, h.cname] using w.chan_name
  · simpa only [hN, h.me] using w.me_live
  · simpa only [hN, h.nchans] using w.nk_nodup
  · simpa only [hC, h.cnicks] using w.ch_nodup
  · simpa only [hN, hC, h.nchans, h.cnicks] using w.nk_ch
  · simpa only [hN, hC, h.nchans, h.cnicks] using w.ch_nk
  · simpa only [hC, h.clookup, h.cnicks, h.nnick] using w.ch_lookup
  · simpa only [hN, h.nchans] using w.cell_inj
  · simpa only [h.nicks, h.fresh] using w.fresh_nick
  · simpa only [h.chans, h.fresh] using w.fresh_chan
  · simpa only [hN, h.nchans, h.fresh] using w.fresh_cell

end Go.Tracker

namespace Spec.Tracker
open Go.Tracker AL

def absN (o : NickObj) : SNick := { ident := o.ident, host := o.host, name := o.name, modes := o.modes }
def absC (o : ChanObj) : SChan := { topic := o.topic, modes := o.modes }

/-- the relational state is the abstraction of the heap -/
structure Abs (st : St) (S : S) : Prop where
  nicks : ∀ a, AL.lookup S.nicks a = (AL.lookup st.nicks a).map (fun i => absN (getN st i))
  chans : ∀ a, AL.lookup S.chans a = (AL.lookup st.chans a).map (fun c => absC (getC st c))
  mem : ∀ cn a, AL.lookup S.mem (cn, a) =
    (AL.lookup st.chans cn).bind fun c => (AL.lookup st.nicks a).bind fun i =>
      (AL.lookup (getN st i).chans c).map (getP st)
  mem_nodup : (AL.keys S.mem).Nodup
  me : AL.lookup st.nicks S.me = some st.me
  chan_keys : AL.keys S.chans = AL.keys st.chans

/-- the simulation relation -/
def R (st : St) (S : S) : Prop := WF st ∧ Abs st S

theorem new_nicks (me a : Bytes) : AL.lookup (Go.Tracker.new me).nicks a = if me = a then some 0 else none := rfl
theorem new_chans (me a : Bytes) : AL.lookup (Go.Tracker.new me).chans a = none := rfl
theorem new_getN0 (me : Bytes) : getN (Go.Tracker.new me) 0 = { nick := me } := rfl
theorem new_liveN (me : Bytes) (i : Id) : LiveN (Go.Tracker.new me) i ↔ i = 0 := by
  unfold LiveN; rw [new_nicks]
  constructor
  · intro h; split at h <;> simp_all
  · intro h; subst h; simp [new_getN0]
theorem new_liveC (me : Bytes) (i : Id) : ¬ LiveC (Go.Tracker.new me) i := by
  unfold LiveC; rw [new_chans]; simp

theorem R_new (me : Bytes) : R (Go.Tracker.new me) (Spec.Tracker.new me) := by
  constructor
  · constructor
    · intro a i h; rw [new_nicks] at h; split at h
      · cases h; subst_vars; rfl
      · cases h
    · intro a c h; rw [new_chans] at h; cases h
    · rw [new_liveN]; rfl
    · intro i h; rw [new_liveN] at h; subst h; simp [new_getN0]
    · intro c h; exact absurd h (new_liveC me c)
    · intro i h; rw [new_liveN] at h; subst h; simp [new_getN0]
    · intro c h; exact absurd h (new_liveC me c)
    · intro c h; exact absurd h (new_liveC me c)
    · intro i h; rw [new_liveN] at h; subst h; simp [new_getN0]
    · intro a i h; rw [new_nicks] at h; split at h <;> simp_all [Go.Tracker.new]
    · intro a c h; rw [new_chans] at h; cases h
    · intro i h; rw [new_liveN] at h; subst h; simp [new_getN0]
  · constructor
    · intro a; rw [new_nicks]; simp only [Spec.Tracker.new, lookup_cons]
      split <;> simp [new_getN0, absN]
    · intro a; rw [new_chans]; rfl
    · intro cn a; rw [new_chans]; rfl
    · simp [Spec.Tracker.new]
    · simp [Spec.Tracker.new, Go.Tracker.new, lookup_cons]
    · rfl

theorem Abs.mem_iff {st : St} {S : S} (ab : Abs st S) (cn a : Bytes) (p : ChanPrivs) :
    AL.lookup S.mem (cn, a) = some p ↔ ∃ c i cell, AL.lookup st.chans cn = some c ∧ AL.lookup st.nicks a = some i ∧
      AL.lookup (getN st i).chans c = some cell ∧ getP st cell = p := by
  rw [ab.mem]
  cases h1 : AL.lookup st.chans cn <;> cases h2 : AL.lookup st.nicks a <;> simp

theorem Abs.mem_none_iff {st : St} {S : S} (ab : Abs st S) (cn a : Bytes) :
    AL.lookup S.mem (cn, a) = none ↔ ∀ c i, AL.lookup st.chans cn = some c → AL.lookup st.nicks a = some i →
      AL.lookup (getN st i).chans c = none := by
  rw [ab.mem]
  cases h1 : AL.lookup st.chans cn <;> cases h2 : AL.lookup st.nicks a <;> simp

/-- equality of snapshots with the maps compared as finite maps -/
def NSEq (a b : NickSnap) : Prop :=
  a.nick = b.nick ∧ a.ident = b.ident ∧ a.host = b.host ∧ a.name = b.name ∧ a.modes = b.modes ∧
  List.Perm a.channels b.channels

def CSEq (a b : ChanSnap) : Prop :=
  a.name = b.name ∧ a.topic = b.topic ∧ a.modes = b.modes ∧ List.Perm a.nicks b.nicks

theorem nickSnap_sim {st : St} {S : S} (r : R st S) {a : Bytes} {i : Id} (h : AL.lookup st.nicks a = some i) :
    NSEq (Go.Tracker.nickSnap st i) (Spec.Tracker.nickSnap S a) := by
  obtain ⟨w, ab⟩ := r
  have hl := w.liveN h
  have hS := ab.nicks a
  rw [h] at hS
  simp only [Option.map_some] at hS
  refine ⟨?_, ?_, ?_, ?_, ?_, ?_⟩
  · exact w.nick_name a i h
  · simp [Go.Tracker.nickSnap, Spec.Tracker.nickSnap, hS, absN]
  · simp [Go.Tracker.nickSnap, Spec.Tracker.nickSnap, hS, absN]
  · simp [Go.Tracker.nickSnap, Spec.Tracker.nickSnap, hS, absN]
  · simp [Go.Tracker.nickSnap, Spec.Tracker.nickSnap, hS, absN]
  · simp only [Go.Tracker.nickSnap, Spec.Tracker.nickSnap]
    rw [List.perm_ext_iff_of_nodup]
    · intro e
      obtain ⟨cn, p⟩ := e
      simp only [List.mem_map, List.mem_filter, Prod.mk.injEq, beq_iff_eq, Prod.exists]
      constructor
      · rintro ⟨c, cell, hm, hn, hp⟩
        have hlk := lookup_of_mem (w.nk_nodup i hl) hm
        have hc := (w.nk_ch i hl c cell hlk).1
        refine ⟨cn, a, p, ⟨?_, rfl⟩, rfl, rfl⟩
        apply mem_of_lookup
        rw [ab.mem_iff]
        refine ⟨c, i, cell, ?_, h, hlk, hp⟩
        rw [← hn]; exact hc
      · rintro ⟨cn', a', p', ⟨hm, ha⟩, hcn, hp⟩
        subst ha hcn hp
        have := lookup_of_mem ab.mem_nodup hm
        rw [ab.mem_iff] at this
        obtain ⟨c, i', cell, h1, h2, h3, h4⟩ := this
        rw [h] at h2; cases h2
        exact ⟨c, cell, mem_of_lookup h3, w.chan_name _ _ h1, h4⟩
    · apply nodup_map_of_keys _ (w.nk_nodup i hl)
      intro x hx y hy hxy
      obtain ⟨c, cell⟩ := x
      obtain ⟨d, cell'⟩ := y
      simp only [Prod.mk.injEq] at hxy
      have hc := (w.nk_ch i hl c cell (lookup_of_mem (w.nk_nodup i hl) hx)).1
      have hd := (w.nk_ch i hl d cell' (lookup_of_mem (w.nk_nodup i hl) hy)).1
      exact hc.eq_of_name hd hxy.1
    · apply nodup_map_of_keys _ (nodup_filter ab.mem_nodup _)
      intro x hx y hy hxy
      simp only [List.mem_filter, beq_iff_eq] at hx hy
      simp only [Prod.mk.injEq] at hxy
      apply Prod.ext hxy.1
      rw [hx.2, hy.2]

theorem chanSnap_sim {st : St} {S : S} (r : R st S) {cn : Bytes} {c : Id} (h : AL.lookup st.chans cn = some c) :
    CSEq (Go.Tracker.chanSnap st c) (Spec.Tracker.chanSnap S cn) := by
  obtain ⟨w, ab⟩ := r
  have hl := w.liveC h
  have hS := ab.chans cn
  rw [h] at hS
  simp only [Option.map_some] at hS
  refine ⟨?_, ?_, ?_, ?_⟩
  · exact w.chan_name cn c h
  · simp [Go.Tracker.chanSnap, Spec.Tracker.chanSnap, hS, absC]
  · simp [Go.Tracker.chanSnap, Spec.Tracker.chanSnap, hS, absC]
  · simp only [Go.Tracker.chanSnap, Spec.Tracker.chanSnap]
    rw [List.perm_ext_iff_of_nodup]
    · intro e
      obtain ⟨a, p⟩ := e
      simp only [List.mem_map, List.mem_filter, Prod.mk.injEq, beq_iff_eq, Prod.exists]
      constructor
      · rintro ⟨i, cell, hm, hn, hp⟩
        have hlk := lookup_of_mem (w.ch_nodup c hl) hm
        have hc := w.ch_nk c hl i cell hlk
        refine ⟨cn, a, p, ⟨?_, rfl⟩, rfl, rfl⟩
        apply mem_of_lookup
        rw [ab.mem_iff]
        refine ⟨c, i, cell, h, ?_, hc.2, hp⟩
        rw [← hn]; exact hc.1
      · rintro ⟨cn', a', p', ⟨hm, ha⟩, hcn, hp⟩
        subst ha hcn hp
        have := lookup_of_mem ab.mem_nodup hm
        rw [ab.mem_iff] at this
        obtain ⟨c', i, cell, h1, h2, h3, h4⟩ := this
        rw [h] at h1; cases h1
        exact ⟨i, cell, mem_of_lookup (w.nk_ch i (w.liveN h2) c cell h3).2, w.nick_name _ _ h2, h4⟩
    · apply nodup_map_of_keys _ (w.ch_nodup c hl)
      intro x hx y hy hxy
      obtain ⟨i, cell⟩ := x
      obtain ⟨j, cell'⟩ := y
      simp only [Prod.mk.injEq] at hxy
      have hi := (w.ch_nk c hl i cell (lookup_of_mem (w.ch_nodup c hl) hx)).1
      have hj := (w.ch_nk c hl j cell' (lookup_of_mem (w.ch_nodup c hl) hy)).1
      exact hi.eq_of_nick hj hxy.1
    · apply nodup_map_of_keys _ (nodup_filter ab.mem_nodup _)
      intro x hx y hy hxy
      simp only [List.mem_filter, beq_iff_eq] at hx hy
      simp only [Prod.mk.injEq] at hxy
      apply Prod.ext _ hxy.1
      rw [hx.2, hy.2]

end Spec.Tracker

namespace Spec.Tracker
open Go.Tracker AL

/-- equality of return values, maps compared as finite maps -/
def RetSim : Ret → Ret → Prop
  | .nick none, .nick none => True
  | .nick (some a), .nick (some b) => NSEq a b
  | .chan none, .chan none => True
  | .chan (some a), .chan (some b) => CSEq a b
  | .privs p ok, .privs q ok' => p = q ∧ ok = ok'
  | .assoc p, .assoc q => p = q
  | .unit, .unit => True
  | _, _ => False

/-- one step of the simulation -/
def Sim (st : St) (S : S) (op : Op) : Prop :=
  R (Go.Tracker.step st op).1 (Spec.Tracker.step S op).1 ∧
  RetSim (Go.Tracker.step st op).2 (Spec.Tracker.step S op).2

theorem Abs.has_nicks {st : St} {S : S} (ab : Abs st S) (a : Bytes) : AL.has S.nicks a = AL.has st.nicks a := by
  rw [has_eq, has_eq, ab.nicks]; cases AL.lookup st.nicks a <;> rfl
theorem Abs.has_chans {st : St} {S : S} (ab : Abs st S) (a : Bytes) : AL.has S.chans a = AL.has st.chans a := by
  rw [has_eq, has_eq, ab.chans]; cases AL.lookup st.chans a <;> rfl

theorem sim_getNick {st : St} {S : S} (r : R st S) (n : Bytes) : Sim st S (.getNick n) := by
  unfold Sim
  simp only [Go.Tracker.step, Spec.Tracker.step, r.2.has_nicks, has_eq]
  cases h : AL.lookup st.nicks n with
  | none => exact ⟨r, trivial⟩
  | some i => exact ⟨r, nickSnap_sim r h⟩

theorem sim_getChannel {st : St} {S : S} (r : R st S) (n : Bytes) : Sim st S (.getChannel n) := by
  unfold Sim
  simp only [Go.Tracker.step, Spec.Tracker.step, r.2.has_chans, has_eq]
  cases h : AL.lookup st.chans n with
  | none => exact ⟨r, trivial⟩
  | some i => exact ⟨r, chanSnap_sim r h⟩

theorem sim_me {st : St} {S : S} (r : R st S) : Sim st S .me := by
  unfold Sim
  simp only [Go.Tracker.step, Spec.Tracker.step]
  exact ⟨r, nickSnap_sim r r.2.me⟩

theorem sim_isOn {st : St} {S : S} (r : R st S) (c n : Bytes) : Sim st S (.isOn c n) := by
  unfold Sim
  simp only [Go.Tracker.step, Spec.Tracker.step, r.2.has_chans, r.2.has_nicks, has_eq, r.2.mem]
  cases h : AL.lookup st.nicks n <;> cases h2 : AL.lookup st.chans c <;> simp [RetSim, r]
  rename_i ni ci
  cases h3 : AL.lookup (getN st ni).chans ci <;> simp [RetSim, r]

end Spec.Tracker

namespace Spec.Tracker
open Go.Tracker AL

/-- changing attributes of a live nick -/
theorem R_nickAttr {st : St} {S : S} (r : R st S) {a : Bytes} {i : Id} (h : AL.lookup st.nicks a = some i)
    (o' : NickObj) (hnick : o'.nick = (getN st i).nick) (hchans : o'.chans = (getN st i).chans) :
    R (setN st i o') { S with nicks := AL.insert S.nicks a (absN o') } := by
  obtain ⟨w, ab⟩ := r
  have sk : SameSkel st (setN st i o') := by
    constructor <;> try (intros; rfl)
    · intro j; rw [getN_setN]; split
      · subst_vars; exact hnick
      · rfl
    · intro j; rw [getN_setN]; split
      · subst_vars; exact hchans
      · rfl
  refine ⟨w.of_sameSkel sk, ?_⟩
  constructor
  · intro b
    simp only [lookup_insert, setN_nicks, getN_setN]
    split
    · subst_vars; simp [h]
    · rename_i hne
      rw [ab.nicks]
      cases hb : AL.lookup st.nicks b with
      | none => rfl
      | some j =>
        have : i ≠ j := by intro hij; subst hij; exact hne (w.nick_inj h hb)
        simp [this]
  · exact ab.chans
  · intro cn b
    simp only [setN_nicks, setN_chans, sk.nchans, getP_setN]
    exact ab.mem cn b
  · exact ab.mem_nodup
  · exact ab.me
  · exact ab.chan_keys

/-- changing attributes of a live channel -/
theorem R_chanAttr {st : St} {S : S} (r : R st S) {a : Bytes} {c : Id} (h : AL.lookup st.chans a = some c)
    (o' : ChanObj) (hname : o'.name = (getC st c).name) (hnicks : o'.nicks = (getC st c).nicks)
    (hlookup : o'.lookup = (getC st c).lookup) :
    R (setC st c o') { S with chans := AL.insert S.chans a (absC o') } := by
  obtain ⟨w, ab⟩ := r
  have sk : SameSkel st (setC st c o') := by
    constructor <;> try (intros; rfl)
    · intro j; rw [getC_setC]; split
      · subst_vars; exact hname
      · rfl
    · intro j; rw [getC_setC]; split
      · subst_vars; exact hnicks
      · rfl
    · intro j; rw [getC_setC]; split
      · subst_vars; exact hlookup
      · rfl
  refine ⟨w.of_sameSkel sk, ?_⟩
  constructor
  · exact ab.nicks
  · intro b
    simp only [lookup_insert, setC_chans, getC_setC]
    split
    · subst_vars; simp [h]
    · rename_i hne
      rw [ab.chans]
      cases hb : AL.lookup st.chans b with
      | none => rfl
      | some j =>
        have : c ≠ j := by intro hij; subst hij; exact hne (w.chan_inj h hb)
        simp [this]
  · intro cn b
    exact ab.mem cn b
  · exact ab.mem_nodup
  · exact ab.me
  · have : a ∈ AL.keys S.chans := by
      rw [← has_iff_mem_keys, ab.has_chans, has_eq, h]; rfl
    simp only [keys_insert, this, if_true]
    exact ab.chan_keys

/-- changing the privileges of a membership -/
theorem R_setP {st : St} {S : S} (r : R st S) {cn a : Bytes} {c i cell : Id}
    (hc : AL.lookup st.chans cn = some c) (hi : AL.lookup st.nicks a = some i)
    (hcell : AL.lookup (getN st i).chans c = some cell) (p : ChanPrivs) :
    R (setP st cell p) { S with mem := AL.insert S.mem (cn, a) p } := by
  obtain ⟨w, ab⟩ := r
  have sk : SameSkel st (setP st cell p) := by constructor <;> intros <;> rfl
  refine ⟨w.of_sameSkel sk, ?_⟩
  constructor
  · exact ab.nicks
  · exact ab.chans
  · intro dn b
    simp only [lookup_insert, setP_nicks, setP_chans, getN_setP, Prod.mk.injEq]
    split
    · rename_i heq; obtain ⟨h1, h2⟩ := heq; subst h1 h2
      simp [hc, hi, hcell]
    · rename_i hne
      rw [ab.mem]
      cases hd : AL.lookup st.chans dn with
      | none => rfl
      | some d =>
        cases hb : AL.lookup st.nicks b with
        | none => rfl
        | some j =>
          cases hx : AL.lookup (getN st j).chans d with
          | none => simp [hx]
          | some cell' =>
            have : cell ≠ cell' := by
              intro heq; subst heq
              obtain ⟨h1, h2⟩ := w.cell_inj i (w.liveN hi) j (w.liveN hb) c d cell hcell hx
              subst h1 h2
              exact hne ⟨w.chan_inj hc hd, w.nick_inj hi hb⟩
            simp [this, hx]
  · exact nodup_insert ab.mem_nodup _ _
  · exact ab.me
  · exact ab.chan_keys

end Spec.Tracker

namespace Spec.Tracker
open Go.Tracker AL

theorem sim_nickInfo {st : St} {S : S} (r : R st S) (n ident host name : Bytes) :
    Sim st S (.nickInfo n ident host name) := by
  unfold Sim
  simp only [Go.Tracker.step, Spec.Tracker.step]
  have hS := r.2.nicks n
  cases h : AL.lookup st.nicks n with
  | none => rw [h] at hS; simp only [hS, Option.map_none]; exact ⟨r, trivial⟩
  | some i =>
    rw [h] at hS; simp only [hS, Option.map_some]
    have r' := R_nickAttr r h { getN st i with ident := ident, host := host, name := name } rfl rfl
    exact ⟨r', nickSnap_sim r' h⟩

theorem sim_nickModes {st : St} {S : S} (r : R st S) (n modes : Bytes) :
    Sim st S (.nickModes n modes) := by
  unfold Sim
  simp only [Go.Tracker.step, Spec.Tracker.step]
  have hS := r.2.nicks n
  cases h : AL.lookup st.nicks n with
  | none => rw [h] at hS; simp only [hS, Option.map_none]; exact ⟨r, trivial⟩
  | some i =>
    rw [h] at hS; simp only [hS, Option.map_some]
    have r' := R_nickAttr r h { getN st i with modes := nickParseModes (getN st i).modes false modes } rfl rfl
    exact ⟨r', nickSnap_sim r' h⟩

theorem sim_topic {st : St} {S : S} (r : R st S) (c t : Bytes) :
    Sim st S (.topic c t) := by
  unfold Sim
  simp only [Go.Tracker.step, Spec.Tracker.step]
  have hS := r.2.chans c
  cases h : AL.lookup st.chans c with
  | none => rw [h] at hS; simp only [hS, Option.map_none]; exact ⟨r, trivial⟩
  | some i =>
    rw [h] at hS; simp only [hS, Option.map_some]
    have r' := R_chanAttr r h { getC st i with topic := t } rfl rfl rfl
    exact ⟨r', chanSnap_sim r' h⟩

end Spec.Tracker

namespace Spec.Tracker
open Go.Tracker AL

theorem R_newNick {st : St} {S : S} (r : R st S) (n : Bytes) (hn : AL.lookup st.nicks n = none) :
    R { setN st st.fresh { nick := n } with nicks := AL.insert st.nicks n st.fresh, fresh := st.fresh + 1 }
      { S with nicks := AL.insert S.nicks n {} } := by
  obtain ⟨w, ab⟩ := r
  generalize hs1 : ({ setN st st.fresh { nick := n } with nicks := AL.insert st.nicks n st.fresh, fresh := st.fresh + 1 } : St) = s1
  have e1 : ∀ a, AL.lookup s1.nicks a = if n = a then some st.fresh else AL.lookup st.nicks a := by
    intro a; subst hs1; exact lookup_insert _ _ _ _
  have e2 : s1.chans = st.chans := by subst hs1; rfl
  have e3 : s1.me = st.me := by subst hs1; rfl
  have e4 : s1.fresh = st.fresh + 1 := by subst hs1; rfl
  have e5 : ∀ j, getN s1 j = if st.fresh = j then { nick := n } else getN st j := by
    intro j; subst hs1; simp [setN]
  have e6 : ∀ j, getC s1 j = getC st j := by intro j; subst hs1; rfl
  have e7 : ∀ j, getP s1 j = getP st j := by intro j; subst hs1; rfl
  have lN : ∀ j, LiveN s1 j ↔ (j = st.fresh ∨ LiveN st j) := by
    intro j
    simp only [LiveN, e1, e5]
    have := w.fresh_nick
    grind
  have lC : ∀ j, LiveC s1 j ↔ LiveC st j := by
    intro j; simp only [LiveC, e2, e6]
  have lt : ∀ j, LiveN st j → j < st.fresh := fun j h => w.liveN_lt h
  have ltC : ∀ j, LiveC st j → j < st.fresh := fun j h => w.liveC_lt h
  clear hs1
  have lN' : ∀ j, LiveN st j → getN s1 j = getN st j := by
    intro j hj; rw [e5, if_neg]; have := lt j hj; idomega
  constructor
  · constructor
    · intro a i h
      rw [e1] at h; rw [e5]
      split at h
      · cases h; subst_vars; simp
      · have := w.fresh_nick a i h
        rw [if_neg (by idomega)]; exact w.nick_name a i h
    · simp only [e2, e6]; exact w.chan_name
    · simp only [lN, e3]; exact Or.inr w.me_live
    · intro i hi
      rcases (lN i).1 hi with h | h
      · subst h; simp [e5]
      · rw [lN' i h]; exact w.nk_nodup i h
    · simp only [lC, e6]; exact w.ch_nodup
    · intro i hi c cell hx
      rw [lC, e6]
      rcases (lN i).1 hi with h | h
      · subst h; simp [e5] at hx
      · rw [lN' i h] at hx; exact w.nk_ch i h c cell hx
    · intro c hc i cell hx
      rw [lC] at hc; rw [e6] at hx
      have := w.ch_nk c hc i cell hx
      rw [lN, lN' i this.1]
      exact ⟨Or.inr this.1, this.2⟩
    · intro c hc a i
      rw [lC] at hc; rw [e6]
      rw [w.ch_lookup c hc a i]
      constructor
      · rintro ⟨h1, h2⟩
        obtain ⟨cell, hcell⟩ := (has_true_iff _ _).1 h1
        rw [lN' i (w.ch_nk c hc i cell hcell).1]; exact ⟨h1, h2⟩
      · rintro ⟨h1, h2⟩
        obtain ⟨cell, hcell⟩ := (has_true_iff _ _).1 h1
        rw [lN' i (w.ch_nk c hc i cell hcell).1] at h2; exact ⟨h1, h2⟩
    · intro i hi j hj c d cell hx hy
      rcases (lN i).1 hi with h | h
      · subst h; simp [e5] at hx
      · rcases (lN j).1 hj with h' | h'
        · subst h'; simp [e5] at hy
        · rw [lN' i h] at hx; rw [lN' j h'] at hy
          exact w.cell_inj i h j h' c d cell hx hy
    · intro a i h
      rw [e1] at h; rw [e4]
      split at h
      · cases h; idomega
      · have := w.fresh_nick a i h; idomega
    · intro a c h
      rw [e2] at h; rw [e4]
      have := w.fresh_chan a c h; idomega
    · intro i hi c cell hx
      rw [e4]
      rcases (lN i).1 hi with h | h
      · subst h; simp [e5] at hx
      · rw [lN' i h] at hx
        have := w.fresh_cell i h c cell hx; idomega
  · constructor
    · intro a
      rw [lookup_insert, e1]
      split
      · simp [e5, absN]
      · rw [ab.nicks]
        cases h : AL.lookup st.nicks a with
        | none => rfl
        | some j => simp only [Option.map_some]; rw [lN' j (w.liveN h)]
    · simp only [e2, e6]; exact ab.chans
    · intro cn a
      rw [ab.mem, e1, e2]
      split
      · subst_vars; simp [hn, e5]
      · cases h : AL.lookup st.nicks a with
        | none => rfl
        | some j =>
          simp only [Option.bind_some, lN' j (w.liveN h)]
          congr 1; funext c; congr 1; funext x; exact (e7 x).symm
    · exact ab.mem_nodup
    · rw [e1, e3, if_neg]
      · exact ab.me
      · intro h; rw [h, ab.me] at hn; cases hn
    · simp only [e2]; exact ab.chan_keys

theorem R_newChannel {st : St} {S : S} (r : R st S) (n : Bytes) (hn : AL.lookup st.chans n = none) :
    R { setC st st.fresh { name := n } with chans := AL.insert st.chans n st.fresh, fresh := st.fresh + 1 }
      { S with chans := AL.insert S.chans n {} } := by
  obtain ⟨w, ab⟩ := r
  generalize hs1 : ({ setC st st.fresh { name := n } with chans := AL.insert st.chans n st.fresh, fresh := st.fresh + 1 } : St) = s1
  have e1 : ∀ a, AL.lookup s1.chans a = if n = a then some st.fresh else AL.lookup st.chans a := by
    intro a; subst hs1; exact lookup_insert _ _ _ _
  have e2 : s1.nicks = st.nicks := by subst hs1; rfl
  have e8 : s1.chans = AL.insert st.chans n st.fresh := by subst hs1; rfl
  have e3 : s1.me = st.me := by subst hs1; rfl
  have e4 : s1.fresh = st.fresh + 1 := by subst hs1; rfl
  have e5 : ∀ j, getC s1 j = if st.fresh = j then { name := n } else getC st j := by
    intro j; subst hs1; simp [setC]
  have e6 : ∀ j, getN s1 j = getN st j := by intro j; subst hs1; rfl
  have e7 : ∀ j, getP s1 j = getP st j := by intro j; subst hs1; rfl
  have lC : ∀ j, LiveC s1 j ↔ (j = st.fresh ∨ LiveC st j) := by
    intro j
    simp only [LiveC, e1, e5]
    have := w.fresh_chan
    grind
  have lN : ∀ j, LiveN s1 j ↔ LiveN st j := by
    intro j; simp only [LiveN, e2, e6]
  have ltC : ∀ j, LiveC st j → j < st.fresh := fun j h => w.liveC_lt h
  clear hs1
  have lC' : ∀ j, LiveC st j → getC s1 j = getC st j := by
    intro j hj; rw [e5, if_neg]; have := ltC j hj; idomega
  constructor
  · constructor
    · simp only [e2, e6]; exact w.nick_name
    · intro a i h
      rw [e1] at h; rw [e5]
      split at h
      · cases h; subst_vars; simp
      · have := w.fresh_chan a i h
        rw [if_neg (by idomega)]; exact w.chan_name a i h
    · simp only [lN, e3]; exact w.me_live
    · simp only [lN, e6]; exact w.nk_nodup
    · intro i hi
      rcases (lC i).1 hi with h | h
      · subst h; simp [e5]
      · rw [lC' i h]; exact w.ch_nodup i h
    · intro i hi c cell hx
      rw [lN] at hi; rw [e6] at hx
      have := w.nk_ch i hi c cell hx
      rw [lC, lC' c this.1]
      exact ⟨Or.inr this.1, this.2⟩
    · intro c hc i cell hx
      rw [lN, e6]
      rcases (lC c).1 hc with h | h
      · subst h; simp [e5] at hx
      · rw [lC' c h] at hx; exact w.ch_nk c h i cell hx
    · intro c hc a i
      rw [e6]
      rcases (lC c).1 hc with h | h
      · subst h; simp [e5, has_eq]
      · rw [lC' c h]; exact w.ch_lookup c h a i
    · simp only [lN, e6]; exact w.cell_inj
    · intro a c h
      rw [e2] at h; rw [e4]
      have := w.fresh_nick a c h; idomega
    · intro a i h
      rw [e1] at h; rw [e4]
      split at h
      · cases h; idomega
      · have := w.fresh_chan a i h; idomega
    · intro i hi c cell hx
      rw [e4]; rw [lN] at hi; rw [e6] at hx
      have := w.fresh_cell i hi c cell hx; idomega
  · constructor
    · simp only [e2, e6]; exact ab.nicks
    · intro a
      rw [lookup_insert, e1]
      split
      · simp [e5, absC]
      · rw [ab.chans]
        cases h : AL.lookup st.chans a with
        | none => rfl
        | some j => simp only [Option.map_some]; rw [lC' j (w.liveC h)]
    · intro cn a
      rw [ab.mem, e1, e2]
      split
      · subst_vars
        simp only [hn, Option.bind_none, Option.bind_some]
        cases h : AL.lookup st.nicks a with
        | none => rfl
        | some j =>
          simp only [Option.bind_some, e6]
          cases hx : AL.lookup (getN st j).chans st.fresh with
          | none => rfl
          | some cell =>
            have := ltC _ (w.nk_ch j (w.liveN h) _ _ hx).1
            idomega
      · cases h1 : AL.lookup st.chans cn with
        | none => rfl
        | some c =>
          simp only [Option.bind_some, e6]
          congr 1; funext i; congr 1; funext x; exact (e7 x).symm
    · exact ab.mem_nodup
    · rw [e2, e3]; exact ab.me
    · have h1 : n ∉ AL.keys st.chans := (lookup_eq_none_iff _ _).1 hn
      have h2 : n ∉ AL.keys S.chans := by rw [ab.chan_keys]; exact h1
      simp only [keys_insert, h2, if_false, e8, h1, ab.chan_keys]

end Spec.Tracker

namespace Spec.Tracker
open Go.Tracker AL

theorem sim_newNick {st : St} {S : S} (r : R st S) (n : Bytes) : Sim st S (.newNick n) := by
  unfold Sim
  simp only [Go.Tracker.step, Spec.Tracker.step, r.2.has_nicks]
  cases he : n.isEmpty
  · cases hh : AL.has st.nicks n
    · simp only [Bool.false_eq_true, if_false, Bool.or_self]
      have r' := R_newNick r n ((has_false_iff _ _).1 hh)
      refine ⟨r', nickSnap_sim r' ?_⟩
      exact (lookup_insert _ _ _ _).trans (if_pos rfl)
    · simp only [Bool.false_eq_true, if_false, if_true, Bool.or_true]
      exact ⟨r, trivial⟩
  · simp only [if_true, Bool.true_or]
    exact ⟨r, trivial⟩

theorem sim_newChannel {st : St} {S : S} (r : R st S) (n : Bytes) : Sim st S (.newChannel n) := by
  unfold Sim
  simp only [Go.Tracker.step, Spec.Tracker.step, r.2.has_chans]
  cases he : n.isEmpty
  · cases hh : AL.has st.chans n
    · simp only [Bool.false_eq_true, if_false, Bool.or_self]
      have r' := R_newChannel r n ((has_false_iff _ _).1 hh)
      refine ⟨r', chanSnap_sim r' ?_⟩
      exact (lookup_insert _ _ _ _).trans (if_pos rfl)
    · simp only [Bool.false_eq_true, if_false, if_true, Bool.or_true]
      exact ⟨r, trivial⟩
  · simp only [if_true, Bool.true_or]
    exact ⟨r, trivial⟩

end Spec.Tracker
