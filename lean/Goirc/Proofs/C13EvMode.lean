import Goirc.Proofs.C13Ops
import Goirc.Proofs.C13Parse
import Goirc.Proofs.C13Inv
import Goirc.Proofs.C13Decimal
/-!
# C13: a channel MODE change brings the relational state to the new view
-/
namespace Proofs.C13
open Go Go.Client Go.Tracker Spec.Tracker Spec.Net

/-! ## the rendered change list, read back by `parseModes` -/

/-- the sign of a change -/
def chgAdd : ModeChange → Bool
  | .flag a _ => a | .key a _ => a | .limit a _ => a | .priv a _ _ => a | .ban a _ => a

/-- the letter of a change -/
def chgLetter : ModeChange → UInt8
  | .flag _ l => l | .key _ _ => 107 | .limit _ _ => 108 | .priv _ l _ => l | .ban _ _ => 98

theorem changeLetters_cons (chg : ModeChange) (rest : List ModeChange) (cur : Option Bool) :
    changeLetters (chg :: rest) cur =
      (if cur == some (chgAdd chg) then [] else [if chgAdd chg then 43 else 45]) ++ [chgLetter chg] ++
        changeLetters rest (some (chgAdd chg)) := by
  cases chg <;> rfl

/-- the sign byte (if any) sets the current operation -/
theorem parseModes_sign (A : TS) (c : Bytes) (op add : Bool) (cur : Option Bool) (hcur : cur = none ∨ cur = some op)
    (l : UInt8) (tl : Bytes) (args : List Bytes) :
    parseModes A c op ((if cur == some add then [] else [if add then 43 else 45]) ++ [l] ++ tl) args =
      parseModes A c add (l :: tl) args := by
  rcases hcur with rfl | rfl
  · cases add <;> simp [parseModes]
  · cases op <;> cases add <;> simp [parseModes]

theorem flag_cases (l : UInt8) (h : isFlag l = true) :
    l = 105 ∨ l = 109 ∨ l = 110 ∨ l = 112 ∨ l = 114 ∨ l = 115 ∨ l = 116 ∨ l = 122 ∨ l = 90 ∨ l = 79 := by
  simpa [isFlag] using h

theorem priv_cases (l : UInt8) (h : isPriv l = true) : l = 113 ∨ l = 97 ∨ l = 111 ∨ l = 104 ∨ l = 118 := by
  simpa [isPriv] using h

/-- one rendered change is read back as the view's rule for it -/
theorem parseModes_change (n : Net) (A : TS) (c : Bytes) (chg : ModeChange) (tl : Bytes) (rest : List ModeChange)
    (hok : changeOk n c chg = true) (hch : AL.has A.chans c = true)
    (hmem : ∀ u, onChan n u c = true → AL.has A.mem (c, u) = true) :
    parseModes A c (chgAdd chg) (chgLetter chg :: tl) (changeArgs (chg :: rest)) =
      parseModes (viewApplyChange A c chg) c (chgAdd chg) tl (changeArgs rest) := by
  obtain ⟨r, hr⟩ := (AL.has_true_iff _ _).mp hch
  cases chg with
  | flag a l =>
    simp only [changeOk] at hok
    rcases flag_cases l hok with rfl | rfl | rfl | rfl | rfl | rfl | rfl | rfl | rfl | rfl <;>
      simp [parseModes, chgAdd, chgLetter, changeArgs, viewApplyChange, applyFlag, applyChanFlag, hr]
  | key a k =>
    cases a <;> simp [parseModes, chgAdd, chgLetter, changeArgs, viewApplyChange, applyChanFlag, hr]
  | limit a k =>
    cases a
    · simp [parseModes, chgAdd, chgLetter, changeArgs, viewApplyChange, applyChanFlag, hr]
    · simp only [changeOk, Bool.and_eq_true, decide_eq_true_eq] at hok
      simp [parseModes, chgAdd, chgLetter, changeArgs, viewApplyChange, applyChanFlag, hr, atoi_natBytes k hok.1]
  | priv a l u =>
    simp only [changeOk, Bool.and_eq_true] at hok
    obtain ⟨p, hp⟩ := (AL.has_true_iff _ _).mp (hmem u hok.2)
    rcases priv_cases l hok.1 with rfl | rfl | rfl | rfl | rfl <;>
      simp [parseModes, chgAdd, chgLetter, changeArgs, viewApplyChange, applyChanFlag, isPrivChar, hp]
  | ban a m =>
    simp [parseModes, chgAdd, chgLetter, changeArgs, viewApplyChange, applyChanFlag, isPrivChar]

theorem viewApplyChange_has_chans (A : TS) (c : Bytes) (chg : ModeChange) (k : Bytes) :
    AL.has (viewApplyChange A c chg).chans k = AL.has A.chans k := by
  cases chg <;> simp only [viewApplyChange] <;> (try split) <;> simp_all [AL.has_eq, AL.lookup_insert] <;>
    (split <;> simp_all)

theorem viewApplyChange_has_mem (A : TS) (c : Bytes) (chg : ModeChange) (k : Bytes × Bytes) :
    AL.has (viewApplyChange A c chg).mem k = AL.has A.mem k := by
  cases chg <;> simp only [viewApplyChange] <;> (try split) <;> simp_all [AL.has_eq, AL.lookup_insert] <;>
    (split <;> simp_all)

/-- the rendered change list is read back as the fold of the view's rules -/
theorem parseModes_changes (n : Net) (c : Bytes) (chs : List ModeChange) :
    ∀ (A : TS) (op : Bool) (cur : Option Bool), (cur = none ∨ cur = some op) →
      chs.all (changeOk n c) = true → AL.has A.chans c = true →
      (∀ u, onChan n u c = true → AL.has A.mem (c, u) = true) →
      parseModes A c op (changeLetters chs cur) (changeArgs chs) = chs.foldl (fun v chg => viewApplyChange v c chg) A := by
  induction chs with
  | nil => intro A op cur _ _ _ _; simp [changeLetters, parseModes]
  | cons chg rest ih =>
    intro A op cur hcur hok hch hmem
    simp only [List.all_cons, Bool.and_eq_true] at hok
    rw [changeLetters_cons, parseModes_sign A c op (chgAdd chg) cur hcur,
      parseModes_change n A c chg _ rest hok.1 hch hmem, List.foldl_cons]
    apply ih _ _ _ (Or.inr rfl) hok.2
    · rw [viewApplyChange_has_chans]; exact hch
    · intro u hu; rw [viewApplyChange_has_mem]; exact hmem u hu

/-! ## the line parses -/

theorem changeLetters_printable (n : Net) (c : Bytes) (chs : List ModeChange) :
    ∀ cur, chs.all (changeOk n c) = true → ∀ b ∈ changeLetters chs cur, 32 < b ∧ b < 127 := by
  induction chs with
  | nil => intro cur _ b hb; simp [changeLetters] at hb
  | cons chg rest ih =>
    intro cur hok b hb
    simp only [List.all_cons, Bool.and_eq_true] at hok
    rw [changeLetters_cons] at hb
    simp only [List.append_assoc, List.mem_append, List.mem_cons, List.not_mem_nil, or_false] at hb
    rcases hb with hb | hb | hb
    · split at hb
      · simp at hb
      · simp only [List.mem_cons, List.not_mem_nil, or_false] at hb
        subst hb; split <;> decide
    · subst hb
      cases chg with
      | flag a l =>
        rcases flag_cases l hok.1 with rfl | rfl | rfl | rfl | rfl | rfl | rfl | rfl | rfl | rfl <;> (simp only [chgLetter]; decide)
      | key a k => simp only [chgLetter]; decide
      | limit a k => simp only [chgLetter]; decide
      | priv a l u =>
        simp only [changeOk, Bool.and_eq_true] at hok
        rcases priv_cases l hok.1.1 with rfl | rfl | rfl | rfl | rfl <;> (simp only [chgLetter]; decide)
      | ban a m => simp only [chgLetter]; decide
    · exact ih _ hok.2 b hb

theorem changeLetters_midOk (n : Net) (c : Bytes) (chs : List ModeChange) (hne : chs ≠ [])
    (hok : chs.all (changeOk n c) = true) : midOk (changeLetters chs none) = true := by
  have hp := changeLetters_printable n c chs none hok
  cases chs with
  | nil => exact absurd rfl hne
  | cons chg rest =>
    rw [changeLetters_cons] at hp ⊢
    simp only [midOk, Bool.and_eq_true, List.all_eq_true, decide_eq_true_eq]
    refine ⟨⟨?_, ?_⟩, hp⟩
    · simp
    · cases chgAdd chg <;> simp

theorem changeArgs_midOk (n : Net) (hi : NetInv n) (c : Bytes) (chs : List ModeChange)
    (hok : chs.all (changeOk n c) = true) : ∀ a ∈ changeArgs chs, midOk a = true := by
  induction chs with
  | nil => intro a ha; simp [changeArgs] at ha
  | cons chg rest ih =>
    simp only [List.all_cons, Bool.and_eq_true] at hok
    have ih := ih hok.2
    intro a ha
    cases chg with
    | flag a' l => exact ih a (by simpa [changeArgs] using ha)
    | key a' k =>
      cases a'
      · exact ih a (by simpa [changeArgs] using ha)
      · simp only [changeArgs, List.mem_cons] at ha
        rcases ha with rfl | ha
        · exact midOk_of_nameOk _ (by simpa [changeOk] using hok.1)
        · exact ih a ha
    | limit a' k =>
      cases a'
      · exact ih a (by simpa [changeArgs] using ha)
      · simp only [changeArgs, List.mem_cons] at ha
        rcases ha with rfl | ha
        · exact natBytes_midOk k
        · exact ih a ha
    | priv a' l u =>
      simp only [changeArgs, List.mem_cons] at ha
      rcases ha with rfl | ha
      · have h1 := hok.1
        simp only [changeOk, Bool.and_eq_true] at h1
        have hon := h1.2
        simp only [onChan] at hon
        cases hl : AL.lookup n.chans c with
        | none => simp [hl] at hon
        | some ch =>
          rw [hl] at hon
          have hu := (hi.chan_inv c ch hl).members_users a hon
          obtain ⟨x, hx⟩ := (AL.has_true_iff _ _).mp hu
          have := (hi.users_ok a x hx).1
          simp only [nickOk, Bool.and_eq_true] at this
          exact midOk_of_nameOk _ this.1
      · exact ih a ha
    | ban a' m =>
      simp only [changeArgs, List.mem_cons] at ha
      rcases ha with rfl | ha
      · exact midOk_of_nameOk _ (by simpa [changeOk] using hok.1)
      · exact ih a ha

/-- feeding one MODE line -/
theorem tFeed_MODE (ext : UnicodeExt) (nn : Bytes → Bytes) (S : TS) (raw nick ident host c letters : Bytes) (args : List Bytes)
    (hp : ParsesTo ext raw nick ident host (lit "MODE") (c :: letters :: args)) (hc : AL.has S.chans c = true) :
    tFeed ext nn S [raw] = parseModes S c false letters args := by
  obtain ⟨L, hL, _, _, _, hcmd, hargs⟩ := hp
  have h1 : (lit "mode" == lit "001") = false := by decide
  have h2 : (lit "mode" == lit "433") = false := by decide
  have h3 : stTwin (lit "mode") = some t_MODE := by rfl
  simp only [tFeed, hL, tDispatch, hcmd, (toLower_verbs ext).2.2.2.2.2.2.1, h1, h2, h3, Bool.false_eq_true, ↓reduceIte]
  simp [t_MODE, arg, hargs, hc, sx, Spec.Tracker.step]

theorem ev_mode (ext : UnicodeExt) (nn : Bytes → Bytes) (n : Net) (u c : Bytes) (chs : List ModeChange) (hi : NetInv n)
    (hc : conforms n (.mode u c chs) = true) :
    Eqv (tFeed ext nn n.view (serverStep n (.mode u c chs)).2) (serverStep n (.mode u c chs)).1.view := by
  simp only [conforms, Bool.and_eq_true, Bool.not_eq_true', List.isEmpty_eq_false_iff] at hc
  obtain ⟨⟨⟨hon, hne⟩, hok⟩, _⟩ := hc
  simp only [serverStep]
  cases hl : AL.lookup n.chans c with
  | none => simp [onChan, hl] at hon
  | some ch =>
    simp only []
    by_cases hme : onChan n n.me c = true
    · simp only [hme, ↓reduceIte, setChan]
      have hu : AL.has ch.members u = true := by simpa [onChan, hl] using hon
      obtain ⟨x, hx⟩ := (AL.has_true_iff _ _).mp ((hi.chan_inv c ch hl).members_users u hu)
      obtain ⟨hnu, hxi, hxh, _⟩ := hi.users_ok u x hx
      simp only [nickOk, Bool.and_eq_true] at hnu
      have hcn : nameOk c = true := by
        have := (hi.chan_inv c ch hl).name
        simp only [chanOk, Bool.and_eq_true] at this
        exact this.2
      have hp := parse_MODE ext u x.ident x.host hnu.1 hxi hxh c (changeLetters chs none) (changeArgs chs) hcn
        (changeLetters_midOk n c chs hne hok) (changeArgs_midOk n hi c chs hok)
      have hvc : AL.has n.view.chans c = true := by rw [hi.view_chans]; exact hme
      have hum : userMask n u = u ++ [33] ++ x.ident ++ [64] ++ x.host := by simp [userMask, hx]
      rw [hum, tFeed_MODE ext nn n.view _ _ _ _ _ _ _ hp hvc,
        parseModes_changes n c chs n.view false none (Or.inl rfl) hok hvc
          (fun v hv => by rw [hi.view_mem, hme, hv]; rfl)]
      exact Eqv.refl _
    · simp only [hme, Bool.false_eq_true, ↓reduceIte, setChan, tFeed]
      exact Eqv.refl _

end Proofs.C13
