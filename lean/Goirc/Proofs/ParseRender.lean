import Goirc.Proofs.Line
/-!
# Helper lemmas for the C01 round-trip theorem `parse_render`

Each section handles one stage of `parseLine` run on `render m`.
-/
namespace Go
open Spec.Irc

/-! ## searching -/

theorem indexByteFrom_append (c : UInt8) (a b : Bytes) (i : Nat) (h : c ∉ a) :
    indexByteFrom c (a ++ c :: b) i = some (i + a.length) := by
  induction a generalizing i with
  | nil => simp [indexByteFrom]
  | cons x a ih =>
    have hx : x ≠ c := fun e => h (by simp [e])
    have ha : c ∉ a := fun e => h (by simp [e])
    simp only [List.cons_append, indexByteFrom, beq_iff_eq, hx, if_false, ih (i + 1) ha, List.length_cons]
    congr 1; omega

theorem indexByte_append (c : UInt8) (a b : Bytes) (h : c ∉ a) :
    indexByte (a ++ c :: b) c = some a.length := by
  simp [indexByte, indexByteFrom_append c a b 0 h]

theorem indexByteFrom_some (c : UInt8) (s : Bytes) (i j : Nat) (h : indexByteFrom c s i = some j) :
    i ≤ j ∧ c ∉ s.take (j - i) ∧ s = s.take (j - i) ++ c :: s.drop (j - i + 1) := by
  induction s generalizing i with
  | nil => simp [indexByteFrom] at h
  | cons x s ih =>
    simp only [indexByteFrom] at h
    split at h
    · rename_i hx
      simp only [beq_iff_eq] at hx
      simp only [Option.some.injEq] at h
      subst h; subst hx; simp
    · rename_i hx
      simp only [beq_iff_eq] at hx
      obtain ⟨h1, h2, h3⟩ := ih (i + 1) h
      have e : j - i = (j - (i + 1)) + 1 := by omega
      refine ⟨by omega, ?_, ?_⟩
      · rw [e, List.take_succ_cons]
        simp only [List.mem_cons, not_or]
        exact ⟨fun e => hx e.symm, h2⟩
      · rw [e, List.take_succ_cons, List.drop_succ_cons, List.cons_append, ← h3]

theorem indexByte_some (c : UInt8) (s : Bytes) (j : Nat) (h : indexByte s c = some j) :
    c ∉ s.take j ∧ s = s.take j ++ c :: s.drop (j + 1) := by
  have := indexByteFrom_some c s 0 j h
  simpa using this.2

theorem indexFrom1_append (c : UInt8) (a b : Bytes) (i : Nat) (h : c ∉ a) :
    indexFrom [c] (a ++ c :: b) i = some (i + a.length) := by
  induction a generalizing i with
  | nil => simp [indexFrom, hasPrefix]
  | cons x a ih =>
    have hx : x ≠ c := fun e => h (by simp [e])
    have ha : c ∉ a := fun e => h (by simp [e])
    simp only [List.cons_append, indexFrom, hasPrefix, ih (i + 1) ha, List.length_cons]
    simp [hx]; omega

theorem indexFrom1_none (c : UInt8) (a : Bytes) (i : Nat) (h : c ∉ a) :
    indexFrom [c] a i = none := by
  induction a generalizing i with
  | nil => simp [indexFrom]
  | cons x a ih =>
    have hx : x ≠ c := fun e => h (by simp [e])
    have ha : c ∉ a := fun e => h (by simp [e])
    simp [indexFrom, hasPrefix, hx, ih (i + 1) ha]

theorem cut1_append (c : UInt8) (a b : Bytes) (h : c ∉ a) :
    cut (a ++ c :: b) [c] = (a, some b) := by
  simp [cut, index, indexFrom1_append c a b 0 h]

theorem cut1_none (c : UInt8) (a : Bytes) (h : c ∉ a) :
    cut a [c] = (a, none) := by
  simp [cut, index, indexFrom1_none c a 0 h]

/-- no occurrence of `" :"` in `s` (a final space is fine) -/
def noSC : Bytes → Bool
  | [] => true
  | x :: rest => !(x == 32 && rest.head? == some 58) && noSC rest

theorem indexFrom_sc_append (a t : Bytes) (i : Nat) (h : noSC a = true) :
    indexFrom [32, 58] (a ++ 32 :: 58 :: t) i = some (i + a.length) := by
  induction a generalizing i with
  | nil => simp [indexFrom, hasPrefix]
  | cons x a ih =>
    simp only [noSC, Bool.and_eq_true, Bool.not_eq_true'] at h
    obtain ⟨h1, h2⟩ := h
    have hp : hasPrefix (x :: (a ++ 32 :: 58 :: t)) [32, 58] = false := by
      cases a with
      | nil =>
        simp only [List.nil_append, hasPrefix]
        simp
      | cons y a' =>
        simp only [List.cons_append, hasPrefix]
        simpa using h1
    simp only [List.cons_append, indexFrom, hp, ih (i + 1) h2, List.length_cons]
    simp; omega

theorem indexFrom_sc_none (a : Bytes) (i : Nat) (h : noSC a = true) :
    indexFrom [32, 58] a i = none := by
  induction a generalizing i with
  | nil => simp [indexFrom]
  | cons x a ih =>
    simp only [noSC, Bool.and_eq_true, Bool.not_eq_true'] at h
    obtain ⟨h1, h2⟩ := h
    have hp : hasPrefix (x :: a) [32, 58] = false := by
      cases a with
      | nil => simp [hasPrefix]
      | cons y a' =>
        simp only [hasPrefix]
        simpa using h1
    simp [indexFrom, hp, ih (i + 1) h2]

theorem cut_sc_append (a t : Bytes) (h : noSC a = true) :
    cut (a ++ 32 :: 58 :: t) [32, 58] = (a, some t) := by
  simp [cut, index, indexFrom_sc_append a t 0 h]

theorem cut_sc_none (a : Bytes) (h : noSC a = true) :
    cut a [32, 58] = (a, none) := by
  simp [cut, index, indexFrom_sc_none a 0 h]

theorem noSC_space (y : Bytes) (h : noSC y = true) (hh : y.head? ≠ some 58) : noSC (32 :: y) = true := by
  simp [noSC, h, hh]

theorem noSC_append_left (p y : Bytes) (hp : (32 : UInt8) ∉ p) (h : noSC y = true) : noSC (p ++ y) = true := by
  induction p with
  | nil => simpa using h
  | cons x p ih =>
    have hx : x ≠ 32 := fun e => hp (by simp [e])
    have hp' : (32 : UInt8) ∉ p := fun e => hp (by simp [e])
    simp [noSC, hx, ih hp']

theorem noSC_replicate (k : Nat) : noSC (List.replicate k 32) = true := by
  induction k with
  | zero => rfl
  | succ k ih =>
    rw [List.replicate_succ]
    apply noSC_space _ ih
    cases k <;> simp [List.replicate_succ]

/-! ## space runes -/

theorem spaceWidth_cons_append (x : UInt8) (a b : Bytes) (h : spaceWidth (x :: a) = 0)
    (hb : ∀ y, b.head? = some y → y < 128) : spaceWidth (x :: (a ++ b)) = 0 := by
  match a, b with
  | [], [] => simpa using h
  | [], [y] =>
    have := hb y rfl
    simp only [spaceWidth] at h ⊢
    simp only [List.nil_append]
    grind
  | [], y :: z :: _ =>
    have := hb y rfl
    simp only [spaceWidth] at h ⊢
    simp only [List.nil_append]
    grind
  | [c], [] => simpa using h
  | [c], y :: _ =>
    have := hb y rfl
    simp only [spaceWidth] at h ⊢
    simp only [List.cons_append, List.nil_append]
    grind
  | c :: d :: _, _ =>
    simp only [spaceWidth] at h ⊢
    simp only [List.cons_append]
    exact h

theorem noSpaceRune_cons (x : UInt8) (a : Bytes) :
    noSpaceRune (x :: a) = true ↔ spaceWidth (x :: a) = 0 ∧ noSpaceRune a = true := by
  simp [noSpaceRune]

theorem noSpaceRune_append (a b : Bytes) (ha : noSpaceRune a = true) (hb : noSpaceRune b = true)
    (hh : ∀ y, b.head? = some y → y < 128) : noSpaceRune (a ++ b) = true := by
  induction a with
  | nil => simpa using hb
  | cons x a ih =>
    rw [noSpaceRune_cons] at ha
    rw [List.cons_append, noSpaceRune_cons]
    exact ⟨spaceWidth_cons_append x a b ha.1 hh, ih ha.2⟩

theorem noSpaceRune_low (x : UInt8) (a : Bytes) (hx : x < 128) (hx2 : x ≠ 32) (hx3 : ¬ (9 ≤ x ∧ x ≤ 13))
    (ha : noSpaceRune a = true) : noSpaceRune (x :: a) = true := by
  rw [noSpaceRune_cons]
  refine ⟨?_, ha⟩
  simp only [spaceWidth]
  grind

theorem noSpaceRune_not_mem (a : Bytes) (ha : noSpaceRune a = true) : (32 : UInt8) ∉ a := by
  induction a with
  | nil => simp
  | cons x a ih =>
    rw [noSpaceRune_cons] at ha
    simp only [List.mem_cons, not_or]
    refine ⟨?_, ih ha.2⟩
    intro e; subst e
    have := ha.1
    simp [spaceWidth] at this

theorem noSpaceRune_drop (a : Bytes) (i : Nat) (ha : noSpaceRune a = true) : noSpaceRune (a.drop i) = true := by
  induction a generalizing i with
  | nil => simp [noSpaceRune]
  | cons x a ih =>
    cases i with
    | zero => simpa using ha
    | succ i =>
      rw [noSpaceRune_cons] at ha
      simpa using ih i ha.2

theorem spaceWidth_of_noSpaceRune (a : Bytes) (ha : noSpaceRune a = true) : spaceWidth a = 0 := by
  cases a with
  | nil => rfl
  | cons x a => exact ((noSpaceRune_cons x a).1 ha).1

theorem trimSpace_of_noSpaceRune (a : Bytes) (ha : noSpaceRune a = true) : trimSpace a = a := by
  have h0 : ∀ i, spaceWidth (a.drop i) = 0 := fun i => spaceWidth_of_noSpaceRune _ (noSpaceRune_drop a i ha)
  have hl : trimLeftSpace (a.length + 1) a = a := by
    simp [trimLeftSpace, spaceWidth_of_noSpaceRune a ha]
  have hr : trimRightSpace (a.length + 1) a = a := by
    simp [trimRightSpace, lastSpaceWidth, h0]
  simp only [trimSpace, hl, hr]

/-! ## `fields` -/

def emit (cur : Bytes) : List Bytes := if cur.isEmpty then [] else [cur.reverse]

theorem fieldsAux_nil (fuel : Nat) (cur : Bytes) : fieldsAux fuel [] cur = emit cur := by
  cases fuel <;> simp [fieldsAux, emit]

theorem fieldsAux_token (p rest : Bytes) (fuel : Nat) (cur : Bytes) (hp : noSpaceRune p = true)
    (hh : ∀ y, rest.head? = some y → y < 128) :
    fieldsAux (fuel + p.length) (p ++ rest) cur = fieldsAux fuel rest (p.reverse ++ cur) := by
  induction p generalizing cur with
  | nil => simp
  | cons x p ih =>
    rw [noSpaceRune_cons] at hp
    have h0 := spaceWidth_cons_append x p rest hp.1 hh
    simp only [List.length_cons, ← Nat.add_assoc, List.cons_append, fieldsAux, h0, beq_self_eq_true, if_true]
    rw [ih _ hp.2]
    simp

theorem fieldsAux_space (rest : Bytes) (fuel : Nat) (cur : Bytes) :
    fieldsAux (fuel + 1) (32 :: rest) cur = emit cur ++ fieldsAux fuel rest [] := by
  have h1 : spaceWidth (32 :: rest) = 1 := by simp [spaceWidth]
  simp only [fieldsAux, h1, emit]
  cases cur <;> simp

theorem fieldsAux_spaces (k : Nat) (rest : Bytes) (fuel : Nat) :
    fieldsAux (fuel + k) (List.replicate k 32 ++ rest) [] = fieldsAux fuel rest [] := by
  induction k with
  | zero => simp
  | succ k ih =>
    rw [List.replicate_succ, List.cons_append, ← Nat.add_assoc, fieldsAux_space, ih]
    simp [emit]

theorem renderMiddles_head (ms : List (Nat × Bytes)) (k : Nat) :
    ∀ y, (renderMiddles ms ++ List.replicate k 32).head? = some y → y < 128 := by
  intro y hy
  cases ms with
  | nil =>
    cases k with
    | zero => simp [renderMiddles] at hy
    | succ k =>
      simp [renderMiddles, List.replicate_succ] at hy
      subst hy; decide
  | cons m ms =>
    obtain ⟨j, p⟩ := m
    simp [renderMiddles, List.replicate_succ] at hy
    subst hy; decide

theorem fieldsAux_middles (ms : List (Nat × Bytes)) (k : Nat) (fuel : Nat) (cur : Bytes)
    (hms : ms.all (fun p => middleOk p.2) = true)
    (hf : (renderMiddles ms ++ List.replicate k 32).length < fuel) :
    fieldsAux fuel (renderMiddles ms ++ List.replicate k 32) cur = emit cur ++ ms.map (·.2) := by
  induction ms generalizing fuel cur with
  | nil =>
    simp only [renderMiddles, List.nil_append, List.map_nil, List.append_nil]
    cases k with
    | zero => simp [fieldsAux_nil]
    | succ k =>
      simp only [renderMiddles, List.nil_append, List.length_replicate] at hf
      obtain ⟨f, rfl⟩ : ∃ f, fuel = f + 1 + k := ⟨fuel - 1 - k, by omega⟩
      rw [List.replicate_succ, Nat.add_right_comm, fieldsAux_space]
      have := fieldsAux_spaces k [] f
      simp only [List.append_nil] at this
      rw [this, fieldsAux_nil]
      simp [emit]
  | cons m ms ih =>
    obtain ⟨j, p⟩ := m
    simp only [List.all_cons, Bool.and_eq_true] at hms
    obtain ⟨hp, hms⟩ := hms
    simp only [middleOk, Bool.and_eq_true] at hp
    obtain ⟨⟨hp1, hp2⟩, hp3⟩ := hp
    simp only [renderMiddles, List.append_assoc, List.length_append, List.length_replicate] at hf
    obtain ⟨f, rfl⟩ : ∃ f, fuel = f + p.length + j + 1 := ⟨fuel - p.length - j - 1, by omega⟩
    simp only [renderMiddles, List.append_assoc, List.replicate_succ, List.cons_append]
    rw [fieldsAux_space, fieldsAux_spaces, fieldsAux_token _ _ _ _ hp3 (renderMiddles_head ms k), ih]
    · have : p ≠ [] := by intro e; simp [e] at hp1
      simp [emit, this]
    · exact hms
    · simp only [List.length_append, List.length_replicate]; omega

theorem fields_verb_middles (verb : Bytes) (ms : List (Nat × Bytes)) (k : Nat)
    (hv : noSpaceRune verb = true) (hv2 : verb ≠ [])
    (hms : ms.all (fun p => middleOk p.2) = true) :
    fields (verb ++ (renderMiddles ms ++ List.replicate k 32)) = verb :: ms.map (·.2) := by
  unfold fields
  have : (verb ++ (renderMiddles ms ++ List.replicate k 32)).length + 1
      = ((renderMiddles ms ++ List.replicate k 32).length + 1) + verb.length := by
    simp only [List.length_append]; omega
  rw [this, fieldsAux_token _ _ _ _ hv (renderMiddles_head ms k), fieldsAux_middles _ _ _ _ hms (by omega)]
  simp [emit, hv2]

/-! ## verb and parameters -/

def alnum (x : UInt8) : Bool := isLetter x || isDigit x

theorem verbOk_alnum (v : Bytes) (h : verbOk v = true) : v ≠ [] ∧ v.all alnum = true := by
  simp only [verbOk, Bool.or_eq_true, Bool.and_eq_true, Bool.not_eq_true', List.isEmpty_eq_false_iff,
    beq_iff_eq] at h
  rcases h with ⟨h1, h2⟩ | ⟨h1, h2⟩
  · refine ⟨h1, ?_⟩
    simp only [List.all_eq_true] at h2 ⊢
    intro x hx; simp [alnum, h2 x hx]
  · refine ⟨by intro e; simp [e] at h1, ?_⟩
    simp only [List.all_eq_true] at h2 ⊢
    intro x hx; simp [alnum, h2 x hx]

theorem alnum_noSpaceRune (v : Bytes) (h : v.all alnum = true) : noSpaceRune v = true := by
  induction v with
  | nil => rfl
  | cons x v ih =>
    simp only [List.all_cons, Bool.and_eq_true] at h
    have hx := h.1
    simp only [alnum, isLetter, isDigit] at hx
    apply noSpaceRune_low _ _ _ _ _ (ih h.2) <;> grind

theorem alnum_isAscii (v : Bytes) (h : v.all alnum = true) : isAscii v = true := by
  simp only [isAscii, List.all_eq_true] at h ⊢
  intro x hx
  have := h x hx
  simp only [alnum, isLetter, isDigit] at this
  grind

theorem alnum_head (v : Bytes) (h : v.all alnum = true) (x : UInt8) (hx : v.head? = some x) :
    x ≠ 58 ∧ x ≠ 64 := by
  cases v with
  | nil => simp at hx
  | cons y v =>
    simp only [List.head?_cons, Option.some.injEq] at hx
    subst hx
    simp only [List.all_cons, Bool.and_eq_true] at h
    have := h.1
    simp only [alnum, isLetter, isDigit] at this
    grind

theorem noSC_spaces (j : Nat) (y : Bytes) (h : noSC y = true) (hh : y.head? ≠ some 58) :
    noSC (List.replicate (j + 1) 32 ++ y) = true := by
  induction j with
  | zero => simpa using noSC_space y h hh
  | succ j ih =>
    rw [List.replicate_succ, List.cons_append]
    apply noSC_space _ ih
    simp [List.replicate_succ]

theorem noSC_middles (ms : List (Nat × Bytes)) (k : Nat)
    (hms : ms.all (fun p => middleOk p.2) = true) :
    noSC (renderMiddles ms ++ List.replicate k 32) = true := by
  induction ms with
  | nil => simpa [renderMiddles] using noSC_replicate k
  | cons m ms ih =>
    obtain ⟨j, p⟩ := m
    simp only [List.all_cons, Bool.and_eq_true] at hms
    obtain ⟨hp, hms⟩ := hms
    simp only [middleOk, Bool.and_eq_true] at hp
    obtain ⟨⟨hp1, hp2⟩, hp3⟩ := hp
    simp only [renderMiddles, List.append_assoc]
    apply noSC_spaces
    · exact noSC_append_left _ _ (noSpaceRune_not_mem p hp3) (ih hms)
    · cases p with
      | nil => simp at hp1
      | cons x p => simpa using hp2

def trailingPart : Option (Nat × Bytes) → Bytes
  | none => []
  | some (k, t) => List.replicate k 32 ++ [32, 58] ++ t

def trailingArgs : Option (Nat × Bytes) → List Bytes
  | none => []
  | some (_, t) => [t]

theorem restArgs_render (verb : Bytes) (ms : List (Nat × Bytes)) (tr : Option (Nat × Bytes))
    (hv : verbOk verb = true) (hms : ms.all (fun p => middleOk p.2) = true) :
    restArgs (verb ++ (renderMiddles ms ++ trailingPart tr)) = verb :: (ms.map (·.2) ++ trailingArgs tr) := by
  obtain ⟨hv1, hv2⟩ := verbOk_alnum verb hv
  have hv3 := alnum_noSpaceRune verb hv2
  have hsc : ∀ k, noSC (verb ++ (renderMiddles ms ++ List.replicate k 32)) = true := fun k =>
    noSC_append_left _ _ (noSpaceRune_not_mem verb hv3) (noSC_middles ms k hms)
  cases tr with
  | none =>
    have h0 := hsc 0
    have hf := fields_verb_middles verb ms 0 hv3 hv1 hms
    simp only [List.replicate_zero, List.append_nil] at h0 hf
    simp only [trailingPart, trailingArgs, List.append_nil, restArgs, cut_sc_none _ h0, hf]
  | some kt =>
    obtain ⟨k, t⟩ := kt
    have e : verb ++ (renderMiddles ms ++ trailingPart (some (k, t)))
        = (verb ++ (renderMiddles ms ++ List.replicate k 32)) ++ 32 :: 58 :: t := by
      simp [trailingPart]
    rw [e]
    simp only [restArgs, cut_sc_append _ _ (hsc k), fields_verb_middles verb ms k hv3 hv1 hms, trailingArgs,
      List.cons_append]

/-! ## CTCP rewriting -/

theorem dropWhile_head {α} (p : α → Bool) (l : List α) (h : ∀ x, l.head? = some x → p x = false) :
    l.dropWhile p = l := by
  cases l with
  | nil => rfl
  | cons y l => simp [List.dropWhile, h y rfl]

theorem trimByte_ctcp (v t : Bytes) (hv : (1 : UInt8) ∉ v) (hv2 : v ≠ []) (ht : (1 : UInt8) ∉ t) :
    trimByte 1 (1 :: (v ++ 32 :: t) ++ [1]) = v ++ 32 :: t := by
  unfold trimByte
  have h1 : (1 :: (v ++ 32 :: t) ++ [1]).dropWhile (· == (1 : UInt8)) = (v ++ 32 :: t) ++ [1] := by
    rw [List.cons_append, List.dropWhile_cons_of_pos (by simp)]
    apply dropWhile_head
    intro x hx
    cases v with
    | nil => exact absurd rfl hv2
    | cons y v =>
      simp at hx; subst hx
      simp only [List.mem_cons, not_or] at hv
      simpa using fun e => hv.1 e.symm
  rw [h1, List.reverse_append, List.reverse_singleton, List.singleton_append,
    List.dropWhile_cons_of_pos (by simp), dropWhile_head, List.reverse_reverse]
  intro x hx
  rw [List.reverse_append, List.reverse_cons] at hx
  have ht' : (1 : UInt8) ∉ t.reverse := by simpa using ht
  cases hr : t.reverse with
  | nil => rw [hr] at hx; simp at hx; subst hx; decide
  | cons y r =>
    rw [hr] at hx ht'; simp at hx; subst hx
    simp only [List.mem_cons, not_or] at ht'
    simpa using fun e => ht'.1 e.symm

theorem dropLast_of_getLast? {α} (l : List α) (a : α) (h : l.getLast? = some a) : l = l.dropLast ++ [a] := by
  obtain ⟨ys, rfl⟩ := List.getLast?_eq_some_iff.1 h
  simp

theorem ctcpParts_some (p v t : Bytes) (h : ctcpParts p = some (v, t)) :
    p = 1 :: (v ++ 32 :: t) ++ [1] ∧ (32 : UInt8) ∉ v ∧ (1 : UInt8) ∉ v ∧ v ≠ [] ∧ (1 : UInt8) ∉ t := by
  unfold ctcpParts at h
  split at h
  · rename_i rest
    split at h
    · rename_i hl
      simp only at h
      split at h
      · rename_i i hi
        split at h
        · rename_i hc
          simp only [Option.some.injEq, Prod.mk.injEq] at h
          obtain ⟨rfl, rfl⟩ := h
          obtain ⟨h1, h2⟩ := indexByte_some _ _ _ hi
          have h3 := dropLast_of_getLast? _ _ hl
          simp only [Bool.and_eq_true, Bool.not_eq_true', List.isEmpty_eq_false_iff,
            List.contains_eq_mem, decide_eq_false_iff_not] at hc
          refine ⟨?_, h1, hc.1.2, hc.1.1, hc.2⟩
          rw [← h2, List.cons_append, ← h3]
        · simp at h
      · simp at h
    · simp at h
  · simp at h

def baseLine (m : Msg) : Line := {
    tags := m.tags.map expectedTags
    raw := render m
    src := match m.source with | none => [] | some s => s.render
    nick := match m.source with | some (.user n _ _) => n | _ => []
    ident := match m.source with | some (.user _ u _) => u | _ => []
    host := match m.source with | some (.user _ _ h) => h | some (.server n) => n | none => []
    cmd := toUpperAscii m.verb
    args := params m }

def ctcpWf (verb : Bytes) (ps : List Bytes) : Bool :=
  if isMsgVerb verb then
    match ps with
    | _ :: p1 :: _ => !looksCtcp p1 || (ctcpParts p1).isSome
    | _ => true
  else true


def expCmdArgs (ext : UnicodeExt) (verb : Bytes) (ps : List Bytes) : Bytes × List Bytes :=
  if isMsgVerb verb then
    match ps with
    | p0 :: p1 :: more =>
      if looksCtcp p1 then
        match ctcpParts p1 with
        | some (v, t) =>
          if toUpper ext v == ACTION && toUpperAscii verb == PRIVMSG then
            (ACTION, p0 :: t :: more)
          else
            ((if toUpperAscii verb == PRIVMSG then CTCP else CTCPREPLY), toUpper ext v :: p0 :: t :: more)
        | none => (toUpperAscii verb, ps)
      else (toUpperAscii verb, ps)
    | _ => (toUpperAscii verb, ps)
  else (toUpperAscii verb, ps)

theorem expected_eq (ext : UnicodeExt) (m : Msg) :
    expected ext m = { baseLine m with cmd := (expCmdArgs ext m.verb (params m)).1,
                                       args := (expCmdArgs ext m.verb (params m)).2 } := by
  unfold expected expCmdArgs
  simp only
  generalize params m = ps
  cases isMsgVerb m.verb with
  | false => rfl
  | true =>
    simp only [if_true]
    match ps with
    | [] => rfl
    | [_] => rfl
    | p0 :: p1 :: more =>
      simp only
      cases looksCtcp p1 with
      | false => rfl
      | true =>
        simp only [if_true]
        cases ctcpParts p1 with
        | none => rfl
        | some vt =>
          simp only
          split <;> rfl

theorem ctcpCmdArgs_eq (ext : UnicodeExt) (verb : Bytes) (ps : List Bytes) (h : ctcpWf verb ps = true) :
    ctcpCmdArgs ext (toUpperAscii verb) ps = expCmdArgs ext verb ps := by
  unfold ctcpCmdArgs expCmdArgs
  unfold ctcpWf at h
  have e : (toUpperAscii verb == PRIVMSG || toUpperAscii verb == NOTICE) = isMsgVerb verb := rfl
  rw [e]
  cases hm : isMsgVerb verb with
  | false => simp
  | true =>
    simp only [hm, if_true] at h ⊢
    match ps, h with
    | [], _ => rfl
    | [_], _ => rfl
    | p0 :: p1 :: more, h =>
      simp only at h ⊢
      have e2 : (decide (p1.length > 2) && hasPrefix p1 [1] && hasSuffix p1 [1]) = looksCtcp p1 := rfl
      rw [e2]
      cases hl : looksCtcp p1 with
      | false => simp
      | true =>
        simp only [hl, Bool.not_true, Bool.false_or, if_true] at h ⊢
        obtain ⟨⟨v, t⟩, hvt⟩ := Option.isSome_iff_exists.1 h
        obtain ⟨rfl, h32, h1v, hv, h1t⟩ := ctcpParts_some _ _ _ hvt
        rw [hvt, trimByte_ctcp v t h1v hv h1t, cut1_append 32 v t h32]
        simp only
        split
        · rename_i hc
          simp only [Bool.and_eq_true, beq_iff_eq] at hc
          simp [hc.1]
        · rfl

theorem ctcpRewrite_expected (ext : UnicodeExt) (m : Msg) (l : Line) (h : ctcpWf m.verb (params m) = true)
    (hl : l = baseLine m) :
    ctcpRewrite ext l = expected ext m := by
  subst hl
  rw [expected_eq, ctcpRewrite]
  have : (baseLine m).cmd = toUpperAscii m.verb := rfl
  rw [this]
  have : (baseLine m).args = params m := rfl
  rw [this, ctcpCmdArgs_eq ext _ _ h]

/-! ## source -/


theorem parseUserHost_server (n : Bytes) (h : (Source.server n).wf = true) : parseUserHost n = none := by
  simp only [Source.wf, Bool.and_eq_true] at h
  obtain ⟨⟨h1, h2⟩, h3⟩ := h
  simp only [parseUserHost, trimSpace_of_noSpaceRune n h2]
  split
  · rename_i i j hi hj
    rw [hi, hj] at h3
    simp only [decide_eq_true_eq] at h3
    simp [h3]
  · rfl

theorem source_user_noSpaceRune (n u h : Bytes) (hn : noSpaceRune n = true) (hu : noSpaceRune u = true)
    (hh : noSpaceRune h = true) : noSpaceRune (n ++ 33 :: (u ++ 64 :: h)) = true := by
  apply noSpaceRune_append _ _ hn
  · apply noSpaceRune_low _ _ (by decide) (by decide) (by decide)
    apply noSpaceRune_append _ _ hu
    · exact noSpaceRune_low _ _ (by decide) (by decide) (by decide) hh
    · intro y hy; simp at hy; subst hy; decide
  · intro y hy; simp at hy; subst hy; decide

theorem parseUserHost_user (n u h : Bytes) (hw : (Source.user n u h).wf = true) :
    parseUserHost (Source.user n u h).render = some (n, u, h) := by
  simp only [Source.wf, Bool.and_eq_true, Bool.not_eq_true', List.contains_eq_mem,
    decide_eq_false_iff_not] at hw
  obtain ⟨⟨⟨⟨⟨h1, h2⟩, h3⟩, h4⟩, h5⟩, h6⟩ := hw
  have e : (Source.user n u h).render = n ++ 33 :: (u ++ 64 :: h) := by simp [Source.render]
  have e2 : n ++ 33 :: (u ++ 64 :: h) = (n ++ 33 :: u) ++ 64 :: h := by simp
  have i1 : indexByte (n ++ 33 :: (u ++ 64 :: h)) 33 = some n.length := indexByte_append _ _ _ h4
  have i2 : indexByte (n ++ 33 :: (u ++ 64 :: h)) 64 = some (n ++ 33 :: u).length := by
    rw [e2]; apply indexByte_append
    simp only [List.mem_append, List.mem_cons, not_or]
    exact ⟨h5, by decide, h6⟩
  rw [e]
  simp only [parseUserHost, trimSpace_of_noSpaceRune _ (source_user_noSpaceRune n u h h1 h2 h3), i1, i2]
  have : ¬ ((n ++ 33 :: u).length < n.length) := by simp
  simp only [this, if_false, Option.some.injEq, Prod.mk.injEq]
  refine ⟨by simp, ?_, ?_⟩
  · rw [e2, List.take_left']
    · simp
    · rfl
  · have e3 : n ++ 33 :: (u ++ 64 :: h) = (n ++ 33 :: u ++ [64]) ++ h := by simp
    rw [e3]
    apply List.drop_left'
    simp only [List.length_append, List.length_cons, List.length_nil]

/-! ## tags -/


theorem escapeTag_not_mem (v : Bytes) : (32 : UInt8) ∉ escapeTag v ∧ (59 : UInt8) ∉ escapeTag v := by
  induction v with
  | nil => simp [escapeTag]
  | cons x v ih =>
    simp only [escapeTag, List.mem_append, not_or]
    refine ⟨⟨?_, ih.1⟩, ?_, ih.2⟩
    · simp only [esc1]
      split
      · decide
      · split
        · decide
        · split
          · decide
          · split
            · decide
            · split
              · decide
              · rename_i h _ _ _
                simp only [List.mem_singleton]; intro e; exact h (by simp [← e])
    · simp only [esc1]
      split
      · decide
      · split
        · decide
        · split
          · decide
          · split
            · decide
            · split
              · decide
              · rename_i h _ _ _ _
                simp only [List.mem_singleton]; intro e; exact h (by simp [← e])

theorem keyOk_spec (k : Bytes) (h : keyOk k = true) :
    k ≠ [] ∧ (59 : UInt8) ∉ k ∧ (61 : UInt8) ∉ k ∧ (32 : UInt8) ∉ k ∧ (92 : UInt8) ∉ k := by
  simp only [keyOk, Bool.and_eq_true, Bool.not_eq_true', List.isEmpty_eq_false_iff, List.all_eq_true,
    bne_iff_ne, ne_eq] at h
  obtain ⟨h1, h2⟩ := h
  exact ⟨h1, fun e => (h2 _ e).1.1.1 rfl, fun e => (h2 _ e).1.1.2 rfl, fun e => (h2 _ e).1.2 rfl,
    fun e => (h2 _ e).2 rfl⟩

theorem renderTag_not_mem (t : Bytes × Option Bytes) (h : keyOk t.1 = true) :
    (32 : UInt8) ∉ renderTag t ∧ (59 : UInt8) ∉ renderTag t := by
  obtain ⟨k, v⟩ := t
  obtain ⟨_, h59, _, h32, _⟩ := keyOk_spec k h
  cases v with
  | none => exact ⟨h32, h59⟩
  | some v =>
    simp only [renderTag, List.mem_append, List.mem_singleton, not_or]
    exact ⟨⟨⟨h32, by decide⟩, (escapeTag_not_mem v).1⟩, ⟨h59, by decide⟩, (escapeTag_not_mem v).2⟩

theorem splitByte_token (c : UInt8) (t rest acc : Bytes) (h : c ∉ t) :
    splitByte c acc (t ++ rest) = splitByte c (t.reverse ++ acc) rest := by
  induction t generalizing acc with
  | nil => rfl
  | cons x t ih =>
    have hx : x ≠ c := fun e => h (by simp [e])
    have ht : c ∉ t := fun e => h (by simp [e])
    simp only [List.cons_append, splitByte, beq_iff_eq, hx, if_false, ih _ ht]
    simp

theorem splitByte_join (c : UInt8) (t : Bytes) (ts : List Bytes) (h : ∀ t' ∈ t :: ts, c ∉ t') :
    splitByte c [] (join [c] (t :: ts)) = t :: ts := by
  induction ts generalizing t with
  | nil =>
    have := splitByte_token c t [] [] (h t (by simp))
    simp only [List.append_nil] at this
    simp [join, this, splitByte]
  | cons t' ts ih =>
    simp only [join, List.append_assoc, List.singleton_append]
    rw [splitByte_token c t _ _ (h t (by simp))]
    simp only [splitByte, beq_self_eq_true, if_true, List.append_nil, List.reverse_reverse]
    rw [ih t' (fun x hx => h x (by simp [hx]))]

theorem join_not_mem (c s : UInt8) (ts : List Bytes) (h : ∀ t ∈ ts, c ∉ t) (hs : c ≠ s) : c ∉ join [s] ts := by
  induction ts with
  | nil => simp [join]
  | cons t ts ih =>
    cases ts with
    | nil => simpa [join] using h t (by simp)
    | cons t' ts =>
      simp only [join, List.append_assoc, List.singleton_append, List.mem_append, List.mem_cons, not_or]
      exact ⟨h t (by simp), hs, ih (fun x hx => h x (by simp [hx]))⟩

theorem unescapeTag_append_left (k r : Bytes) (h : (92 : UInt8) ∉ k) : unescapeTag (k ++ r) = k ++ unescapeTag r := by
  induction k with
  | nil => rfl
  | cons x k ih =>
    have hx : x ≠ 92 := fun e => h (by simp [e])
    have hk : (92 : UInt8) ∉ k := fun e => h (by simp [e])
    rw [List.cons_append, unescapeTag_cons_ne _ _ hx, ih hk, List.cons_append]

theorem addTag_render (m : List (Bytes × Bytes)) (t : Bytes × Option Bytes) (h : keyOk t.1 = true) :
    addTag m (renderTag t) = mapInsert m t.1 (t.2.getD []) := by
  obtain ⟨k, v⟩ := t
  obtain ⟨hne, _, h61, _, h92⟩ := keyOk_spec k h
  cases v with
  | none =>
    have hu : unescapeTag k = k := by simpa [unescapeTag] using unescapeTag_append_left k [] h92
    simp only [addTag, renderTag, hu, cut1_none 61 k h61]
    simp [hne]
  | some v =>
    have hu : unescapeTag (k ++ [61] ++ escapeTag v) = k ++ 61 :: v := by
      rw [List.append_assoc, unescapeTag_append_left _ _ h92, List.singleton_append,
        unescapeTag_cons_ne _ _ (by decide), unescape_escape]
    simp only [addTag, renderTag, hu, cut1_append 61 k v h61]
    simp [hne]

theorem parseTags_render (ts : List (Bytes × Option Bytes)) (hne : ts ≠ [])
    (h : ts.all (fun t => keyOk t.1) = true) :
    parseTags (join [59] (ts.map renderTag)) = expectedTags ts := by
  have hfold : ∀ (l : List (Bytes × Option Bytes)) (acc : List (Bytes × Bytes)),
      l.all (fun t => keyOk t.1) = true →
      (l.map renderTag).foldl addTag acc = l.foldl (fun m t => mapInsert m t.1 (t.2.getD [])) acc := by
    intro l
    induction l with
    | nil => intros; rfl
    | cons t l ih =>
      intro acc hl
      simp only [List.all_cons, Bool.and_eq_true] at hl
      simp only [List.map_cons, List.foldl_cons, addTag_render acc t hl.1, ih _ hl.2]
  unfold parseTags expectedTags
  cases ts with
  | nil => exact absurd rfl hne
  | cons t ts =>
    rw [List.map_cons, splitByte_join, ← List.map_cons, hfold _ _ h]
    intro t' ht'
    rw [← List.map_cons, List.mem_map] at ht'
    obtain ⟨a, ha, rfl⟩ := ht'
    simp only [List.all_eq_true] at h
    exact (renderTag_not_mem a (h a ha)).2

theorem tagText_not_mem (ts : List (Bytes × Option Bytes)) (h : ts.all (fun t => keyOk t.1) = true) :
    (32 : UInt8) ∉ join [59] (ts.map renderTag) := by
  apply join_not_mem _ _ _ _ (by decide)
  intro t' ht'
  rw [List.mem_map] at ht'
  obtain ⟨a, ha, rfl⟩ := ht'
  simp only [List.all_eq_true] at h
  exact (renderTag_not_mem a (h a ha)).1

/-! ## assembling the stages -/


theorem parseSource_colon (ext : UnicodeExt) (l : Line) (src rest : Bytes) (h : (32 : UInt8) ∉ src) :
    parseSource ext l (58 :: (src ++ 32 :: rest)) = parseRest ext (withSource l src) rest := by
  have hi : indexByte (58 :: (src ++ 32 :: rest)) 32 = some (src.length + 1) := by
    have := indexByte_append 32 (58 :: src) rest (by simp only [List.mem_cons, not_or]; exact ⟨by decide, h⟩)
    simpa using this
  simp only [parseSource, hi]
  simp

theorem parseSource_plain (ext : UnicodeExt) (l : Line) (x : UInt8) (s : Bytes) (h : x ≠ 58) :
    parseSource ext l (x :: s) = parseRest ext l (x :: s) := by
  unfold parseSource
  split
  · rename_i e; simp at e
  · rename_i e; simp at e; exact absurd e.1 h
  · rfl

theorem parseLine_at (ext : UnicodeExt) (tags rest : Bytes) (h : (32 : UInt8) ∉ tags) :
    parseLine ext (64 :: (tags ++ 32 :: rest)) =
      parseSource ext { raw := 64 :: (tags ++ 32 :: rest), tags := some (parseTags tags) } rest := by
  have hi : indexByte (64 :: (tags ++ 32 :: rest)) 32 = some (tags.length + 1) := by
    have := indexByte_append 32 (64 :: tags) rest (by simp only [List.mem_cons, not_or]; exact ⟨by decide, h⟩)
    simpa using this
  simp only [parseLine, hi]
  simp

theorem parseLine_plain (ext : UnicodeExt) (x : UInt8) (s : Bytes) (h : x ≠ 64) :
    parseLine ext (x :: s) = parseSource ext { raw := x :: s } (x :: s) := by
  unfold parseLine
  split
  · rename_i e; simp at e
  · rename_i e; simp at e; exact absurd e.1 h
  · rfl


def restPart (m : Msg) : Bytes := m.verb ++ (renderMiddles m.middles ++ trailingPart m.trailing)

def srcPart : Option Source → Bytes
  | none => []
  | some s => 58 :: (s.render ++ 32 :: [])

def tagPart : Option (List (Bytes × Option Bytes)) → Bytes
  | none => []
  | some ts => 64 :: (join [59] (ts.map renderTag) ++ 32 :: [])

theorem render_eq (m : Msg) : render m = tagPart m.tags ++ (srcPart m.source ++ restPart m) := by
  unfold render restPart
  cases m.tags <;> cases m.source <;> rcases m.trailing with _ | ⟨k, t⟩ <;>
    simp [tagPart, srcPart, trailingPart, List.append_assoc]

theorem params_eq (m : Msg) : params m = m.middles.map (·.2) ++ trailingArgs m.trailing := by
  unfold params
  rcases m.trailing with _ | ⟨k, t⟩ <;> rfl

theorem parseRest_render (ext : UnicodeExt) (l : Line) (m : Msg) (hv : verbOk m.verb = true)
    (hms : m.middles.all (fun p => middleOk p.2) = true) :
    parseRest ext l (restPart m) =
      some (ctcpRewrite ext { l with cmd := toUpperAscii m.verb, args := params m }) := by
  unfold parseRest restPart
  rw [restArgs_render _ _ _ hv hms, params_eq]
  simp only [toUpper, alnum_isAscii _ (verbOk_alnum _ hv).2, if_true]

theorem restPart_head (m : Msg) (hv : verbOk m.verb = true) :
    ∃ x s, restPart m = x :: s ∧ x ≠ 58 ∧ x ≠ 64 := by
  obtain ⟨h1, h2⟩ := verbOk_alnum _ hv
  unfold restPart
  cases hvb : m.verb with
  | nil => exact absurd hvb h1
  | cons x v =>
    rw [hvb] at h2
    exact ⟨x, _, rfl, alnum_head _ h2 x rfl⟩

theorem source_not_mem (s : Source) (h : s.wf = true) : (32 : UInt8) ∉ s.render := by
  cases s with
  | server n =>
    simp only [Source.wf, Bool.and_eq_true] at h
    exact noSpaceRune_not_mem _ h.1.2
  | user n u hh =>
    simp only [Source.wf, Bool.and_eq_true] at h
    obtain ⟨⟨⟨⟨⟨h1, h2⟩, h3⟩, _⟩, _⟩, _⟩ := h
    have := noSpaceRune_not_mem _ (source_user_noSpaceRune n u hh h1 h2 h3)
    simpa [Source.render] using this

theorem parse_render_eq (ext : UnicodeExt) (m : Msg) (h : m.wf = true) :
    parseLine ext (render m) = some (expected ext m) := by
  simp only [Msg.wf, Bool.and_eq_true] at h
  obtain ⟨⟨⟨⟨⟨htags, hsrc⟩, hverb⟩, _⟩, hmid⟩, hctcp⟩ := h
  have hctcp' : ctcpWf m.verb (params m) = true := hctcp
  obtain ⟨x, s, hxs, hx58, hx64⟩ := restPart_head m hverb
  -- source stage, for an arbitrary incoming line
  have hsource : ∀ l : Line, l.raw = render m → l.tags = m.tags.map expectedTags →
      l.nick = [] → l.ident = [] → l.host = [] → l.src = [] →
      parseSource ext l (srcPart m.source ++ restPart m) = some (expected ext m) := by
    intro l hraw htg hn hi hh hs
    cases hsm : m.source with
    | none =>
      simp only [srcPart, List.nil_append]
      rw [hxs, parseSource_plain ext l x s hx58, ← hxs, parseRest_render ext l m hverb hmid]
      congr 1
      apply ctcpRewrite_expected ext m _ hctcp'
      cases l
      simp only at hraw htg hn hi hh hs
      simp [baseLine, hsm, hraw, htg, hn, hi, hh, hs]
    | some src =>
      rw [hsm] at hsrc
      simp only at hsrc
      simp only [srcPart, List.cons_append, List.append_assoc, List.nil_append]
      rw [parseSource_colon ext l _ _ (source_not_mem src hsrc), parseRest_render ext _ m hverb hmid]
      congr 1
      apply ctcpRewrite_expected ext m _ hctcp'
      cases l
      simp only at hraw htg hn hi hh hs
      cases src with
      | server n =>
        simp [baseLine, hsm, withSource, Source.render, parseUserHost_server n hsrc, hraw, htg, hn, hi]
      | user n u hh' =>
        have := parseUserHost_user n u hh' hsrc
        simp [baseLine, hsm, withSource, this, hraw, htg]
  rw [render_eq]
  cases htm : m.tags with
  | none =>
    simp only [tagPart, List.nil_append]
    have hhead : ∃ y t, srcPart m.source ++ restPart m = y :: t ∧ y ≠ 64 := by
      cases m.source with
      | none => exact ⟨x, s, by simp [srcPart, hxs], hx64⟩
      | some src => exact ⟨58, _, rfl, by decide⟩
    obtain ⟨y, t, hyt, hy⟩ := hhead
    rw [hyt, parseLine_plain ext y t hy, ← hyt]
    apply hsource
    · simp [render_eq, htm, tagPart]
    · simp [htm]
    all_goals rfl
  | some ts =>
    rw [htm] at htags
    simp only [Bool.and_eq_true, Bool.not_eq_true', List.isEmpty_eq_false_iff] at htags
    simp only [tagPart, List.cons_append, List.append_assoc, List.nil_append]
    rw [parseLine_at ext _ _ (tagText_not_mem ts htags.2)]
    apply hsource
    · simp [render_eq, htm, tagPart]
    · simp [htm, parseTags_render ts htags.1 htags.2]
    all_goals rfl

end Go
