import Goirc.Proofs.C13Ops
import Goirc.Proofs.C13Parse
import Goirc.Proofs.C13Inv
/-!
# C13, JOIN event: helper lemmas (words of a NAMES reply, chunks, one NAMES word vs. one view step)
-/
namespace Proofs.C13
open Go Go.Client Go.Tracker Spec.Tracker Spec.Net

/-! ## `joinSp`, `splitByte`, `chunk` -/

theorem splitByte_joinSp (g : List Bytes) (hg : g ≠ []) (h : ∀ w ∈ g, (32 : UInt8) ∉ w) :
    splitByte 32 [] (joinSp g) = g := by
  induction g with
  | nil => exact absurd rfl hg
  | cons a rest ih =>
    cases rest with
    | nil =>
      have := splitByte_token 32 a [] [] (h a (by simp))
      simp only [List.append_nil] at this
      simp [joinSp, this, splitByte]
    | cons b rest =>
      have e : joinSp (a :: b :: rest) = a ++ ([32] ++ joinSp (b :: rest)) := by
        simp [joinSp]
      rw [e, splitByte_token 32 a _ _ (h a (by simp))]
      simp only [List.singleton_append, splitByte, beq_self_eq_true, if_true, List.append_nil, List.reverse_reverse]
      rw [ih (by simp) (fun w hw => h w (List.mem_cons_of_mem _ hw))]

theorem chunk_flatten (k fuel : Nat) (l : List Bytes) : (chunk k fuel l).flatten = l := by
  induction fuel generalizing l with
  | zero => cases l <;> simp [chunk]
  | succ f ih =>
    cases l with
    | nil => simp [chunk]
    | cons a l =>
      simp only [chunk]
      split
      · simp
      · simp [ih]

theorem chunk_ne_nil (k fuel : Nat) (l : List Bytes) (hk : 0 < k) : ∀ g ∈ chunk k fuel l, g ≠ [] := by
  induction fuel generalizing l with
  | zero => cases l <;> simp [chunk]
  | succ f ih =>
    cases l with
    | nil => simp [chunk]
    | cons a l =>
      simp only [chunk]
      split
      · simp
      · intro g hg
        rcases List.mem_cons.1 hg with hg | hg
        · subst hg
          cases k with
          | zero => omega
          | succ k => simp
        · exact ih _ g hg

theorem chunk_mem (k fuel : Nat) (l : List Bytes) : ∀ g ∈ chunk k fuel l, ∀ w ∈ g, w ∈ l := by
  intro g hg w hw
  rw [← chunk_flatten k fuel l]
  exact List.mem_flatten.2 ⟨g, hg, hw⟩

/-! ## the operations used, on their success paths -/

theorem sx_newNick_j (S : TS) (n : Bytes) (hn : n ≠ []) (h : AL.has S.nicks n = false) :
    sx S (.newNick n) = { S with nicks := AL.insert S.nicks n {} } := by
  cases n with
  | nil => exact absurd rfl hn
  | cons b tl => simp [sx, Spec.Tracker.step, h]

theorem sx_newChannel_j (S : TS) (c : Bytes) (hn : c ≠ []) (h : AL.has S.chans c = false) :
    sx S (.newChannel c) = { S with chans := AL.insert S.chans c {} } := by
  cases c with
  | nil => exact absurd rfl hn
  | cons b tl => simp [sx, Spec.Tracker.step, h]

theorem sx_associate_j (S : TS) (c n : Bytes) (h1 : AL.has S.chans c = true) (h2 : AL.has S.nicks n = true)
    (h3 : AL.has S.mem (c, n) = false) :
    sx S (.associate c n) = { S with mem := AL.insert S.mem (c, n) {} } := by
  simp [sx, Spec.Tracker.step, h1, h2, h3]

theorem sx_channelModes_j (S : TS) (c m : Bytes) (args : List Bytes) (h1 : AL.has S.chans c = true) :
    sx S (.channelModes c m args) = parseModes S c false m args := by
  simp [sx, Spec.Tracker.step, h1]

theorem sx_topic_j (S : TS) (c t : Bytes) (r : SChan) (h1 : AL.lookup S.chans c = some r) :
    sx S (.topic c t) = { S with chans := AL.insert S.chans c { r with topic := t } } := by
  simp [sx, Spec.Tracker.step, h1]

theorem sx_nickInfo_j (S : TS) (n i h nm : Bytes) (r : SNick) (h1 : AL.lookup S.nicks n = some r) :
    sx S (.nickInfo n i h nm) = { S with nicks := AL.insert S.nicks n { r with ident := i, host := h, name := nm } } := by
  simp [sx, Spec.Tracker.step, h1]

/-- a privilege letter applied to a member -/
theorem parseModes_priv (S : TS) (c m : Bytes) (y : UInt8) (hy : y ∈ [113, 97, 111, 104, 118]) (p0 : ChanPrivs)
    (h : AL.lookup S.mem (c, m) = some p0) :
    parseModes S c false [43, y] [m] = { S with mem := AL.insert S.mem (c, m) (applyPriv p0 true y) } := by
  simp only [List.mem_cons, List.not_mem_nil, or_false] at hy
  rcases hy with rfl | rfl | rfl | rfl | rfl <;>
    simp [parseModes, applyChanFlag, isPrivChar, h]

theorem pfx_cases (p : ChanPrivs) :
    (prefixOf p = [] ∧ highest p = {}) ∨
    ∃ x y, prefixOf p = [x] ∧ prefixMode x = some [43, y] ∧ y ∈ [113, 97, 111, 104, 118] ∧ highest p = applyPriv {} true y := by
  obtain ⟨o, a, op, h, v⟩ := p
  cases o <;> cases a <;> cases op <;> cases h <;> cases v <;> simp [prefixOf, highest, prefixMode, applyPriv, lit]

/-- one step of the view's fold over the members -/
def vstep (c : Bytes) (acc : TS) (mp : Bytes × ChanPrivs) : TS :=
  let acc1 := if AL.has acc.nicks mp.1 then acc else { acc with nicks := AL.insert acc.nicks mp.1 {} }
  { acc1 with mem := AL.insert acc1.mem (c, mp.1) (highest mp.2) }

theorem nameOk_ne_nil (s : Bytes) (h : nameOk s = true) : s ≠ [] := by
  intro e; subst e; simp [nameOk] at h

theorem nameOk_no32 (s : Bytes) (h : nameOk s = true) : (32 : UInt8) ∉ s := by
  intro hm
  simp only [nameOk, Bool.and_eq_true, List.all_eq_true] at h
  have := h.2 32 hm
  simp at this

theorem nickOk_head (m : Bytes) (h : nickOk m = true) : ∃ b tl, m = b :: tl ∧ prefixMode b = none := by
  simp only [nickOk, Bool.and_eq_true] at h
  cases m with
  | nil => simp [nameOk] at h
  | cons b tl =>
    refine ⟨b, tl, rfl, ?_⟩
    have h2 := h.2
    simp only [nickHeadOk, List.head?_cons, List.contains_eq_mem, List.mem_cons, List.not_mem_nil, or_false,
      Bool.not_eq_true', decide_eq_false_iff_not, not_or] at h2
    simp [prefixMode, h2]

theorem tName_spec (c : Bytes) (A : TS) (m : Bytes) (p : ChanPrivs) (hm : nickOk m = true)
    (hc : AL.has A.chans c = true)
    (hmem : AL.lookup A.mem (c, m) = none ∨ (AL.lookup A.mem (c, m) = some {} ∧ AL.has A.nicks m = true)) :
    Eqv (tName c A (prefixOf p ++ m)) (vstep c A (m, p)) := by
  have hne : m ≠ [] := nameOk_ne_nil m (by simp only [nickOk, Bool.and_eq_true] at hm; exact hm.1)
  obtain ⟨b, tl, hb, hpm⟩ := nickOk_head m hm
  -- the state after the nick and the membership are known
  let S2 : TS := if !AL.has A.nicks m then sx A (.newNick m) else A
  let S4 : TS := if sIsOn S2 c m then S2 else sx S2 (.associate c m)
  have hS2n : ∀ k, AL.lookup S2.nicks k = AL.lookup (vstep c A (m, p)).nicks k := by
    intro k
    simp only [S2, vstep]
    cases hn : AL.has A.nicks m <;> simp [sx_newNick_j A m hne, hn]
  have hS2nm : AL.has S2.nicks m = true := by
    simp only [S2]
    cases hn : AL.has A.nicks m
    · simp [sx_newNick_j A m hne hn, AL.has_eq, AL.lookup_insert]
    · simp [hn]
  have hS2c : S2.chans = A.chans := by
    simp only [S2]
    cases hn : AL.has A.nicks m <;> simp [sx_newNick_j A m hne, hn]
  have hS2m : S2.mem = A.mem := by
    simp only [S2]
    cases hn : AL.has A.nicks m <;> simp [sx_newNick_j A m hne, hn]
  have hS2me : S2.me = A.me := by
    simp only [S2]
    cases hn : AL.has A.nicks m <;> simp [sx_newNick_j A m hne, hn]
  have hS4 : S4.nicks = S2.nicks ∧ S4.chans = S2.chans ∧ S4.me = S2.me ∧
      AL.lookup S4.mem (c, m) = some {} ∧ ∀ k, k ≠ (c, m) → AL.lookup S4.mem k = AL.lookup A.mem k := by
    have hon : sIsOn S2 c m = AL.has A.mem (c, m) := by
      simp only [sIsOn, hS2nm, hS2c, hc, Bool.true_and, hS2m]
    simp only [S4, hon]
    rcases hmem with h0 | ⟨h0, _⟩
    · have h1 : AL.has A.mem (c, m) = false := by rw [AL.has_eq, h0]; rfl
      have h2 : AL.has S2.mem (c, m) = false := by rw [hS2m]; exact h1
      rw [h1]
      simp only [Bool.false_eq_true, if_false]
      rw [sx_associate_j S2 c m (by rw [hS2c]; exact hc) hS2nm h2]
      refine ⟨rfl, rfl, rfl, by simp [AL.lookup_insert], ?_⟩
      intro k hk
      simp only [AL.lookup_insert, hS2m]
      rw [if_neg (fun e => hk e.symm)]
    · have h1 : AL.has A.mem (c, m) = true := by rw [AL.has_eq, h0]; rfl
      rw [h1]
      simp only [if_true, true_and]
      exact ⟨by rw [hS2m, h0], fun k _ => by rw [hS2m]⟩
  obtain ⟨h4n, h4c, h4me, h4m, h4o⟩ := hS4
  rcases pfx_cases p with ⟨hp, hh⟩ | ⟨x, y, hp, hx, hy, hh⟩
  · -- no prefix
    have e : tName c A (prefixOf p ++ m) = S4 := by
      rw [hp, List.nil_append, hb]
      simp only [tName, hpm, Option.isSome_none, Bool.false_eq_true, if_false]
      simp only [S4, S2, hb]
    rw [e]
    refine ⟨fun k => by rw [h4n]; exact hS2n k, fun k => by rw [h4c, hS2c]; simp only [vstep]; split <;> rfl, ?_, ?_⟩
    · intro k
      simp only [vstep]
      by_cases hk : k = (c, m)
      · subst hk; rw [h4m, hh]; split <;> simp [AL.lookup_insert]
      · have hk' : ¬ (c, m) = k := fun e => hk e.symm
        rw [h4o k hk]; split <;> simp [AL.lookup_insert, hk']
    · rw [h4me, hS2me]; simp only [vstep]; split <;> rfl
  · have e : tName c A (prefixOf p ++ m) = sx S4 (.channelModes c [43, y] [m]) := by
      rw [hp]
      simp only [List.singleton_append, tName, hx, Option.isSome_some, if_true]
      rfl
    rw [e, sx_channelModes_j S4 c _ _ (by rw [h4c, hS2c]; exact hc), parseModes_priv S4 c m y hy {} h4m]
    refine ⟨fun k => by simp only [h4n]; exact hS2n k, fun k => by simp only [h4c, hS2c]; simp only [vstep]; split <;> rfl, ?_, ?_⟩
    · intro k
      simp only [vstep]
      by_cases hk : k = (c, m)
      · subst hk; rw [hh]; split <;> simp [AL.lookup_insert]
      · have hk' : ¬ (c, m) = k := fun e => hk e.symm
        simp only [AL.lookup_insert, if_neg hk']
        rw [h4o k hk]; split <;> rfl
    · simp only [h4me, hS2me]; simp only [vstep]; split <;> rfl

theorem vstep_nicks (c : Bytes) (X : TS) (m : Bytes) (p : ChanPrivs) (k : Bytes) :
    AL.lookup (vstep c X (m, p)).nicks k =
      if AL.has X.nicks m then AL.lookup X.nicks k else if m = k then some {} else AL.lookup X.nicks k := by
  simp only [vstep]; split <;> simp [AL.lookup_insert]
theorem vstep_chans (c : Bytes) (X : TS) (mp : Bytes × ChanPrivs) : (vstep c X mp).chans = X.chans := by
  simp only [vstep]; split <;> rfl
theorem vstep_me (c : Bytes) (X : TS) (mp : Bytes × ChanPrivs) : (vstep c X mp).me = X.me := by
  simp only [vstep]; split <;> rfl
theorem vstep_mem (c : Bytes) (X : TS) (m : Bytes) (p : ChanPrivs) (k : Bytes × Bytes) :
    AL.lookup (vstep c X (m, p)).mem k = if (c, m) = k then some (highest p) else AL.lookup X.mem k := by
  simp only [vstep]; split <;> simp [AL.lookup_insert]

theorem names_loop (c me : Bytes) (ms : List (Bytes × ChanPrivs)) :
    ∀ (A B : TS), (AL.keys ms).Nodup → (∀ m ∈ AL.keys ms, nickOk m = true) →
      (∀ k, AL.lookup A.nicks k = AL.lookup B.nicks k) → (∀ k, AL.lookup A.chans k = AL.lookup B.chans k) →
      A.me = B.me → AL.has A.chans c = true →
      (∀ k, (k = (c, me) → me ∉ AL.keys ms) → AL.lookup A.mem k = AL.lookup B.mem k) →
      (me ∈ AL.keys ms → AL.lookup A.mem (c, me) = some {} ∧ AL.has A.nicks me = true) →
      (∀ m ∈ AL.keys ms, m ≠ me → AL.lookup A.mem (c, m) = none) →
      Eqv (tNames c A (ms.map fun mp => prefixOf mp.2 ++ mp.1)) (ms.foldl (vstep c) B) := by
  induction ms with
  | nil =>
    intro A B _ _ hn hc hme _ hm _ _
    exact ⟨hn, hc, fun k => hm k (fun _ => by simp), hme⟩
  | cons mp ms ih =>
    obtain ⟨m, p⟩ := mp
    intro A B nd ok hn hc hme hcc hm hmme hoth
    simp only [AL.keys_cons, List.nodup_cons] at nd
    simp only [List.map_cons, tNames, List.foldl_cons]
    have hmem : AL.lookup A.mem (c, m) = none ∨ (AL.lookup A.mem (c, m) = some {} ∧ AL.has A.nicks m = true) := by
      by_cases e : m = me
      · subst e; exact Or.inr (hmme (by simp))
      · exact Or.inl (hoth m (by simp) e)
    have E := tName_spec c A m p (ok m (by simp)) hcc hmem
    have hhas : AL.has A.nicks m = AL.has B.nicks m := by rw [AL.has_eq, AL.has_eq, hn]
    refine ih (tName c A (prefixOf p ++ m)) (vstep c B (m, p)) nd.2 (fun x hx => ok x (by simp [hx])) ?_ ?_ ?_ ?_ ?_ ?_ ?_
    · intro k; rw [E.nicks, vstep_nicks, vstep_nicks, hhas, hn]
    · intro k; rw [E.chans, vstep_chans, vstep_chans, hc]
    · rw [E.me, vstep_me, vstep_me, hme]
    · rw [AL.has_eq, E.chans, vstep_chans, ← AL.has_eq]; exact hcc
    · intro k hk
      rw [E.mem, vstep_mem, vstep_mem]
      split
      · rfl
      · rename_i hne
        apply hm k
        intro e hmem
        subst e
        simp only [AL.keys_cons, List.mem_cons] at hmem
        rcases hmem with h | h
        · exact hne (by rw [h])
        · exact hk rfl h
    · intro hmem'
      have hne : m ≠ me := fun e => nd.1 (e ▸ hmem')
      have := hmme (by simp [hmem'])
      refine ⟨?_, ?_⟩
      · rw [E.mem, vstep_mem, if_neg (by intro e; injection e with _ e2; exact hne e2)]; exact this.1
      · rw [AL.has_eq, E.nicks, vstep_nicks]
        have h2 := this.2
        rw [AL.has_eq] at h2
        simp only [if_neg hne, ite_self]
        exact h2
    · intro x hx hxme
      have hne : m ≠ x := fun e => nd.1 (e ▸ hx)
      rw [E.mem, vstep_mem, if_neg (by intro e; injection e with _ e2; exact hne e2)]
      exact hoth x (by simp [hx]) hxme


/-! ## feeding lines -/

theorem tFeed_append (ext : UnicodeExt) (nn : Bytes → Bytes) (a b : List Bytes) :
    ∀ S, tFeed ext nn S (a ++ b) = tFeed ext nn (tFeed ext nn S a) b := by
  induction a with
  | nil => intro S; rfl
  | cons l a ih =>
    intro S
    simp only [List.cons_append, tFeed]
    split <;> exact ih _

theorem stTwin_join : stTwin (lit "join") = some t_JOIN := rfl
theorem stTwin_332 : stTwin (lit "332") = some t_332 := rfl
theorem stTwin_353 : stTwin (lit "353") = some t_353 := rfl
theorem stTwin_366 : stTwin (lit "366") = none := rfl

theorem tFeed_JOIN (ext : UnicodeExt) (nn : Bytes → Bytes) (S : TS) (raw nick ident host : Bytes) (args rest : List Bytes)
    (h : ParsesTo ext raw nick ident host (lit "JOIN") args) :
    tFeed ext nn S (raw :: rest) = tFeed ext nn (t_JOIN S { nick := nick, ident := ident, host := host, args := args }) rest := by
  obtain ⟨L, hp, h1, h2, h3, h4, h5⟩ := h
  have e1 : (lit "join" == lit "001") = false := by decide
  have e2 : (lit "join" == lit "433") = false := by decide
  simp only [tFeed, hp, tDispatch, h4, (toLower_verbs ext).1, stTwin_join, e1, e2, Bool.false_eq_true, if_false]
  congr 1
  simp only [t_JOIN, arg, h1, h2, h3, h5]

theorem tFeed_332 (ext : UnicodeExt) (nn : Bytes → Bytes) (S : TS) (raw nick ident host : Bytes) (args rest : List Bytes)
    (h : ParsesTo ext raw nick ident host (lit "332") args) :
    tFeed ext nn S (raw :: rest) = tFeed ext nn (t_332 S { args := args }) rest := by
  obtain ⟨L, hp, h1, h2, h3, h4, h5⟩ := h
  have e1 : (lit "332" == lit "001") = false := by decide
  have e2 : (lit "332" == lit "433") = false := by decide
  simp only [tFeed, hp, tDispatch, h4, (toLower_verbs ext).2.2.2.2.2.2.2.1, stTwin_332, e1, e2, Bool.false_eq_true, if_false]
  congr 1
  simp only [t_332, arg, h5]

theorem tFeed_353 (ext : UnicodeExt) (nn : Bytes → Bytes) (S : TS) (raw nick ident host : Bytes) (args rest : List Bytes)
    (h : ParsesTo ext raw nick ident host (lit "353") args) :
    tFeed ext nn S (raw :: rest) = tFeed ext nn (t_353 S { args := args }) rest := by
  obtain ⟨L, hp, h1, h2, h3, h4, h5⟩ := h
  have e1 : (lit "353" == lit "001") = false := by decide
  have e2 : (lit "353" == lit "433") = false := by decide
  simp only [tFeed, hp, tDispatch, h4, (toLower_verbs ext).2.2.2.2.2.2.2.2.1, stTwin_353, e1, e2, Bool.false_eq_true, if_false]
  congr 1
  simp only [t_353, arg, h5]

theorem tFeed_366 (ext : UnicodeExt) (nn : Bytes → Bytes) (S : TS) (raw nick ident host : Bytes) (args rest : List Bytes)
    (h : ParsesTo ext raw nick ident host (lit "366") args) :
    tFeed ext nn S (raw :: rest) = tFeed ext nn S rest := by
  obtain ⟨L, hp, h1, h2, h3, h4, h5⟩ := h
  have e1 : (lit "366" == lit "001") = false := by decide
  have e2 : (lit "366" == lit "433") = false := by decide
  simp only [tFeed, hp, tDispatch, h4, (toLower_verbs ext).2.2.2.2.2.2.2.2.2.1, stTwin_366, e1, e2, Bool.false_eq_true, if_false]


theorem sx_newNick_chans (S : TS) (n : Bytes) : (sx S (.newNick n)).chans = S.chans := by
  simp only [sx, Spec.Tracker.step]; split <;> rfl
theorem sx_associate_chans (S : TS) (c n : Bytes) : (sx S (.associate c n)).chans = S.chans := by
  simp only [sx, Spec.Tracker.step]; split <;> rfl

theorem tName_has_chans (c : Bytes) (S : TS) (w : Bytes) (h : AL.has S.chans c = true) :
    AL.has (tName c S w).chans c = true := by
  cases w with
  | nil => exact h
  | cons b tl =>
    simp only [tName]
    generalize (if (prefixMode b).isSome = true then tl else b :: tl) = nick
    have h2 : AL.has (if (!AL.has S.nicks nick) = true then sx S (.newNick nick) else S).chans c = true := by
      split
      · rw [sx_newNick_chans]; exact h
      · exact h
    generalize (if (!AL.has S.nicks nick) = true then sx S (.newNick nick) else S) = S2 at h2 ⊢
    have h4 : AL.has (if sIsOn S2 c nick = true then S2 else sx S2 (.associate c nick)).chans c = true := by
      split
      · exact h2
      · rw [sx_associate_chans]; exact h2
    generalize (if sIsOn S2 c nick = true then S2 else sx S2 (.associate c nick)) = S4 at h4 ⊢
    cases prefixMode b with
    | none => exact h4
    | some m =>
      simp only
      rw [sx_channelModes_j S4 c m _ h4, parseModes_has_chans S4 c false m _ h4]
      exact h4

theorem tNames_has_chans (c : Bytes) (ws : List Bytes) : ∀ (S : TS), AL.has S.chans c = true →
    AL.has (tNames c S ws).chans c = true := by
  induction ws with
  | nil => intro S h; exact h
  | cons w ws ih => intro S h; exact ih _ (tName_has_chans c S w h)

theorem tNames_append (c : Bytes) (S : TS) (a b : List Bytes) : tNames c S (a ++ b) = tNames c (tNames c S a) b := by
  simp only [tNames, List.foldl_append]

theorem tNames_split (c : Bytes) (S : TS) (g : List Bytes) (h : ∀ w ∈ g, (32 : UInt8) ∉ w) :
    tNames c S (splitByte 32 [] (joinSp g)) = tNames c S g := by
  cases g with
  | nil => simp [joinSp, splitByte, tNames, tName]
  | cons a g => rw [splitByte_joinSp _ (by simp) h]

theorem feed_353_lines (ext : UnicodeExt) (nn : Bytes → Bytes) (me c : Bytes) (hm : nameOk me = true) (hc : nameOk c = true)
    (gs : List (List Bytes)) : ∀ (S : TS), AL.has S.chans c = true → (∀ g ∈ gs, ∀ w ∈ g, (32 : UInt8) ∉ w) →
    tFeed ext nn S (gs.map fun g => srv ++ lit "353 " ++ me ++ lit " = " ++ c ++ lit " :" ++ joinSp g) = tNames c S gs.flatten := by
  induction gs with
  | nil => intro S _ _; rfl
  | cons g gs ih =>
    intro S hS hw
    simp only [List.map_cons, List.flatten_cons]
    rw [tFeed_353 ext nn S _ _ _ _ _ _ (parse_353 ext me c hm hc (joinSp g))]
    have e : t_353 S { args := [me, lit "=", c, joinSp g] } = tNames c S g := by
      simp only [t_353, arg, List.getElem?_cons_succ, List.getElem?_cons_zero, hS, if_true]
      exact tNames_split c S g (hw g (by simp))
    rw [e, ih _ (tNames_has_chans c g S hS) (fun g' hg' => hw g' (by simp [hg'])), tNames_append]

end Proofs.C13
