import Goirc.Proofs.Tracker
/-! `Associate`: linking a nick and a channel through a fresh shared privilege cell. -/
namespace Spec.Tracker
open Go.Tracker AL

/-- the state after `Associate` succeeded -/
def link (st : St) (ci ni : Id) : St :=
  setN (setC { setP st st.fresh {} with fresh := st.fresh + 1 } ci
      { getC st ci with nicks := AL.insert (getC st ci).nicks ni st.fresh,
                        lookup := AL.insert (getC st ci).lookup (getN st ni).nick ni }) ni
    { getN st ni with chans := AL.insert (getN st ni).chans ci st.fresh,
                      lookup := AL.insert (getN st ni).lookup (getC st ci).name ci }

theorem step_associate {st : St} {c n : Bytes} {ci ni : Id} (hc : AL.lookup st.chans c = some ci)
    (hn : AL.lookup st.nicks n = some ni) (h1 : AL.has (getN st ni).chans ci = false)
    (h2 : AL.has (getC st ci).nicks ni = false) :
    Go.Tracker.step st (.associate c n) = (link st ci ni, .assoc (some {})) := by
  simp [Go.Tracker.step, hc, hn, h1, h2, link, setP, setC, setN]

theorem R_link {st : St} {S : S} (r : R st S) {c n : Bytes} {ci ni : Id} (hc : AL.lookup st.chans c = some ci)
    (hn : AL.lookup st.nicks n = some ni) (h1 : AL.lookup (getN st ni).chans ci = none) :
    R (link st ci ni) { S with mem := AL.insert S.mem (c, n) {} } := by
  obtain ⟨w, ab⟩ := r
  have lci := w.liveC hc
  have lni := w.liveN hn
  have h2 : AL.lookup (getC st ci).nicks ni = none := by
    cases h : AL.lookup (getC st ci).nicks ni with
    | none => rfl
    | some cell => have := (w.ch_nk ci lci ni cell h).2; rw [h1] at this; cases this
  have hnn := w.nick_name n ni hn
  have hcn := w.chan_name c ci hc
  generalize hs : link st ci ni = s
  have e1 : s.nicks = st.nicks := by subst hs; rfl
  have e2 : s.chans = st.chans := by subst hs; rfl
  have e3 : s.me = st.me := by subst hs; rfl
  have e4 : s.fresh = st.fresh + 1 := by subst hs; rfl
  have e5 : ∀ j, getP s j = if st.fresh = j then {} else getP st j := by
    intro j; subst hs; simp [link, setP]
  have e6 : ∀ j, (getN s j).nick = (getN st j).nick := by
    intro j; subst hs; simp only [link, getN_setN]; split <;> simp_all
  have e7 : ∀ j, (getC s j).name = (getC st j).name := by
    intro j; subst hs; simp only [link, getC_setN, getC_setC]; split <;> simp_all
  have e8 : ∀ j d, AL.lookup (getN s j).chans d =
      if ni = j ∧ ci = d then some st.fresh else AL.lookup (getN st j).chans d := by
    intro j d; subst hs; simp only [link, getN_setN]
    by_cases hj : ni = j
    · subst hj; simp only [if_true, lookup_insert, true_and]
    · simp [hj, setP]
  have e9 : ∀ d j, AL.lookup (getC s d).nicks j =
      if ni = j ∧ ci = d then some st.fresh else AL.lookup (getC st d).nicks j := by
    intro d j; subst hs; simp only [link, getC_setN, getC_setC]
    by_cases hd : ci = d
    · subst hd; simp only [if_true, lookup_insert, and_true]
    · simp [hd, setP]
  have e10 : ∀ d a, AL.lookup (getC s d).lookup a =
      if ci = d ∧ n = a then some ni else AL.lookup (getC st d).lookup a := by
    intro d a; subst hs; simp only [link, getC_setN, getC_setC]
    by_cases hd : ci = d
    · subst hd; simp only [if_true, lookup_insert, true_and, hnn]
    · simp [hd, setP]
  have e11 : ∀ j, absN (getN s j) = absN (getN st j) := by
    intro j; subst hs; simp only [link, getN_setN]; split
    · subst_vars; rfl
    · rfl
  have e12 : ∀ j, absC (getC s j) = absC (getC st j) := by
    intro j; subst hs; simp only [link, getC_setN, getC_setC]; split
    · subst_vars; rfl
    · rfl
  have e13 : ∀ j, ni ≠ j → (getN s j).chans = (getN st j).chans := by
    intro j hj; subst hs; simp [link, hj, setP]
  have e14 : (getN s ni).chans = AL.insert (getN st ni).chans ci st.fresh := by
    subst hs; simp [link]
  have e15 : ∀ j, ci ≠ j → (getC s j).nicks = (getC st j).nicks := by
    intro j hj; subst hs; simp [link, hj, setP]
  have e16 : (getC s ci).nicks = AL.insert (getC st ci).nicks ni st.fresh := by
    subst hs; simp [link]
  clear hs
  have lN : ∀ j, LiveN s j ↔ LiveN st j := by intro j; simp only [LiveN, e1, e6]
  have lC : ∀ j, LiveC s j ↔ LiveC st j := by intro j; simp only [LiveC, e2, e7]
  constructor
  · constructor
    · simp only [e1, e6]; exact w.nick_name
    · simp only [e2, e7]; exact w.chan_name
    · simp only [lN, e3]; exact w.me_live
    · intro i hi; rw [lN] at hi
      by_cases h : ni = i
      · subst h; rw [e14]; exact nodup_insert (w.nk_nodup _ hi) _ _
      · rw [e13 i h]; exact w.nk_nodup i hi
    · intro i hi; rw [lC] at hi
      by_cases h : ci = i
      · subst h; rw [e16]; exact nodup_insert (w.ch_nodup _ hi) _ _
      · rw [e15 i h]; exact w.ch_nodup i hi
    · intro i hi d cell hx
      rw [lN] at hi; rw [e8] at hx; rw [lC, e9]
      split
      · rename_i h; obtain ⟨rfl, rfl⟩ := h; simp at hx; exact ⟨lci, by rw [hx]⟩
      · rename_i h; rw [if_neg h] at hx; exact w.nk_ch i hi d cell hx
    · intro d hd i cell hx
      rw [lC] at hd; rw [e9] at hx; rw [lN, e8]
      split
      · rename_i h; obtain ⟨rfl, rfl⟩ := h; simp at hx; exact ⟨lni, by rw [hx]⟩
      · rename_i h; rw [if_neg h] at hx; exact w.ch_nk d hd i cell hx
    · intro d hd a i
      rw [lC] at hd
      have hw := w.ch_lookup d hd
      simp only [has_eq] at hw
      rw [e10, e6, has_eq, e9]
      by_cases hdc : ci = d
      · subst hdc
        by_cases ha : n = a
        · subst ha
          simp only [true_and, if_true, and_true]
          constructor
          · intro h; cases h; simp [hnn]
          · rintro ⟨h3, h4⟩
            split at h3
            · subst_vars; rfl
            · obtain ⟨cell, hcell⟩ := Option.isSome_iff_exists.1 h3
              have := (w.ch_nk _ hd i cell hcell).1
              unfold LiveN at this; rw [h4, hn] at this; exact this
        · simp only [ha, and_false, if_false, and_true]
          rw [hw]
          have : ∀ (h4 : (getN st i).nick = a), ni ≠ i := by
            intro h4 h; subst h; exact ha (hnn.symm.trans h4)
          constructor
          · rintro ⟨h3, h4⟩
            simp [this h4, h3, h4]
          · rintro ⟨h3, h4⟩
            simp only [this h4, if_false] at h3; exact ⟨h3, h4⟩
      · simp only [hdc, false_and, and_false, if_false]
        exact hw a i
    · intro i hi j hj d d' cell hx hy
      rw [lN] at hi hj; rw [e8] at hx hy
      split at hx
      · rename_i h; obtain ⟨rfl, rfl⟩ := h; cases hx
        split at hy
        · rename_i h; exact h
        · have := w.fresh_cell j hj d' _ hy; idomega
      · split at hy
        · cases hy; have := w.fresh_cell i hi d _ hx; idomega
        · exact w.cell_inj i hi j hj d d' cell hx hy
    · intro a i h; rw [e1] at h; rw [e4]; have := w.fresh_nick a i h; idomega
    · intro a i h; rw [e2] at h; rw [e4]; have := w.fresh_chan a i h; idomega
    · intro i hi d cell hx
      rw [lN] at hi; rw [e8] at hx; rw [e4]
      split at hx
      · cases hx; idomega
      · have := w.fresh_cell i hi d _ hx; idomega
  · constructor
    · simp only [e1, e11]; exact ab.nicks
    · simp only [e2, e12]; exact ab.chans
    · intro cn a
      simp only [lookup_insert, e1, e2, Prod.mk.injEq]
      split
      · rename_i h; obtain ⟨rfl, rfl⟩ := h
        simp [hc, hn, e8, e5]
      · rename_i hne
        rw [ab.mem]
        cases hd : AL.lookup st.chans cn with
        | none => rfl
        | some d =>
          cases hj : AL.lookup st.nicks a with
          | none => rfl
          | some j =>
            simp only [Option.bind_some, e8]
            have : ¬ (ni = j ∧ ci = d) := by
              rintro ⟨rfl, rfl⟩; exact hne ⟨w.chan_inj hc hd, w.nick_inj hn hj⟩
            rw [if_neg this]
            cases hx : AL.lookup (getN st j).chans d with
            | none => rfl
            | some cell =>
              have := w.fresh_cell j (w.liveN hj) d cell hx
              simp only [Option.map_some, e5]
              rw [if_neg (by idomega)]
    · exact nodup_insert ab.mem_nodup _ _
    · rw [e1, e3]; exact ab.me
    · rw [e2]; exact ab.chan_keys

theorem sim_associate {st : St} {S : S} (r : R st S) (c n : Bytes) : Sim st S (.associate c n) := by
  unfold Sim
  have hm := r.2.mem c n
  cases hc : AL.lookup st.chans c with
  | none =>
    simp only [Go.Tracker.step, Spec.Tracker.step, r.2.has_chans, has_eq, hc]
    exact ⟨r, rfl⟩
  | some ci =>
    cases hn : AL.lookup st.nicks n with
    | none =>
      simp only [Go.Tracker.step, Spec.Tracker.step, r.2.has_chans, r.2.has_nicks, has_eq, hc, hn]
      exact ⟨r, rfl⟩
    | some ni =>
      rw [hc, hn] at hm
      simp only [Option.bind_some] at hm
      cases hx : AL.lookup (getN st ni).chans ci with
      | some cell =>
        rw [hx] at hm
        simp only [Go.Tracker.step, Spec.Tracker.step, r.2.has_chans, r.2.has_nicks, has_eq, hc, hn, hx, hm]
        exact ⟨r, rfl⟩
      | none =>
        rw [hx] at hm
        have h2 : AL.lookup (getC st ci).nicks ni = none := by
          cases h : AL.lookup (getC st ci).nicks ni with
          | none => rfl
          | some cell => have := (r.1.ch_nk ci (r.1.liveC hc) ni cell h).2; rw [hx] at this; cases this
        rw [step_associate hc hn ((has_false_iff _ _).2 hx) ((has_false_iff _ _).2 h2)]
        simp only [Spec.Tracker.step, r.2.has_chans, r.2.has_nicks, has_eq, hc, hn, hm]
        exact ⟨R_link r hc hn hx, rfl⟩

end Spec.Tracker
