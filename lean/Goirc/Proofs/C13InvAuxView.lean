import Goirc.Proofs.C13Defs
import Goirc.Proofs.AList
import Goirc.Proofs.TrackerReNick
/-!
# C13, invariant of the model network: the view part, over an abstract ground truth

`VInv me on v`: the view `v` shows exactly what the membership relation `on` (nick, channel) makes
visible to `me`.  Each lemma is one way `serverStep` updates the view, against the matching change
of `on`.
-/
namespace Proofs.C13
open Go Go.Tracker Spec.Tracker Spec.Net

/-! ## `AL.has` of the map operations -/

section
variable {κ ν : Type} [DecidableEq κ]

theorem has_insert_v (m : List (κ × ν)) (k : κ) (v : ν) (k' : κ) :
    AL.has (AL.insert m k v) k' = (decide (k = k') || AL.has m k') := by
  rw [AL.has_eq, AL.has_eq, AL.lookup_insert]; split <;> simp_all

theorem has_erase (m : List (κ × ν)) (k k' : κ) :
    AL.has (AL.erase m k) k' = (!decide (k = k') && AL.has m k') := by
  rw [AL.has_eq, AL.has_eq, AL.lookup_erase]; split <;> simp_all

theorem has_filter_key (m : List (κ × ν)) (p : κ → Bool) (k : κ) :
    AL.has (m.filter (fun e => p e.1)) k = (p k && AL.has m k) := by
  rw [AL.has_eq, AL.has_eq, AL.lookup_filter_key]; split <;> simp_all

theorem has_cons (a : κ) (b : ν) (m : List (κ × ν)) (k : κ) :
    AL.has ((a, b) :: m) k = (decide (a = k) || AL.has m k) := by
  rw [AL.has_eq, AL.has_eq, AL.lookup_cons]; split <;> simp_all

theorem has_nil (k : κ) : AL.has ([] : List (κ × ν)) k = false := rfl

theorem has_append (m m' : List (κ × ν)) (k : κ) :
    AL.has (m ++ m') k = (AL.has m k || AL.has m' k) := by
  induction m with
  | nil => simp [has_nil]
  | cons e m ih => obtain ⟨a, b⟩ := e; simp only [List.cons_append, has_cons, ih, Bool.or_assoc]

theorem has_of_mem {m : List (κ × ν)} {e : κ × ν} (h : e ∈ m) : AL.has m e.1 = true :=
  (AL.has_iff_mem_keys m e.1).2 (List.mem_map.2 ⟨e, h, rfl⟩)

theorem has_iff_exists_mem (m : List (κ × ν)) (k : κ) : AL.has m k = true ↔ ∃ v, (k, v) ∈ m := by
  constructor
  · intro h
    obtain ⟨v, hv⟩ := (AL.has_true_iff m k).1 h
    exact ⟨v, AL.mem_of_lookup hv⟩
  · rintro ⟨v, hv⟩; exact has_of_mem hv
end

/-! ## the view invariant -/

structure VInv (me : Bytes) (on : Bytes → Bytes → Bool) (v : S) : Prop where
  me_eq : v.me = me
  chans : ∀ c, AL.has v.chans c = on me c
  mem : ∀ c u, AL.has v.mem (c, u) = (on me c && on u c)
  nicks : ∀ u, AL.has v.nicks u = true ↔ (u = me ∨ ∃ c, on u c = true ∧ on me c = true)
  mem_nodup : (AL.keys v.mem).Nodup

/-- only what `me` can see matters -/
theorem VInv.congr {me : Bytes} {on on' : Bytes → Bytes → Bool} {v : S} (h : VInv me on v)
    (h1 : ∀ c, on' me c = on me c) (h2 : ∀ u c, on me c = true → on' u c = on u c) : VInv me on' v := by
  refine ⟨h.me_eq, fun c => by rw [h.chans, h1], fun c u => ?_, fun u => ?_, h.mem_nodup⟩
  · rw [h.mem, h1]
    cases hc : on me c
    · rfl
    · rw [h2 u c hc]
  · rw [h.nicks]
    constructor
    · rintro (h3 | ⟨c, h3, h4⟩)
      · exact Or.inl h3
      · exact Or.inr ⟨c, by rw [h2 u c h4]; exact h3, by rw [h1]; exact h4⟩
    · rintro (h3 | ⟨c, h3, h4⟩)
      · exact Or.inl h3
      · rw [h1] at h4
        exact Or.inr ⟨c, by rw [← h2 u c h4]; exact h3, h4⟩

/-- only the key sets matter -/
theorem VInv.of_keys {me : Bytes} {on : Bytes → Bytes → Bool} {v v' : S} (h : VInv me on v)
    (hme : v'.me = v.me) (hc : ∀ c, AL.has v'.chans c = AL.has v.chans c)
    (hm : ∀ k, AL.has v'.mem k = AL.has v.mem k) (hn : ∀ u, AL.has v'.nicks u = AL.has v.nicks u)
    (hnd : (AL.keys v'.mem).Nodup) : VInv me on v' :=
  ⟨by rw [hme, h.me_eq], fun c => by rw [hc, h.chans], fun c u => by rw [hm, h.mem],
   fun u => by rw [hn, h.nicks], hnd⟩

/-! ## somebody else joins a channel the client is on -/

theorem VInv.join_other {me : Bytes} {on on' : Bytes → Bytes → Bool} {v : S} (h : VInv me on v)
    {u c : Bytes} (hc : on me c = true) (hu : u ≠ me) (x : SNick) (p : ChanPrivs)
    (h' : ∀ w c', on' w c' = (on w c' || (decide (w = u) && decide (c' = c)))) :
    VInv me on'
      (let v1 : S := if AL.has v.nicks u then v else { v with nicks := AL.insert v.nicks u x }
       { v1 with mem := AL.insert v1.mem (c, u) p }) := by
  have hme : ∀ c', on' me c' = on me c' := by intro c'; rw [h']; simp [Ne.symm hu]
  constructor
  · show (if AL.has v.nicks u then v else { v with nicks := AL.insert v.nicks u x }).me = me
    split <;> exact h.me_eq
  · intro c'
    show AL.has (if AL.has v.nicks u then v else { v with nicks := AL.insert v.nicks u x }).chans c' = _
    rw [hme, ← h.chans]; split <;> rfl
  · intro c' w
    show AL.has (AL.insert (if AL.has v.nicks u then v else { v with nicks := AL.insert v.nicks u x }).mem (c, u) p) (c', w) = _
    have : (if AL.has v.nicks u then v else { v with nicks := AL.insert v.nicks u x }).mem = v.mem := by split <;> rfl
    rw [this, has_insert_v, h.mem, hme, h']
    grind
  · intro w
    show AL.has (if AL.has v.nicks u then v else { v with nicks := AL.insert v.nicks u x }).nicks w = true ↔ _
    have : AL.has (if AL.has v.nicks u then v else { v with nicks := AL.insert v.nicks u x }).nicks w
        = (decide (u = w) || AL.has v.nicks w) := by
      split
      · rename_i h3; by_cases h4 : u = w
        · subst h4; simp [h3]
        · simp [h4]
      · exact has_insert_v _ _ _ _
    rw [this, Bool.or_eq_true, h.nicks]
    simp only [hme, h', decide_eq_true_eq, Bool.or_eq_true, Bool.and_eq_true]
    constructor
    · rintro (h3 | h3 | ⟨c', h3, h4⟩)
      · exact Or.inr ⟨c, Or.inr ⟨h3.symm, rfl⟩, hc⟩
      · exact Or.inl h3
      · exact Or.inr ⟨c', Or.inl h3, h4⟩
    · rintro (h3 | ⟨c', h3 | h3, h4⟩)
      · exact Or.inr (Or.inl h3)
      · exact Or.inr (Or.inr ⟨c', h3, h4⟩)
      · exact Or.inl h3.1.symm
  · show (AL.keys (AL.insert (if AL.has v.nicks u then v else { v with nicks := AL.insert v.nicks u x }).mem (c, u) p)).Nodup
    have : (if AL.has v.nicks u then v else { v with nicks := AL.insert v.nicks u x }).mem = v.mem := by split <;> rfl
    rw [this]; exact AL.nodup_insert h.mem_nodup _ _

/-! ## updates that keep the key sets -/

structure SameKeys (v r : S) : Prop where
  me_eq : r.me = v.me
  nicks : ∀ u, AL.has r.nicks u = AL.has v.nicks u
  chans : ∀ c, AL.has r.chans c = AL.has v.chans c
  mem : ∀ k, AL.has r.mem k = AL.has v.mem k
  nodup : (AL.keys v.mem).Nodup → (AL.keys r.mem).Nodup

theorem SameKeys.refl (v : S) : SameKeys v v := ⟨rfl, fun _ => rfl, fun _ => rfl, fun _ => rfl, id⟩

theorem SameKeys.trans {a b c : S} (h1 : SameKeys a b) (h2 : SameKeys b c) : SameKeys a c :=
  ⟨h2.me_eq.trans h1.me_eq, fun u => (h2.nicks u).trans (h1.nicks u), fun u => (h2.chans u).trans (h1.chans u),
   fun u => (h2.mem u).trans (h1.mem u), fun h => h2.nodup (h1.nodup h)⟩

theorem VInv.sameKeys {me : Bytes} {on : Bytes → Bytes → Bool} {v r : S} (h : VInv me on v) (hs : SameKeys v r) :
    VInv me on r :=
  h.of_keys hs.me_eq hs.chans hs.mem hs.nicks (hs.nodup h.mem_nodup)

theorem has_insert_of_has_v {κ ν : Type} [DecidableEq κ] (m : List (κ × ν)) (k : κ) (v : ν) (h : AL.has m k = true) (k' : κ) :
    AL.has (AL.insert m k v) k' = AL.has m k' := by
  rw [has_insert_v]; by_cases h1 : k = k'
  · subst h1; simp [h]
  · simp [h1]

theorem has_of_lookup_v {κ ν : Type} [DecidableEq κ] {m : List (κ × ν)} {k : κ} {v : ν} (h : AL.lookup m k = some v) :
    AL.has m k = true := by rw [AL.has_eq, h]; rfl

theorem SameKeys.set_chan (v : S) (c : Bytes) (x : SChan) (h : AL.has v.chans c = true) :
    SameKeys v { v with chans := AL.insert v.chans c x } :=
  ⟨rfl, fun _ => rfl, fun c' => has_insert_of_has_v _ _ _ h c', fun _ => rfl, id⟩

theorem SameKeys.set_nick (v : S) (u : Bytes) (x : SNick) (h : AL.has v.nicks u = true) :
    SameKeys v { v with nicks := AL.insert v.nicks u x } :=
  ⟨rfl, fun c' => has_insert_of_has_v _ _ _ h c', fun _ => rfl, fun _ => rfl, id⟩

theorem SameKeys.set_mem (v : S) (k : Bytes × Bytes) (x : ChanPrivs) (h : AL.has v.mem k = true) :
    SameKeys v { v with mem := AL.insert v.mem k x } :=
  ⟨rfl, fun _ => rfl, fun _ => rfl, fun c' => has_insert_of_has_v _ _ _ h c', fun h => AL.nodup_insert h _ _⟩

theorem SameKeys.viewApplyChange (v : S) (c : Bytes) (chg : ModeChange) : SameKeys v (viewApplyChange v c chg) := by
  cases chg with
  | flag a l =>
    simp only [Spec.Net.viewApplyChange]
    split
    · rename_i r hr; exact SameKeys.set_chan v c _ (has_of_lookup_v hr)
    · exact SameKeys.refl v
  | key a k =>
    simp only [Spec.Net.viewApplyChange]
    split
    · rename_i r hr; exact SameKeys.set_chan v c _ (has_of_lookup_v hr)
    · exact SameKeys.refl v
  | limit a k =>
    simp only [Spec.Net.viewApplyChange]
    split
    · rename_i r hr; exact SameKeys.set_chan v c _ (has_of_lookup_v hr)
    · exact SameKeys.refl v
  | priv a l u =>
    simp only [Spec.Net.viewApplyChange]
    split
    · rename_i r hr; exact SameKeys.set_mem v _ _ (has_of_lookup_v hr)
    · exact SameKeys.refl v
  | ban a m => exact SameKeys.refl v

theorem SameKeys.foldl_viewApplyChange (c : Bytes) (chs : List ModeChange) (v : S) :
    SameKeys v (chs.foldl (fun v chg => Spec.Net.viewApplyChange v c chg) v) := by
  induction chs generalizing v with
  | nil => exact SameKeys.refl v
  | cons a l ih => exact (SameKeys.viewApplyChange v c a).trans (ih _)

theorem SameKeys.foldl_who (users : List (Bytes × NUser)) (l : List (Bytes × ChanPrivs)) (v : S) :
    SameKeys v (l.foldl (fun (acc : S) (mp : Bytes × ChanPrivs) =>
        if mp.1 == acc.me then acc else
        match AL.lookup acc.nicks mp.1, AL.lookup users mp.1 with
        | some r, some x => { acc with nicks := AL.insert acc.nicks mp.1 { r with ident := x.ident, host := x.host, name := x.real } }
        | _, _ => acc) v) := by
  induction l generalizing v with
  | nil => exact SameKeys.refl v
  | cons a l ih =>
    rw [List.foldl_cons]
    refine SameKeys.trans ?_ (ih _)
    split
    · exact SameKeys.refl v
    · split
      · rename_i r x hr hx; exact SameKeys.set_nick v _ _ (has_of_lookup_v hr)
      · exact SameKeys.refl v

/-! ## somebody quits -/

theorem VInv.quit {me : Bytes} {on on' : Bytes → Bytes → Bool} {v : S} (h : VInv me on v)
    {u : Bytes} (hu : u ≠ me) (h' : ∀ w c', on' w c' = (on w c' && !decide (w = u))) :
    VInv me on' { v with nicks := AL.erase v.nicks u, mem := v.mem.filter (fun m => m.1.2 != u) } := by
  have hme : ∀ c', on' me c' = on me c' := by intro c'; rw [h']; simp [Ne.symm hu]
  refine ⟨h.me_eq, fun c => by rw [hme]; exact h.chans c, fun c w => ?_, fun w => ?_, AL.nodup_filter h.mem_nodup _⟩
  · have e : AL.has (v.mem.filter (fun m => m.1.2 != u)) (c, w) = ((w != u) && AL.has v.mem (c, w)) :=
      has_filter_key v.mem (fun k => k.2 != u) (c, w)
    show AL.has (v.mem.filter (fun m => m.1.2 != u)) (c, w) = _
    rw [e, h.mem, hme, h']
    grind
  · show AL.has (AL.erase v.nicks u) w = true ↔ _
    rw [has_erase]
    have := h.nicks w
    simp only [hme, h']
    grind

/-! ## somebody leaves a channel the client is on -/

/-- the nick has no membership in the view -/
def alone (v : S) (u : Bytes) : Bool := (v.mem.filter (fun m => m.1.2 == u)).isEmpty

theorem alone_iff (v : S) (u : Bytes) : alone v u = true ↔ ∀ c, AL.has v.mem (c, u) = false := by
  simp only [alone, List.isEmpty_iff, List.filter_eq_nil_iff, beq_iff_eq]
  constructor
  · intro h c
    cases hh : AL.has v.mem (c, u) with
    | false => rfl
    | true =>
      obtain ⟨p, hp⟩ := (has_iff_exists_mem _ _).1 hh
      exact absurd rfl (h _ hp)
  · intro h e he heq
    have := has_of_mem he
    have e1 : e.1 = (e.1.1, u) := by rw [← heq]
    rw [e1, h] at this
    cases this

theorem viewDrop_spec (v : S) (u : Bytes) :
    (viewDropNickIfAlone v u).chans = v.chans ∧ (viewDropNickIfAlone v u).mem = v.mem ∧
    (viewDropNickIfAlone v u).me = v.me ∧
    ∀ w, AL.has (viewDropNickIfAlone v u).nicks w = (AL.has v.nicks w && !(decide (w = u) && (w != v.me) && alone v w)) := by
  unfold viewDropNickIfAlone
  split
  · rename_i h
    refine ⟨rfl, rfl, rfl, fun w => ?_⟩
    show AL.has (AL.erase v.nicks u) w = _
    rw [has_erase]
    simp only [Bool.and_eq_true] at h
    by_cases h1 : w = u
    · subst h1; simp [alone, h.1, h.2]
    · simp [h1, Ne.symm h1]
  · rename_i h
    refine ⟨rfl, rfl, rfl, fun w => ?_⟩
    by_cases h1 : w = u
    · subst h1
      simp only [alone]
      cases h2 : (w != v.me) <;> cases h3 : (v.mem.filter (fun m => m.1.2 == w)).isEmpty <;> simp_all
    · simp [h1]

theorem foldl_viewDrop (l : List Bytes) (v : S) :
    (l.foldl viewDropNickIfAlone v).chans = v.chans ∧ (l.foldl viewDropNickIfAlone v).mem = v.mem ∧
    (l.foldl viewDropNickIfAlone v).me = v.me ∧
    ∀ w, AL.has (l.foldl viewDropNickIfAlone v).nicks w = (AL.has v.nicks w && !(decide (w ∈ l) && (w != v.me) && alone v w)) := by
  induction l generalizing v with
  | nil => simp
  | cons a l ih =>
    rw [List.foldl_cons]
    obtain ⟨i1, i2, i3, i4⟩ := ih (viewDropNickIfAlone v a)
    obtain ⟨s1, s2, s3, s4⟩ := viewDrop_spec v a
    refine ⟨i1.trans s1, i2.trans s2, i3.trans s3, fun w => ?_⟩
    have e : alone (viewDropNickIfAlone v a) w = alone v w := by simp only [alone, s2]
    rw [i4, s4, s3, e]
    simp only [List.mem_cons]
    grind

theorem VInv.leave {me : Bytes} {on on' : Bytes → Bytes → Bool} {v : S} (h : VInv me on v)
    {u c : Bytes} (hc : on me c = true)
    (h' : ∀ w c', on' w c' = (on w c' && !(decide (c' = c) && decide (w = u)))) :
    VInv me on' (viewLeave v u c) := by
  unfold viewLeave
  split
  · -- the client itself leaves
    rename_i hu
    have hu : u = me := by rw [← h.me_eq]; exact beq_iff_eq.1 hu
    subst hu
    unfold viewLeaveMe
    generalize ho : (v.mem.filter (fun m => m.1.1 == c)).map (·.1.2) = others
    have hoth : ∀ w, w ∈ others ↔ AL.has v.mem (c, w) = true := by
      intro w
      rw [← ho, has_iff_exists_mem]
      simp only [List.mem_map, List.mem_filter, beq_iff_eq]
      constructor
      · rintro ⟨e, ⟨he, h1⟩, h2⟩
        refine ⟨e.2, ?_⟩
        rw [← h1, ← h2]; exact he
      · rintro ⟨p, hp⟩; exact ⟨((c, w), p), ⟨hp, rfl⟩, rfl⟩
    obtain ⟨f1, f2, f3, f4⟩ := foldl_viewDrop others
      { v with chans := AL.erase v.chans c, mem := v.mem.filter (fun m => m.1.1 != c) }
    have em : ∀ c' w, AL.has (v.mem.filter (fun m => m.1.1 != c)) (c', w) = ((c' != c) && AL.has v.mem (c', w)) :=
      fun c' w => has_filter_key v.mem (fun k => k.1 != c) (c', w)
    refine ⟨f3.trans h.me_eq, fun c' => ?_, fun c' w => ?_, fun w => ?_, ?_⟩
    · rw [f1]; show AL.has (AL.erase v.chans c) c' = _
      rw [has_erase, h.chans, h']; grind
    · rw [f2]; show AL.has (v.mem.filter (fun m => m.1.1 != c)) (c', w) = _
      rw [em, h.mem, h', h']; grind
    · rw [f4]
      show (AL.has v.nicks w && !(decide (w ∈ others) && (w != v.me) &&
        alone { v with chans := AL.erase v.chans c, mem := v.mem.filter (fun m => m.1.1 != c) } w)) = true ↔ _
      have hn := h.nicks w
      have ha := alone_iff { v with chans := AL.erase v.chans c, mem := v.mem.filter (fun m => m.1.1 != c) } w
      have ha' : alone { v with chans := AL.erase v.chans c, mem := v.mem.filter (fun m => m.1.1 != c) } w = true ↔
          ∀ c', ((c' != c) && (on v.me c' && on w c')) = false := by
        rw [ha]; constructor
        · intro h1 c'; rw [← h.me_eq] at h; rw [← h.mem, ← em]; exact h1 c'
        · intro h1 c'; show AL.has (v.mem.filter (fun m => m.1.1 != c)) (c', w) = false
          rw [em, h.mem, ← h.me_eq]; exact h1 c'
      have ho := hoth w
      rw [h.mem] at ho
      simp only [h']
      rw [h.me_eq] at ha' ⊢
      generalize alone { v with chans := AL.erase v.chans c, mem := v.mem.filter (fun m => m.1.1 != c) } w = al at ha'
      clear ha f4 f2 f1 f3
      grind
    · rw [f2]; exact AL.nodup_filter h.mem_nodup _
  · -- somebody else leaves
    rename_i hu
    have hu : u ≠ me := by rw [← h.me_eq]; intro h1; exact hu (beq_iff_eq.2 h1)
    obtain ⟨f1, f2, f3, f4⟩ := viewDrop_spec { v with mem := AL.erase v.mem (c, u) } u
    refine ⟨f3.trans h.me_eq, fun c' => ?_, fun c' w => ?_, fun w => ?_, ?_⟩
    · rw [f1]; show AL.has v.chans c' = _
      rw [h.chans, h']; grind
    · rw [f2]; show AL.has (AL.erase v.mem (c, u)) (c', w) = _
      rw [has_erase, h.mem, h', h']; grind
    · rw [f4]
      show (AL.has v.nicks w && !(decide (w = u) && (w != v.me) && alone { v with mem := AL.erase v.mem (c, u) } w)) = true ↔ _
      have hn := h.nicks w
      have ha' : alone { v with mem := AL.erase v.mem (c, u) } w = true ↔
          ∀ c', (!decide ((c, u) = (c', w)) && (on me c' && on w c')) = false := by
        rw [alone_iff]; constructor
        · intro h1 c'; rw [← h.mem, ← has_erase]; exact h1 c'
        · intro h1 c'; show AL.has (AL.erase v.mem (c, u)) (c', w) = false
          rw [has_erase, h.mem]; exact h1 c'
      simp only [h']
      generalize alone { v with mem := AL.erase v.mem (c, u) } w = al at ha' ⊢
      rw [h.me_eq]
      clear f4 f2 f1 f3
      grind
    · rw [f2]; exact AL.nodup_erase h.mem_nodup _

/-! ## a visible nick change -/

theorem VInv.nick {me : Bytes} {on on' : Bytes → Bytes → Bool} {v : S} (h : VInv me on v)
    {u nw : Bytes} {r : SNick} (hne : u ≠ nw) (hfresh : ∀ c, on nw c = false) (hnm : nw ≠ me)
    (hr : AL.has v.nicks u = true)
    (h' : ∀ w c, on' w c = if w = nw then on u c else if w = u then false else on w c) :
    VInv (if u == me then nw else me) on'
      { v with nicks := AL.insert (AL.erase v.nicks u) nw r,
               mem := v.mem.map (fun m => if m.1.2 == u then ((m.1.1, nw), m.2) else m),
               me := if v.me == u then nw else v.me } := by
  have hme : ∀ c, on' (if u == me then nw else me) c = on me c := by
    intro c; rw [h']
    by_cases h1 : u = me
    · subst h1; simp
    · have : ¬ me = u := fun h2 => h1 h2.symm
      simp [h1, this, Ne.symm hnm]
  have hfree : ∀ e ∈ v.mem, e.1.2 ≠ nw := by
    intro e he h1
    have := has_of_mem he
    have e1 : e.1 = (e.1.1, nw) := by rw [← h1]
    rw [e1, h.mem, hfresh] at this
    simp at this
  refine ⟨?_, fun c => ?_, fun c w => ?_, fun w => ?_, nodup_renKey v.mem hfree h.mem_nodup⟩
  · show (if v.me == u then nw else v.me) = _
    rw [h.me_eq]; by_cases h1 : u = me
    · subst h1; simp
    · have : ¬ me = u := fun h2 => h1 h2.symm
      simp [h1, this]
  · rw [hme]; exact h.chans c
  · show AL.has (v.mem.map (renKey u nw)) (c, w) = _
    rw [AL.has_eq, lookup_renKey hne v.mem hfree, hme, h']
    split
    · rw [← AL.has_eq, h.mem]
    · split
      · simp
      · rw [← AL.has_eq, h.mem]
  · show AL.has (AL.insert (AL.erase v.nicks u) nw r) w = true ↔ _
    rw [has_insert_v, has_erase]
    have hn := h.nicks w
    have hu := h.nicks u
    rw [hr] at hu
    simp only [hme, h']
    by_cases h1 : u = me
    · subst h1; simp only [beq_self_eq_true, if_true]; grind
    · have : (u == me) = false := by simp [h1]
      simp only [this]; grind

/-! ## the client joins a channel -/

/-- one name of the NAMES reply -/
def joinF (c : Bytes) (acc : S) (mp : Bytes × ChanPrivs) : S :=
  let acc1 := if AL.has acc.nicks mp.1 then acc else { acc with nicks := AL.insert acc.nicks mp.1 {} }
  { acc1 with mem := AL.insert acc1.mem (c, mp.1) (highest mp.2) }

theorem joinF_spec (c : Bytes) (acc : S) (mp : Bytes × ChanPrivs) :
    (joinF c acc mp).chans = acc.chans ∧ (joinF c acc mp).me = acc.me ∧
    (∀ w, AL.has (joinF c acc mp).nicks w = (AL.has acc.nicks w || decide (mp.1 = w))) ∧
    (joinF c acc mp).mem = AL.insert acc.mem (c, mp.1) (highest mp.2) := by
  by_cases h : AL.has acc.nicks mp.1 = true
  · have e : joinF c acc mp = { acc with mem := AL.insert acc.mem (c, mp.1) (highest mp.2) } := by
      simp only [joinF, h, if_true]
    rw [e]
    refine ⟨rfl, rfl, fun w => ?_, rfl⟩
    by_cases h1 : mp.1 = w
    · subst h1; simp [h]
    · simp [h1]
  · have e : joinF c acc mp = { acc with nicks := AL.insert acc.nicks mp.1 {}, mem := AL.insert acc.mem (c, mp.1) (highest mp.2) } := by
      simp only [joinF, h]; rfl
    rw [e]
    refine ⟨rfl, rfl, fun w => ?_, rfl⟩
    show AL.has (AL.insert acc.nicks mp.1 {}) w = _
    rw [has_insert_v, Bool.or_comm]

theorem foldl_joinF (c : Bytes) (l : List (Bytes × ChanPrivs)) (acc : S) :
    (l.foldl (joinF c) acc).chans = acc.chans ∧ (l.foldl (joinF c) acc).me = acc.me ∧
    (∀ w, AL.has (l.foldl (joinF c) acc).nicks w = (AL.has acc.nicks w || AL.has l w)) ∧
    (∀ c' w, AL.has (l.foldl (joinF c) acc).mem (c', w) = (AL.has acc.mem (c', w) || (decide (c' = c) && AL.has l w))) ∧
    ((AL.keys acc.mem).Nodup → (AL.keys (l.foldl (joinF c) acc).mem).Nodup) := by
  induction l generalizing acc with
  | nil => simp [has_nil]
  | cons a l ih =>
    obtain ⟨a1, a2⟩ := a
    rw [List.foldl_cons]
    obtain ⟨i1, i2, i3, i4, i5⟩ := ih (joinF c acc (a1, a2))
    obtain ⟨s1, s2, s3, s4⟩ := joinF_spec c acc (a1, a2)
    refine ⟨i1.trans s1, i2.trans s2, fun w => ?_, fun c' w => ?_, fun h => ?_⟩
    · rw [i3, s3, has_cons, Bool.or_assoc]
    · rw [i4, s4, has_insert_v, has_cons]; grind
    · apply i5; rw [s4]; exact AL.nodup_insert h _ _

theorem VInv.join_me {me : Bytes} {on on' : Bytes → Bytes → Bool} {v : S} (h : VInv me on v)
    {c : Bytes} (ms : List (Bytes × ChanPrivs)) (sc : SChan) (hme : AL.has ms me = true)
    (hc : on me c = false)
    (h' : ∀ w c', on' w c' = if c' = c then AL.has ms w else on w c') :
    VInv me on' (ms.foldl (joinF c) { v with chans := AL.insert v.chans c sc }) := by
  obtain ⟨f1, f2, f3, f4, f5⟩ := foldl_joinF c ms { v with chans := AL.insert v.chans c sc }
  refine ⟨f2.trans h.me_eq, fun c' => ?_, fun c' w => ?_, fun w => ?_, f5 h.mem_nodup⟩
  · rw [f1]; show AL.has (AL.insert v.chans c sc) c' = _
    rw [has_insert_v, h.chans, h']; grind
  · rw [f4]; show (AL.has v.mem (c', w) || _) = _
    rw [h.mem, h', h']; grind
  · rw [f3]; show (AL.has v.nicks w || _) = true ↔ _
    have hn := h.nicks w
    simp only [h']
    grind

end Proofs.C13
