import Goirc.Spec.Register
import Goirc.Proofs.Bytes
import Goirc.Proofs.Commands
/-!
Helper lemmas for C20.

The main one: setting `cfg.pass` commutes with every built-in handler except `h_REGISTER`
(`h (setPass p c) l = (h c l).withPass p`): such a handler's output, panic flag and CONNECTED flag do
not depend on the password, and the client it leaves differs only in the password.
-/
namespace Go.Client
open Go Go.Tracker

def setPass (p : Bytes) (c : Client) : Client := { c with cfg := { c.cfg with pass := p } }
def HR.withPass (p : Bytes) (r : HR) : HR := { r with c := setPass p r.c }

variable (p : Bytes)

@[simp] theorem setPass_st (c : Client) : (setPass p c).st = c.st := rfl
@[simp] theorem setPass_ext (c : Client) : (setPass p c).ext = c.ext := rfl
@[simp] theorem setPass_newNick (c : Client) : (setPass p c).newNick = c.newNick := rfl
@[simp] theorem setPass_saslRemaining (c : Client) : (setPass p c).saslRemaining = c.saslRemaining := rfl
@[simp] theorem setPass_meNil (c : Client) : (setPass p c).cfg.meNil = c.cfg.meNil := rfl
@[simp] theorem setPass_meNick (c : Client) : (setPass p c).cfg.meNick = c.cfg.meNick := rfl
@[simp] theorem setPass_meName (c : Client) : (setPass p c).cfg.meName = c.cfg.meName := rfl
@[simp] theorem setPass_sasl (c : Client) : (setPass p c).cfg.sasl = c.cfg.sasl := rfl
@[simp] theorem setPass_version (c : Client) : (setPass p c).cfg.version = c.cfg.version := rfl
@[simp] theorem emit_setPass (c : Client) (cmd : Cmd) : emit (setPass p c) cmd = emit c cmd := rfl
@[simp] theorem tk_setPass (c : Client) (o : Op) : tk (setPass p c) o = (setPass p (tk c o).1, (tk c o).2) := by
  unfold tk; cases h : c.st <;> simp [h, setPass]
@[simp] theorem refreshMe_setPass (c : Client) : refreshMe (setPass p c) = setPass p (refreshMe c) := by
  unfold refreshMe; cases h : c.st <;> simp [h, setPass]
@[simp] theorem setMeFrom_setPass (c : Client) (n : NickSnap) : setMeFrom (setPass p c) n = setPass p (setMeFrom c n) := rfl
@[simp] theorem isMe_setPass (c : Client) (nk : Option NickSnap) : isMe (setPass p c) nk = isMe c nk := by
  unfold isMe; cases nk <;> simp


macro "pass_comm" : tactic => `(tactic|
  (try simp only [tk_setPass, isMe_setPass, refreshMe_setPass, emit_setPass, setMeFrom_setPass,
     setPass_st, setPass_ext, setPass_newNick, setPass_saslRemaining, setPass_meNil, setPass_meNick,
     setPass_meName, setPass_sasl, setPass_version]
   (repeat' split) <;> (try simp_all [HR.withPass]) <;> (repeat' split) <;> simp_all [HR.withPass, setPass]))

theorem h_TOPIC_setPass (c : Client) (l : Line) : h_TOPIC (setPass p c) l = (h_TOPIC c l).withPass p := by
  unfold h_TOPIC; pass_comm
theorem h_JOIN_setPass (c : Client) (l : Line) : h_JOIN (setPass p c) l = (h_JOIN c l).withPass p := by
  unfold h_JOIN; pass_comm
theorem h_PART_setPass (c : Client) (l : Line) : h_PART (setPass p c) l = (h_PART c l).withPass p := by
  unfold h_PART; pass_comm
theorem h_KICK_setPass (c : Client) (l : Line) : h_KICK (setPass p c) l = (h_KICK c l).withPass p := by
  unfold h_KICK; pass_comm
theorem h_QUIT_setPass (c : Client) (l : Line) : h_QUIT (setPass p c) l = (h_QUIT c l).withPass p := by
  unfold h_QUIT; pass_comm
theorem h_MODE_setPass (c : Client) (l : Line) : h_MODE (setPass p c) l = (h_MODE c l).withPass p := by
  unfold h_MODE; pass_comm
theorem h_STNICK_setPass (c : Client) (l : Line) : h_STNICK (setPass p c) l = (h_STNICK c l).withPass p := by
  unfold h_STNICK; pass_comm
theorem h_311_setPass (c : Client) (l : Line) : h_311 (setPass p c) l = (h_311 c l).withPass p := by
  unfold h_311; pass_comm
theorem h_324_setPass (c : Client) (l : Line) : h_324 (setPass p c) l = (h_324 c l).withPass p := by
  unfold h_324; pass_comm
theorem h_332_setPass (c : Client) (l : Line) : h_332 (setPass p c) l = (h_332 c l).withPass p := by
  unfold h_332; pass_comm
theorem h_352_setPass (c : Client) (l : Line) : h_352 (setPass p c) l = (h_352 c l).withPass p := by
  unfold h_352; pass_comm
theorem h_671_setPass (c : Client) (l : Line) : h_671 (setPass p c) l = (h_671 c l).withPass p := by
  unfold h_671; pass_comm

theorem h_PING_setPass (c : Client) (l : Line) : h_PING (setPass p c) l = (h_PING c l).withPass p := by
  unfold h_PING; pass_comm
theorem h_001_setPass (c : Client) (l : Line) : h_001 (setPass p c) l = (h_001 c l).withPass p := by
  unfold h_001; pass_comm
theorem h_433_setPass (c : Client) (l : Line) : h_433 (setPass p c) l = (h_433 c l).withPass p := by
  unfold h_433; pass_comm
theorem h_CTCP_setPass (c : Client) (l : Line) : h_CTCP (setPass p c) l = (h_CTCP c l).withPass p := by
  unfold h_CTCP; pass_comm
theorem h_NICK_setPass (c : Client) (l : Line) : h_NICK (setPass p c) l = (h_NICK c l).withPass p := by
  unfold h_NICK; pass_comm
theorem h_410_setPass (c : Client) (l : Line) : h_410 (setPass p c) l = (h_410 c l).withPass p := by
  unfold h_410; pass_comm
theorem h_AUTHENTICATE_setPass (c : Client) (l : Line) : h_AUTHENTICATE (setPass p c) l = (h_AUTHENTICATE c l).withPass p := by
  unfold h_AUTHENTICATE; pass_comm
theorem h_903_setPass (c : Client) (l : Line) : h_903 (setPass p c) l = (h_903 c l).withPass p := by
  unfold h_903; pass_comm
theorem h_904_setPass (c : Client) (l : Line) : h_904 (setPass p c) l = (h_904 c l).withPass p := by
  unfold h_904; pass_comm
theorem h_908_setPass (c : Client) (l : Line) : h_908 (setPass p c) l = (h_908 c l).withPass p := by
  unfold h_908; pass_comm


theorem negotiate_setPass (c : Client) (adv : List Bytes) : negotiate (setPass p c) adv = (negotiate c adv).withPass p := by
  unfold negotiate
  simp only []
  rw [apply_ite (HR.withPass p)]
  split
  · rename_i h; exact (if_pos h).symm
  · rename_i h; exact (if_neg h).symm

theorem capAckLoop_setPass (c : Client) (caps out : List Bytes) (got : Bool) :
    capAckLoop (setPass p c) caps out got =
      (setPass p (capAckLoop c caps out got).1, (capAckLoop c caps out got).2.1, (capAckLoop c caps out got).2.2) := by
  induction caps generalizing c out got with
  | nil => rfl
  | cons cap rest ih =>
    unfold capAckLoop
    simp only []
    cases hs : c.cfg.sasl with
    | none =>
      have : (setPass p c).cfg.sasl = none := hs
      simp only [this]
      exact ih { c with curr := capAdd c.curr [cap] } _ _
    | some s =>
      have : (setPass p c).cfg.sasl = some s := hs
      simp only [this]
      split
      · exact ih { c with curr := capAdd c.curr [cap], saslRemaining := some (saslStart s).2 } _ _
      · exact ih { c with curr := capAdd c.curr [cap] } _ _

theorem handleCapAck_setPass (c : Client) (caps : List Bytes) : handleCapAck (setPass p c) caps = (handleCapAck c caps).withPass p := by
  unfold handleCapAck
  rw [capAckLoop_setPass]
  simp only [HR.withPass]
  split <;> rfl

theorem h_CAP_setPass (c : Client) (l : Line) : h_CAP (setPass p c) l = (h_CAP c l).withPass p := by
  unfold h_CAP handleCapNak
  simp only [negotiate_setPass, handleCapAck_setPass]
  pass_comm


theorem names353_setPass (c : Client) (chn : Bytes) (ws : List Bytes) :
    names353 (setPass p c) chn ws = setPass p (names353 c chn ws) := by
  induction ws generalizing c with
  | nil => rfl
  | cons w rest ih =>
    unfold names353
    cases w with
    | nil => exact ih c
    | cons b tl =>
      simp only [tk_setPass]
      rw [← ih]
      congr 1
      (repeat' split) <;> simp_all

theorem h_353_setPass (c : Client) (l : Line) : h_353 (setPass p c) l = (h_353 c l).withPass p := by
  unfold h_353
  simp only [tk_setPass, names353_setPass]
  pass_comm


theorem ite_some_cases {α : Type} {P : Prop} [Decidable P] {a : α} {e : Option α} {h : α}
    (hh : (if P then some a else e) = some h) : (P ∧ a = h) ∨ (¬P ∧ e = some h) := by
  by_cases hp : P
  · rw [if_pos hp] at hh; exact Or.inl ⟨hp, Option.some.inj hh⟩
  · rw [if_neg hp] at hh; exact Or.inr ⟨hp, hh⟩

theorem intHandler_setPass (ev : Bytes) (hne : ev ≠ lit "register") (h : Client → Line → HR)
    (hh : intHandler ev = some h) (c : Client) (l : Line) : h (setPass p c) l = (h c l).withPass p := by
  unfold intHandler at hh
  rcases ite_some_cases hh with ⟨he, _⟩ | ⟨_, hh⟩
  · exact absurd (by simpa using he) hne
  rcases ite_some_cases hh with ⟨_, rfl⟩ | ⟨_, hh⟩
  · exact h_001_setPass p c l
  rcases ite_some_cases hh with ⟨_, rfl⟩ | ⟨_, hh⟩
  · exact h_433_setPass p c l
  rcases ite_some_cases hh with ⟨_, rfl⟩ | ⟨_, hh⟩
  · exact h_CTCP_setPass p c l
  rcases ite_some_cases hh with ⟨_, rfl⟩ | ⟨_, hh⟩
  · exact h_NICK_setPass p c l
  rcases ite_some_cases hh with ⟨_, rfl⟩ | ⟨_, hh⟩
  · exact h_PING_setPass p c l
  rcases ite_some_cases hh with ⟨_, rfl⟩ | ⟨_, hh⟩
  · exact h_CAP_setPass p c l
  rcases ite_some_cases hh with ⟨_, rfl⟩ | ⟨_, hh⟩
  · exact h_410_setPass p c l
  rcases ite_some_cases hh with ⟨_, rfl⟩ | ⟨_, hh⟩
  · exact h_AUTHENTICATE_setPass p c l
  rcases ite_some_cases hh with ⟨_, rfl⟩ | ⟨_, hh⟩
  · exact h_903_setPass p c l
  rcases ite_some_cases hh with ⟨_, rfl⟩ | ⟨_, hh⟩
  · exact h_904_setPass p c l
  rcases ite_some_cases hh with ⟨_, rfl⟩ | ⟨_, hh⟩
  · exact h_908_setPass p c l
  cases hh

theorem stHandler_setPass (ev : Bytes) (h : Client → Line → HR)
    (hh : stHandler ev = some h) (c : Client) (l : Line) : h (setPass p c) l = (h c l).withPass p := by
  unfold stHandler at hh
  rcases ite_some_cases hh with ⟨_, rfl⟩ | ⟨_, hh⟩
  · exact h_JOIN_setPass p c l
  rcases ite_some_cases hh with ⟨_, rfl⟩ | ⟨_, hh⟩
  · exact h_KICK_setPass p c l
  rcases ite_some_cases hh with ⟨_, rfl⟩ | ⟨_, hh⟩
  · exact h_MODE_setPass p c l
  rcases ite_some_cases hh with ⟨_, rfl⟩ | ⟨_, hh⟩
  · exact h_STNICK_setPass p c l
  rcases ite_some_cases hh with ⟨_, rfl⟩ | ⟨_, hh⟩
  · exact h_PART_setPass p c l
  rcases ite_some_cases hh with ⟨_, rfl⟩ | ⟨_, hh⟩
  · exact h_QUIT_setPass p c l
  rcases ite_some_cases hh with ⟨_, rfl⟩ | ⟨_, hh⟩
  · exact h_TOPIC_setPass p c l
  rcases ite_some_cases hh with ⟨_, rfl⟩ | ⟨_, hh⟩
  · exact h_311_setPass p c l
  rcases ite_some_cases hh with ⟨_, rfl⟩ | ⟨_, hh⟩
  · exact h_324_setPass p c l
  rcases ite_some_cases hh with ⟨_, rfl⟩ | ⟨_, hh⟩
  · exact h_332_setPass p c l
  rcases ite_some_cases hh with ⟨_, rfl⟩ | ⟨_, hh⟩
  · exact h_352_setPass p c l
  rcases ite_some_cases hh with ⟨_, rfl⟩ | ⟨_, hh⟩
  · exact h_353_setPass p c l
  rcases ite_some_cases hh with ⟨_, rfl⟩ | ⟨_, hh⟩
  · exact h_671_setPass p c l
  cases hh

/-- the two stages of `dispatchInternal`, named -/
def dispHead (ev : Bytes) (c : Client) (l : Line) : HR :=
  match intHandler ev with
  | some h => h c l
  | none => { c := c }

def dispTail (ev : Bytes) (l : Line) (r1 : HR) : HR :=
  match r1.c.st, stHandler ev with
  | some _, some h =>
    let r2 := h r1.c l
    { c := r2.c, out := r1.out ++ r2.out, panicked := r1.panicked || r2.panicked, connected := r1.connected || r2.connected }
  | _, _ => r1

theorem dispatchInternal_eq (c : Client) (l : Line) :
    dispatchInternal c l = dispTail (toLower c.ext l.cmd) l (dispHead (toLower c.ext l.cmd) c l) := rfl

theorem dispHead_setPass (ev : Bytes) (hne : ev ≠ lit "register") (c : Client) (l : Line) :
    dispHead ev (setPass p c) l = (dispHead ev c l).withPass p := by
  unfold dispHead
  cases hi : intHandler ev with
  | none => rfl
  | some h => exact intHandler_setPass p ev hne h hi c l

theorem dispTail_withPass (ev : Bytes) (l : Line) (r1 : HR) :
    dispTail ev l (r1.withPass p) = (dispTail ev l r1).withPass p := by
  unfold dispTail
  have hst' : (HR.withPass p r1).c.st = r1.c.st := rfl
  rw [hst']
  cases hs : stHandler ev with
  | none => cases r1.c.st <;> rfl
  | some g =>
    cases hst : r1.c.st with
    | none => rfl
    | some s =>
      have hg : g (setPass p r1.c) l = (g r1.c l).withPass p := stHandler_setPass p ev g hs r1.c l
      show ({ c := (g (setPass p r1.c) l).c, out := r1.out ++ (g (setPass p r1.c) l).out,
              panicked := r1.panicked || (g (setPass p r1.c) l).panicked,
              connected := r1.connected || (g (setPass p r1.c) l).connected } : HR) = _
      rw [hg]; rfl

theorem dispatchInternal_setPass (c : Client) (l : Line) (hne : toLower c.ext l.cmd ≠ lit "register") :
    dispatchInternal (setPass p c) l = (dispatchInternal c l).withPass p := by
  rw [dispatchInternal_eq, dispatchInternal_eq, setPass_ext, dispHead_setPass p _ hne, dispTail_withPass]

end Go.Client

namespace Spec.Register
open Go Go.Client

/-- whatever follows `PASS ` on the line `Pass` builds, `write` logs the mask -/
theorem logOf_pass (p : Bytes) : logOf (cutNewLines (lit "PASS " ++ p)) = MASK := by
  have e : lit "PASS " ++ p = lit "PASS" ++ (32 :: p) := rfl
  have h := cutNewLines_prefix (lit "PASS") (32 :: p) (by decide) (by decide)
  unfold logOf
  rw [e, h]; rfl

/-- the records logged for the registration lines, when a password is set: the PASS line is the mask,
and nothing else depends on the password -/
theorem register_log (c : Client) (l : Line) (p : Bytes) (hp : p ≠ []) :
    (h_REGISTER (setPass p c) l).out.map logOf =
      ((if c.cfg.capNeg then emit c (.cap CAP_LS []) else []).map logOf ++ [MASK]) ++
        (if c.cfg.meNil then [] else
          (emit c (.nick c.cfg.meNick) ++ emit c (.user c.cfg.meIdent c.cfg.meName)).map logOf) := by
  have hp' : ((setPass p c).cfg.pass != []) = true := by
    show (p != []) = true
    simpa using hp
  have hpass : (emit (setPass p c) (.pass (setPass p c).cfg.pass)).map logOf = [MASK] := by
    show [logOf (cutNewLines (lit "PASS " ++ p))] = [MASK]
    rw [logOf_pass]
  unfold h_REGISTER
  simp only [hp', if_true, setPass_meNil, emit_setPass, setPass_meNick]
  have hcap : (setPass p c).cfg.capNeg = c.cfg.capNeg := rfl
  have hid : (setPass p c).cfg.meIdent = c.cfg.meIdent := rfl
  have hnm : (setPass p c).cfg.meName = c.cfg.meName := rfl
  rw [hcap, hid, hnm]
  rw [← emit_setPass p c (.pass (setPass p c).cfg.pass)]
  cases c.cfg.meNil
  · simp only [Bool.false_eq_true, if_false, List.map_append, hpass, List.append_assoc]
  · simp only [if_true, List.map_append, hpass, List.append_nil]

end Spec.Register

