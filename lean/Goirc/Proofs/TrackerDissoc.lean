import Goirc.Proofs.TrackerDelChan
/-! Step simulation for `DelChannel`, `Dissociate` and `Wipe`. -/
namespace Spec.Tracker
open Go.Tracker AL

theorem delChanObj_snap (st : St) (c : Id) :
    (getC (delChanObj st c) c).name = (getC st c).name ∧
    absC (getC (delChanObj st c) c) = absC (getC st c) ∧
    (getC (delChanObj st c) c).nicks = [] := by
  rw [delChanObj_eq st c]
  refine ⟨?_, ?_, ?_⟩
  · simp
  · simp [dissocAll_absC]
  · simp only [getC_mk, hgetC_proj]
    rw [dissocAll_cnicks_self, foldl_erase_keys_nil _ _ (fun k hk => hk)]

theorem sim_delChannel {st : St} {S : S} (r : R st S) (c : Bytes) : Sim st S (.delChannel c) := by
  unfold Sim
  simp only [Go.Tracker.step, Spec.Tracker.step]
  have hS := r.2.chans c
  cases h : AL.lookup st.chans c with
  | none => rw [h] at hS; simp only [hS, Option.map_none]; exact ⟨r, trivial⟩
  | some i =>
    rw [h] at hS; simp only [hS, Option.map_some]
    refine ⟨R_delChanObj r h, ?_⟩
    obtain ⟨h1, h2, h3⟩ := delChanObj_snap st i
    simp only [absC, SChan.mk.injEq] at h2
    refine ⟨?_, h2.1, h2.2, ?_⟩
    · exact h1.trans (r.1.chan_name c i h)
    · simp only [Go.Tracker.chanSnap, h3, List.map_nil]; exact List.Perm.refl _

theorem fst_ite {α β : Type} (c : Prop) [Decidable c] (a b : α) (x : β) :
    (if c then (a, x) else (b, x)).fst = if c then a else b := by split <;> rfl
theorem snd_ite {α β : Type} (c : Prop) [Decidable c] (a b : α) (x : β) :
    (if c then (a, x) else (b, x)).snd = x := by split <;> rfl

theorem sim_dissociate {st : St} {S : S} (r : R st S) (c n : Bytes) : Sim st S (.dissociate c n) := by
  unfold Sim
  have hm := r.2.mem c n
  cases hc : AL.lookup st.chans c with
  | none =>
    simp only [Go.Tracker.step, Spec.Tracker.step, r.2.has_chans, has_eq, hc]
    exact ⟨r, trivial⟩
  | some ci =>
    cases hn : AL.lookup st.nicks n with
    | none =>
      simp only [Go.Tracker.step, Spec.Tracker.step, r.2.has_chans, r.2.has_nicks, has_eq, hc, hn]
      exact ⟨r, trivial⟩
    | some ni =>
      rw [hc, hn] at hm
      simp only [Option.bind_some] at hm
      cases hx : AL.lookup (getN st ni).chans ci with
      | none =>
        rw [hx] at hm
        simp only [Go.Tracker.step, Spec.Tracker.step, r.2.has_chans, r.2.has_nicks, has_eq, hc, hn, hx, hm]
        exact ⟨r, trivial⟩
      | some cell =>
        rw [hx] at hm
        by_cases hme : ni = st.me
        · have hme2 : (n == S.me) = true := by simpa using (Abs.me_iff r.1 r.2 hn).1 hme
          simp only [Go.Tracker.step, Spec.Tracker.step, r.2.has_chans, r.2.has_nicks, has_eq, hc, hn, hx, hm,
            hme2]
          simp only [Option.map_some, Option.isSome_some, Bool.not_true, Bool.false_eq_true, if_false, if_true,
            Bool.and_self, hme]
          exact ⟨R_delChanObj r hc, trivial⟩
        · have hme2 : ¬ n = S.me := fun h2 => hme ((Abs.me_iff r.1 r.2 hn).2 h2)
          have hr := R_dissoc1 r hc hn
          have e1 : dissoc1 st ci ni = (if (getN (unlink st ci ni) ni).chans.isEmpty then delNickObj (unlink st ci ni) ni
              else unlink st ci ni) := by
            unfold dissoc1
            have : (ni != (unlink st ci ni).me) = true := by simpa using hme
            simp only [this, Bool.and_true]
          have e2 : sdissoc1 S c n = (if (memberships { S with mem := AL.erase S.mem (c, n) } n).isEmpty
              then dropNick { S with mem := AL.erase S.mem (c, n) } n else { S with mem := AL.erase S.mem (c, n) }) := by
            unfold sdissoc1
            have : (n != S.me) = true := by simpa using hme2
            simp only [this, Bool.and_true]
          rw [e1, e2] at hr
          simp only [Go.Tracker.step, Spec.Tracker.step, r.2.has_chans, r.2.has_nicks, has_eq, hc, hn, hx, hm, hme]
          simp only [Option.map_some, Option.isSome_some, Bool.not_true, Bool.false_eq_true, if_false, if_true,
            Bool.and_self, beq_iff_eq, hme2]
          unfold unlink at hr
          rw [fst_ite, fst_ite, snd_ite, snd_ite]
          exact ⟨hr, trivial⟩

/-- one iteration of `Wipe` -/
def wipeStep (st : St) (cn : Bytes) : St :=
  match AL.lookup st.chans cn with
  | some ci => delChanObj st ci
  | none => st

theorem R_wipeStep {st : St} {S : S} (r : R st S) (cn : Bytes) : R (wipeStep st cn) (dropChan S cn) := by
  unfold wipeStep
  cases hc : AL.lookup st.chans cn with
  | some ci => exact R_delChanObj r hc
  | none =>
    simp only
    rw [dropChan_absent]
    · exact r
    · rw [r.2.chans, hc]; rfl
    · intro b p hm
      have := lookup_of_mem r.2.mem_nodup hm
      rw [r.2.mem_iff] at this
      obtain ⟨c, _, _, h1, _⟩ := this
      rw [hc] at h1; cases h1

theorem R_wipeFold (l : List Bytes) : ∀ (st : St) (S : S), R st S →
    R (l.foldl wipeStep st) (l.foldl (fun T c => dropChan T c) S) := by
  induction l with
  | nil => intro st S r; exact r
  | cons c l ih => intro st S r; exact ih _ _ (R_wipeStep r c)

theorem sim_wipe {st : St} {S : S} (r : R st S) : Sim st S .wipe := by
  unfold Sim
  simp only [Go.Tracker.step, Spec.Tracker.step]
  refine ⟨?_, trivial⟩
  rw [r.2.chan_keys]
  exact R_wipeFold _ st S r

end Spec.Tracker
