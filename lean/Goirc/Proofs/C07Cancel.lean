import Goirc.Model.Life
import Goirc.Proofs.C07
/-!
# Helper lemmas for C07: a cancelled context always gets its teardown started

Defect 12 (fix 9105b13) was a state in which the context is cancelled and nothing of the connection can move: `send`
inside a write to a peer that has stopped reading, `recv` inside a read, `runLoop` inside a handler that waits for room
in the output queue. The model now has the stalled peer (`peerStall`) and the watchdog goroutine (`watchFire`).
-/
namespace Proofs.C07Cancel
open Go.Life Proofs.C07

/-- the steps that lead from "cancelled" to "a closer has passed the test-and-clear": the watchdog firing, a closer
taking the mutex and testing, and a Connect that holds the mutex being refused (the client is connected) -/
def isCloser : Label → Bool
  | .watchFire _ | .xLock _ | .xTest _ | .cRefuse _ => true
  | _ => false

structure Inv2 (s : St) : Prop where
  /-- the recorded holder of the mutex is at a "holds the mutex" program counter -/
  held : ∀ u, s.mu = some u → holds (s.thr u) = true
  /-- once the watchdog of a live connection has fired, a closer for exactly this connection is on its way -/
  wd : s.connected = true → s.g.watch = false →
    ∃ t, s.thr t = .xWant (some s.cur) ∨ s.thr t = .xLocked (some s.cur)

theorem inv2_init : Inv2 {} := by
  constructor <;> simp

theorem step_held {s s' l} (hs : step s l = some s') (hh : ∀ u, s.mu = some u → holds (s.thr u) = true)
    (hh' : ∀ t, holds (s.thr t) = true → s.mu = some t) :
    ∀ u, s'.mu = some u → holds (s'.thr u) = true := by
  cases l <;> simp only [step] at hs <;> (try split at hs) <;> (try split at hs) <;>
    simp at hs <;> subst hs <;> intro u hu <;> simp only [setThr] at hu ⊢ <;> grind [holds]

theorem step_wd {s s' l} (hs : step s l = some s')
    (hw : s.connected = true → s.g.watch = false → ∃ t, s.thr t = .xWant (some s.cur) ∨ s.thr t = .xLocked (some s.cur)) :
    s'.connected = true → s'.g.watch = false →
      ∃ t, s'.thr t = .xWant (some s'.cur) ∨ s'.thr t = .xLocked (some s'.cur) := by
  cases l <;> simp only [step] at hs <;> (try split at hs) <;> (try split at hs) <;>
    simp at hs <;> subst hs <;> intro hc hwf <;> simp only [setThr] at hc hwf ⊢ <;>
    first
    | (simp at hwf; done)
    | (simp at hc; done)
    | (refine ⟨_, Or.inl (by simp)⟩; done)
    | (refine ⟨_, Or.inr (by simp)⟩; done)
    | (have h1 : s.connected = true := (by simpa using hc)
       have h2 : s.g.watch = false := (by simpa using hwf)
       obtain ⟨t, ht⟩ := hw h1 h2; refine ⟨t, ?_⟩; grind)
    | (rename_i t _; exact ⟨t, Or.inl (by simp)⟩)

theorem inv2_step {s s' l} (i1 : Proofs.C07.Inv s) (h : Inv2 s) (hs : step s l = some s') : Inv2 s' :=
  ⟨step_held hs h.held i1.holder, step_wd hs h.wd⟩

theorem reach_inv2 {s} (h : Reach s) : Inv2 s := by
  induction h with
  | init => exact inv2_init
  | step hr hs ih => exact inv2_step (reach_inv hr) ih hs

/-- run a list of labels -/
def run (s : St) : List Label → Option St
  | [] => some s
  | l :: ls => (step s l).bind (fun s1 => run s1 ls)

theorem reach_run {s s' ls} (h : Reach s) (hr : run s ls = some s') : Reach s' := by
  induction ls generalizing s with
  | nil => simp [run] at hr; subst hr; exact h
  | cons l ls ih =>
    simp only [run] at hr
    cases hs : step s l with
    | none => simp [hs] at hr
    | some s1 => simp [hs] at hr; exact ih (Reach.step h hs) hr

/-! ## progress: with the context of a live connection cancelled, a closer step is enabled -/

theorem ex_closer {s : St} (l : Label) (hl : isCloser l = true) (h : (step s l).isSome = true) :
    ∃ l s', isCloser l = true ∧ step s l = some s' := by
  cases hs : step s l with
  | none => simp [hs] at h
  | some s' => exact ⟨l, s', hl, hs⟩

theorem cancel_progress {s : St} (h : Reach s) (hc : s.connected = true) (hx : s.g.cancelled = true) :
    ∃ l s', isCloser l = true ∧ step s l = some s' := by
  have inv := reach_inv h
  have inv2 := reach_inv2 h
  obtain ⟨N, hN⟩ := inv.fin
  have hidle : s.thr N = .idle := hN N (Nat.le_refl _)
  by_cases hwatch : s.g.watch = true
  · exact ex_closer (.watchFire N) rfl (by simp [step, hwatch, hx, hidle])
  · have hwf : s.g.watch = false := by simpa using hwatch
    obtain ⟨t, ht | ht⟩ := inv2.wd hc hwf
    · cases hm : s.mu with
      | none => exact ex_closer (.xLock t) rfl (by simp [step, ht, hm])
      | some u =>
        have hu := inv2.held u hm
        cases hp : s.thr u with
        | cLocked => exact ex_closer (.cRefuse u) rfl (by simp [step, hp])
        | xLocked tg => exact ex_closer (.xTest u) rfl (by simp only [step, hp]; split <;> simp)
        | xDrain g => have := (inv.drain u g hp).2.1; simp [hc] at this
        | idle => simp [hp, holds] at hu
        | cWant => simp [hp, holds] at hu
        | cRegister g => simp [hp, holds] at hu
        | cRet g => simp [hp, holds] at hu
        | xWant tg => simp [hp, holds] at hu
        | xFire g => simp [hp, holds] at hu
    · exact ex_closer (.xTest t) rfl (by simp only [step, ht]; split <;> simp)

/-! ## a short path: at most four closer steps lead from "cancelled" to a teardown in progress -/

theorem xLock_step {s : St} {t : Tid} {tg : Option Gen} (hm : s.mu = none) (ht : s.thr t = .xWant tg) :
    step s (.xLock t) = some { s with mu := some t, thr := setThr s t (.xLocked tg) } := by
  simp [step, ht, hm]

theorem xTest_begin {s : St} {t : Tid} (hc : s.connected = true) (ht : s.thr t = .xLocked (some s.cur)) :
    step s (.xTest t) = some { s with connected := false, g := { s.g with sockClosed := true, cancelled := true },
                                      thr := setThr s t (.xDrain s.cur), log := s.log ++ [.tested s.cur] } := by
  simp [step, ht, hc]

theorem xLock_step' {s : St} {t : Tid} {tg : Option Gen} (hm : s.mu = none) (ht : s.thr t = .xWant tg) :
    ∃ s1, step s (.xLock t) = some s1 ∧ s1.thr t = .xLocked tg ∧ s1.connected = s.connected ∧ s1.cur = s.cur :=
  ⟨_, xLock_step hm ht, by simp [setThr], rfl, rfl⟩

theorem xTest_begin' {s : St} {t : Tid} (hc : s.connected = true) (ht : s.thr t = .xLocked (some s.cur)) :
    ∃ s2, step s (.xTest t) = some s2 ∧ s2.connected = false ∧ Draining s2 :=
  ⟨_, xTest_begin hc ht, rfl, t, s.cur, by simp [setThr]⟩

theorem closer_takes_over {s : St} {t : Tid} (hc : s.connected = true) (hm : s.mu = none)
    (ht : s.thr t = .xWant (some s.cur)) :
    ∃ s', run s [.xLock t, .xTest t] = some s' ∧ s'.connected = false ∧ Draining s' := by
  obtain ⟨s1, h1, ht1, hc1, hcur1⟩ := xLock_step' hm ht
  obtain ⟨s2, h2, hc2, hd2⟩ := xTest_begin' (s := s1) (t := t) (hc1 ▸ hc) (hcur1 ▸ ht1)
  exact ⟨s2, by simp [run, h1, h2], hc2, hd2⟩

theorem free_path {s : St} (h : Reach s) (hc : s.connected = true) (hx : s.g.cancelled = true) (hm : s.mu = none) :
    ∃ ls s', run s ls = some s' ∧ ls.length ≤ 3 ∧ (∀ l ∈ ls, isCloser l = true) ∧ s'.connected = false ∧ Draining s' := by
  have inv := reach_inv h
  have inv2 := reach_inv2 h
  by_cases hwatch : s.g.watch = true
  · obtain ⟨N, hN⟩ := inv.fin
    have hidle : s.thr N = .idle := hN N (Nat.le_refl _)
    have hs1 : step s (.watchFire N) = some { s with g := { s.g with watch := false }, thr := setThr s N (.xWant (some s.cur)) } := by
      simp [step, hwatch, hx, hidle]
    obtain ⟨s', hr, hc', hd⟩ := closer_takes_over (s := { s with g := { s.g with watch := false }, thr := setThr s N (.xWant (some s.cur)) })
      (t := N) hc hm (by simp [setThr])
    refine ⟨[.watchFire N, .xLock N, .xTest N], s', ?_, by simp, ?_, hc', hd⟩
    · simp only [run, hs1, Option.bind] at hr ⊢; exact hr
    · intro l hl; simp at hl; rcases hl with rfl | rfl | rfl <;> rfl
  · have hwf : s.g.watch = false := by simpa using hwatch
    obtain ⟨t, ht | ht⟩ := inv2.wd hc hwf
    · obtain ⟨s', hr, hc', hd⟩ := closer_takes_over hc hm ht
      refine ⟨[.xLock t, .xTest t], s', hr, by simp, ?_, hc', hd⟩
      intro l hl; simp at hl; rcases hl with rfl | rfl <;> rfl
    · have := inv.holder t (by simp [ht, holds]); simp [hm] at this

theorem cancel_reaches_teardown {s : St} (h : Reach s) (hc : s.connected = true) (hx : s.g.cancelled = true) :
    ∃ ls s', run s ls = some s' ∧ ls.length ≤ 4 ∧ (∀ l ∈ ls, isCloser l = true) ∧ s'.connected = false ∧ Draining s' := by
  have inv := reach_inv h
  have inv2 := reach_inv2 h
  cases hm : s.mu with
  | none =>
    obtain ⟨ls, s', hr, hl, ha, hc', hd⟩ := free_path h hc hx hm
    exact ⟨ls, s', hr, by omega, ha, hc', hd⟩
  | some u =>
    have hu := inv2.held u hm
    -- the holder's own next step: it either releases the mutex without touching the connection, or begins the teardown
    have key : ∃ l s1, isCloser l = true ∧ step s l = some s1 ∧
        ((s1.connected = false ∧ Draining s1) ∨ (s1.connected = true ∧ s1.g.cancelled = true ∧ s1.mu = none)) := by
      cases hp : s.thr u with
      | cLocked =>
        exact ⟨.cRefuse u, { s with mu := none, thr := setThr s u .idle, log := s.log ++ [.connectErr] }, rfl,
          by simp [step, hp], Or.inr ⟨hc, hx, rfl⟩⟩
      | xLocked tg =>
        by_cases hn : s.connected = false ∨ (∃ g', tg = some g' ∧ g' ≠ s.cur)
        · exact ⟨.xTest u, { s with mu := none, thr := setThr s u .idle, log := s.log ++ [.closeNoop tg] }, rfl,
            by simp only [step, hp, if_pos hn], Or.inr ⟨hc, hx, rfl⟩⟩
        · exact ⟨.xTest u, { s with connected := false, g := { s.g with sockClosed := true, cancelled := true },
                                    thr := setThr s u (.xDrain s.cur), log := s.log ++ [.tested s.cur] }, rfl,
            by simp only [step, hp, if_neg hn], Or.inl ⟨rfl, u, s.cur, by simp [setThr]⟩⟩
      | xDrain g => have := (inv.drain u g hp).2.1; simp [hc] at this
      | idle => simp [hp, holds] at hu
      | cWant => simp [hp, holds] at hu
      | cRegister g => simp [hp, holds] at hu
      | cRet g => simp [hp, holds] at hu
      | xWant tg => simp [hp, holds] at hu
      | xFire g => simp [hp, holds] at hu
    obtain ⟨l, s1, hl, hs1, hcase⟩ := key
    rcases hcase with ⟨hc1, hd1⟩ | ⟨hc1, hx1, hm1⟩
    · refine ⟨[l], s1, by simp [run, hs1], by simp, ?_, hc1, hd1⟩
      intro l' hl'; simp at hl'; subst hl'; exact hl
    · obtain ⟨ls, s', hr, hlen, ha, hc', hd⟩ := free_path (Reach.step h hs1) hc1 hx1 hm1
      refine ⟨l :: ls, s', by simp [run, hs1, hr], by simp; omega, ?_, hc', hd⟩
      intro l' hl'; simp at hl'; rcases hl' with rfl | hl'
      · exact hl
      · exact ha l' hl'

/-! ## the watchdog is needed: defect 12 as a reachable state of the model -/

/-- the thread a label belongs to -/
def tidOf : Label → Option Tid
  | .connect t | .cLock t | .cRefuse t | .cSucceed t _ | .cRegister t | .cRet t | .close t | .xLock t | .xTest t
  | .xDrainIn t | .xDrainOut t | .xFinish t | .xFire t | .recvExit t | .loopExit t | .sendFail t | .sendCancel t
  | .watchFire t | .stale t _ => some t
  | _ => none

theorem step_other {s s' l} (hs : step s l = some s') (u : Tid) (hu : tidOf l ≠ some u) : s'.thr u = s.thr u := by
  cases l <;> simp only [step] at hs <;> (try split at hs) <;> (try split at hs) <;>
    simp at hs <;> subst hs <;> simp only [setThr, tidOf] at hu ⊢ <;> grind

theorem run_other {s s' ls} (hr : run s ls = some s') (u : Tid) (hu : ∀ l ∈ ls, tidOf l ≠ some u) :
    s'.thr u = s.thr u := by
  induction ls generalizing s with
  | nil => simp [run] at hr; subst hr; rfl
  | cons l ls ih =>
    simp only [run] at hr
    cases hs : step s l with
    | none => simp [hs] at hr
    | some s1 =>
      simp [hs] at hr
      rw [ih hr (fun l' hl' => hu l' (List.mem_cons_of_mem _ hl')), step_other hs u (hu l (List.mem_cons_self))]

/-- what the connection does on its own: its goroutines, the watchdog, and threads inside Connect / Close - everything
but new API calls, the environment (server, peer, user's context) and stragglers of older generations -/
def isOwn : Label → Bool
  | .connect _ | .close _ | .srvSend | .srvEOF | .writeErr | .ctxCancel | .peerStall | .peerResume | .stale _ _ => false
  | _ => true

/-- the history of defect 12: connect; one line arrives whose handler emits 34 lines; the peer stops reading; `send`
takes the first line and sits in the write; the handler fills the output queue (32) and blocks on the next line; the
user cancels the context -/
def stuckHistory : List Label :=
  [.connect 0, .cLock 0, .cSucceed 0 none, .cRegister 0, .cRet 0, .srvSend, .recvTake, .recvPut, .loopTake 34,
   .peerStall, .hEmit, .hPut, .sendTake] ++ (List.replicate 32 [Label.hEmit, Label.hPut]).flatten ++ [.hEmit, .ctxCancel]

theorem stuck_runs : (run {} stuckHistory).isSome = true := by decide

def stuck : St := (run {} stuckHistory).get stuck_runs

theorem stuck_run : run {} stuckHistory = some stuck := by simp [stuck]

theorem stuck_reach : Reach stuck := reach_run Reach.init stuck_run

def only0 : Label → Bool := fun l => tidOf l = none || tidOf l = some 0

theorem stuck_threads (t : Tid) : stuck.thr t = .idle := by
  by_cases h0 : t = 0
  · subst h0; decide
  · have hall : stuckHistory.all only0 = true := by decide
    have := run_other stuck_run t (fun l hl => by
      have := List.all_eq_true.mp hall l hl
      simp only [only0, Bool.or_eq_true, decide_eq_true_eq] at this
      rcases this with h | h
      · rw [h]; simp
      · rw [h]; intro e; exact h0 (Option.some.inj e).symm)
    rw [this]

theorem stuck_only_watchdog (l : Label) (s' : St) (hs : step stuck l = some s') (ho : isOwn l = true) :
    ∃ t, l = .watchFire t := by
  have hthr := stuck_threads
  have h1 : stuck.g.recv = .reading := by decide
  have h2 : stuck.g.avail = 0 := by decide
  have h3 : stuck.g.eof = false := by decide
  have h4 : stuck.g.sockClosed = false := by decide
  have h5 : stuck.g.werr = false := by decide
  have h6 : stuck.g.stalled = true := by decide
  have h7 : stuck.g.loop = .hSend 0 := by decide
  have h8 : stuck.g.outQ = 32 := by decide
  have h9 : stuck.g.send = .writing := by decide
  have h10 : stuck.g.ping = .absent := by decide
  cases l <;> simp only [isOwn] at ho <;> simp only [step, hthr, h1, h2, h3, h4, h5, h6, h7, h8, h9, h10] at hs <;>
    first
    | exact ⟨_, rfl⟩
    | (simp [cap] at hs; done)
    | (split at hs <;> simp at hs; done)
    | cases ho

end Proofs.C07Cancel
