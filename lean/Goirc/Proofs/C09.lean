import Goirc.Spec.Send
/-!
# Helper lemmas for C09 (Send LTS pipeline invariant)
-/
namespace Proofs.C09
open Go.Send Spec.Send

/-- Invariant: for every sender, its items appear in the pipeline exactly once each, in issue order. -/
def Inv (st : St) : Prop := ∀ s, seqsOf s (pipeline st) = List.range (st.issued s)

theorem inv_init (cap) : Inv (init cap) := by
  intro s; simp [init, pipeline, seqsOf]

theorem inv_step {st st' l} (h : Inv st) (hs : step st l = some st') : Inv st' := by
  cases l with
  | raw s =>
    simp only [step] at hs
    split at hs <;> simp at hs
    subst hs
    intro t
    have ht := h t
    simp only [pipeline, seqsOf, List.filter_append, List.map_append] at ht ⊢
    by_cases hts : t = s
    · subst hts; simp [List.range_succ, ← ht]
    · have : s ≠ t := fun e => hts e.symm
      simp [hts, this, ← ht]
  | deq =>
    simp only [step] at hs
    split at hs
    · split at hs <;> simp at hs
      subst hs
      rename_i hi hq
      intro t
      have ht := h t
      simp only [pipeline, hi, hq] at ht ⊢
      simpa using ht
    · simp at hs
  | write =>
    simp only [step] at hs
    split at hs
    · split at hs <;> simp at hs
      subst hs
      rename_i x hi
      intro t
      have ht := h t
      simp only [pipeline, hi] at ht ⊢
      simpa using ht
    · simp at hs
  | fail =>
    simp only [step] at hs
    split at hs <;> simp at hs
    subst hs
    intro t
    exact h t

theorem inv_reach {cap st} (h : Reach cap st) : Inv st := by
  induction h with
  | init => exact inv_init cap
  | step _ hs ih => exact inv_step ih hs

theorem seqsOf_append (s : Sender) (a b : List Item) :
    seqsOf s (a ++ b) = seqsOf s a ++ seqsOf s b := by
  simp [seqsOf, List.filter_append, List.map_append]

theorem wire_prefix {cap st} (h : Reach cap st) (s : Sender) :
    seqsOf s st.wire <+: List.range (st.issued s) := by
  have := inv_reach h s
  simp only [pipeline, seqsOf_append, List.append_assoc] at this
  rw [← this]
  exact List.prefix_append _ _

/-- `isRange l k` says exactly that `l = [k, k+1, …, k + l.length - 1]`. -/
theorem isRange_range' (n k : Nat) : isRange (List.range' k n) k = true := by
  induction n generalizing k with
  | zero => simp [isRange]
  | succ n ih => simp [List.range', isRange, ih]

theorem isRange_of_prefix {l m : List Nat} (hp : l <+: m) {k : Nat} (hm : isRange m k = true) :
    isRange l k = true := by
  induction l generalizing m k with
  | nil => simp [isRange]
  | cons x xs ih =>
    obtain ⟨t, rfl⟩ := hp
    simp only [List.cons_append, isRange, Bool.and_eq_true] at hm ⊢
    exact ⟨hm.1, ih (List.prefix_append xs t) hm.2⟩

theorem isRange_of_prefix_range {l : List Nat} {n : Nat} (hp : l <+: List.range n) :
    isRange l 0 = true := by
  apply isRange_of_prefix hp
  rw [List.range_eq_range']
  exact isRange_range' n 0

theorem mem_of_seq_mem {s : Sender} {k : Nat} {l : List Item} (h : k ∈ seqsOf s l) :
    (⟨s, k⟩ : Item) ∈ l := by
  simp only [seqsOf, List.mem_map, List.mem_filter, decide_eq_true_eq] at h
  obtain ⟨⟨s', k'⟩, ⟨hm, hs⟩, hk⟩ := h
  simp at hs hk
  subst hs hk
  exact hm

end Proofs.C09
