import Goirc.Model.Commands
import Goirc.Spec.Wire
import Goirc.Proofs.Bytes
/-! Helper lemmas for C08. -/
namespace Go
open Spec.Wire

theorem cutNewLines_no_cr (s : Bytes) : CR ∉ cutNewLines s := fun h =>
  beforeByte_not_mem CR s (beforeByte_subset LF _ _ h)

theorem cutNewLines_no_lf (s : Bytes) : LF ∉ cutNewLines s := beforeByte_not_mem LF _

theorem cutNewLines_prefix (p s : Bytes) (hcr : CR ∉ p) (hlf : LF ∉ p) :
    hasPrefix (cutNewLines (p ++ s)) p = true := by
  unfold cutNewLines
  rw [beforeByte_append_of_not_mem CR p s hcr, beforeByte_append_of_not_mem LF p _ hlf]
  exact hasPrefix_append_left _ _

theorem lineOk_cut (v r : Bytes) (hcr : CR ∉ v) (hlf : LF ∉ v) (hp : hasPrefix r v = true) :
    lineOk v (cutNewLines r) = true := by
  obtain ⟨t, rfl⟩ := (hasPrefix_iff r v).1 hp
  unfold lineOk
  have h1 := cutNewLines_no_cr (v ++ t)
  have h2 := cutNewLines_no_lf (v ++ t)
  have h3 := cutNewLines_prefix v t hcr hlf
  simp only [CR, LF] at h1 h2
  simp [h1, h2, h3]

theorem verbOf_clean (c : Cmd) : CR ∉ verbOf c ∧ LF ∉ verbOf c := by
  cases c <;> simp only [verbOf] <;> decide

theorem hasPrefix_app3 (v a b : Bytes) : hasPrefix (v ++ a ++ b) v = true := by
  rw [List.append_assoc]; exact hasPrefix_append_left _ _

theorem rawArgs_prefix (ext : UnicodeExt) (cfg : CmdCfg) (c : Cmd) :
    ∀ r ∈ rawArgs ext cfg c, hasPrefix r (verbOf c) = true := by
  intro r hr
  cases c <;> simp only [rawArgs, verbOf, List.mem_singleton, List.mem_map] at hr ⊢
  case raw => simp
  case cap sub caps =>
    split at hr
    · simp only [List.mem_singleton] at hr; subst hr
      simp only [List.append_assoc]; exact hasPrefix_append_left _ _
    · simp only [List.mem_map] at hr
      obtain ⟨_, _, rfl⟩ := hr
      simp only [List.append_assoc]; exact hasPrefix_append_left _ _
  all_goals first
    | (subst hr; (try simp only [List.append_assoc]); exact hasPrefix_append_left _ _)
    | (obtain ⟨_, _, rfl⟩ := hr; (try simp only [List.append_assoc]); exact hasPrefix_append_left _ _)

end Go

namespace Go
open Spec.Wire

theorem splitCRLF_line (acc l rest : Bytes) (h : (13 : UInt8) ∉ l) :
    splitCRLF acc (l ++ 13 :: 10 :: rest) = (acc.reverse ++ l) :: splitCRLF [] rest := by
  induction l generalizing acc with
  | nil => simp [splitCRLF]
  | cons x l ih =>
    simp only [List.mem_cons, not_or] at h
    have hx : x ≠ 13 := fun e => h.1 e.symm
    rw [List.cons_append, splitCRLF.eq_3 _ _ _ (fun _ e _ => hx e)]
    rw [ih _ h.2]
    simp

theorem splitCRLF_wire (lines : List Bytes) (h : ∀ l ∈ lines, (13 : UInt8) ∉ l) :
    splitCRLF [] (wireBytes lines) = lines ++ [[]] := by
  induction lines with
  | nil => simp [wireBytes, splitCRLF]
  | cons l ls ih =>
    have := splitCRLF_line [] l (wireBytes ls) (h l (by simp))
    simp only [wireBytes, List.flatMap_cons, List.append_assoc, CR, LF] at this ⊢
    simp only [List.cons_append, List.nil_append] at this ⊢
    rw [this]
    simp only [List.reverse_nil, List.nil_append, List.cons.injEq, true_and]
    exact ih (fun l' hl' => h l' (by simp [hl']))

end Go
