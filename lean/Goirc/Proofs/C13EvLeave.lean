import Goirc.Proofs.C13Ops
import Goirc.Proofs.C13Parse
import Goirc.Proofs.C13Inv
/-!
# C13: PART, KICK and QUIT bring the relational state to the new view
-/
namespace Proofs.C13
open Go Go.Client Go.Tracker Spec.Tracker Spec.Net

/-! ## feeding one line -/

theorem stTwin_part : stTwin (lit "part") = some t_PART := by rfl
theorem stTwin_kick : stTwin (lit "kick") = some t_KICK := by rfl
theorem stTwin_quit : stTwin (lit "quit") = some t_QUIT := by rfl

theorem tFeed_PART (ext : UnicodeExt) (nn : Bytes → Bytes) (S : TS) (raw nick ident host c : Bytes)
    (h : ParsesTo ext raw nick ident host (lit "PART") [c]) :
    tFeed ext nn S [raw] = sx S (.dissociate c nick) := by
  obtain ⟨L, hp, hn, _, _, hcmd, ha⟩ := h
  have hl := (toLower_verbs ext).2.1
  have h1 : (lit "part" == lit "001") = false := by decide
  have h2 : (lit "part" == lit "433") = false := by decide
  simp only [tFeed, hp, tDispatch, hcmd, hl, stTwin_part, h1, h2, t_PART, arg, ha, hn]
  simp

theorem tFeed_KICK (ext : UnicodeExt) (nn : Bytes → Bytes) (S : TS) (raw nick ident host c v t : Bytes)
    (h : ParsesTo ext raw nick ident host (lit "KICK") [c, v, t]) :
    tFeed ext nn S [raw] = sx S (.dissociate c v) := by
  obtain ⟨L, hp, _, _, _, hcmd, ha⟩ := h
  have hl := (toLower_verbs ext).2.2.1
  have h1 : (lit "kick" == lit "001") = false := by decide
  have h2 : (lit "kick" == lit "433") = false := by decide
  simp only [tFeed, hp, tDispatch, hcmd, hl, stTwin_kick, h1, h2, t_KICK, arg, ha]
  simp

theorem tFeed_QUIT (ext : UnicodeExt) (nn : Bytes → Bytes) (S : TS) (raw nick ident host : Bytes) (args : List Bytes)
    (h : ParsesTo ext raw nick ident host (lit "QUIT") args) :
    tFeed ext nn S [raw] = sx S (.delNick nick) := by
  obtain ⟨L, hp, hn, _, _, hcmd, ha⟩ := h
  have hl := (toLower_verbs ext).2.2.2.1
  have h1 : (lit "quit" == lit "001") = false := by decide
  have h2 : (lit "quit" == lit "433") = false := by decide
  simp only [tFeed, hp, tDispatch, hcmd, hl, stTwin_quit, h1, h2, t_QUIT, hn]
  simp


/-! ## `dissociate` is `viewLeave` -/

theorem filter_not_of_filter_empty {α : Type} (l : List α) (p : α → Bool)
    (h : (l.filter p).isEmpty = true) : l.filter (fun a => !p a) = l := by
  rw [List.isEmpty_iff, List.filter_eq_nil_iff] at h
  rw [List.filter_eq_self]
  intro a ha
  simpa using h a ha

theorem dropStep_eq (st : TS) (n : Bytes) :
    (if (memberships st n).isEmpty && n != st.me then dropNick st n else st) = viewDropNickIfAlone st n := by
  unfold viewDropNickIfAlone memberships dropNick
  by_cases h1 : n = st.me
  · simp [h1]
  · cases h2 : (st.mem.filter (fun m => m.1.2 == n)).isEmpty
    · simp
    · have := filter_not_of_filter_empty _ _ h2
      simp only [bne] at *
      simp [h1, this]

theorem dropChan_eq_viewLeaveMe (S : TS) (c : Bytes) : dropChan S c = viewLeaveMe S c := by
  unfold dropChan viewLeaveMe
  simp only [dropStep_eq]

theorem sx_dissociate_eq_viewLeave (S : TS) (c u : Bytes)
    (h : (AL.has S.chans c && AL.has S.nicks u && AL.has S.mem (c, u)) = true) :
    sx S (.dissociate c u) = viewLeave S u c := by
  simp only [sx, Spec.Tracker.step, h, if_true, viewLeave]
  by_cases hu : u = S.me
  · subst hu
    simp [dropChan_eq_viewLeaveMe]
  · have hu' : (u == S.me) = false := by simpa using hu
    simp only [hu', Bool.false_eq_true, if_false]
    have := dropStep_eq { S with mem := AL.erase S.mem (c, u) } u
    have hne : (u != S.me) = true := by simp [bne, hu']
    simp only [hne, Bool.and_true] at this
    rw [← this]
    split <;> rfl

/-! ## the ground truth updates leave the view alone -/

theorem leave_view (n : Net) (u c : Bytes) : (leave n u c).view = n.view := by
  unfold leave
  split
  · dsimp only
    split <;> rfl
  · rfl

theorem leave_users (n : Net) (u c : Bytes) : (leave n u c).users = n.users := by
  unfold leave
  split
  · dsimp only
    split <;> rfl
  · rfl

theorem foldLeave_view (u : Bytes) (ks : List Bytes) (n : Net) :
    (ks.foldl (fun acc c => if onChan acc u c then leave acc u c else acc) n).view = n.view := by
  induction ks generalizing n with
  | nil => rfl
  | cons k ks ih =>
    simp only [List.foldl_cons]
    rw [ih]
    split
    · exact leave_view n u k
    · rfl


/-! ## what the invariant says about a channel member -/

theorem onChan_facts (n : Net) (hi : NetInv n) (u c : Bytes) (h : onChan n u c = true) :
    nameOk c = true ∧ ∃ x, AL.lookup n.users u = some x ∧ nameOk u = true ∧ nameOk x.ident = true ∧ nameOk x.host = true := by
  unfold onChan at h
  cases hl : AL.lookup n.chans c with
  | none => simp [hl] at h
  | some ch =>
    simp only [hl] at h
    have ci := hi.chan_inv c ch hl
    have hn : nameOk c = true := by
      have := ci.name
      simp only [chanOk, Bool.and_eq_true] at this
      exact this.2
    have hu := ci.members_users u h
    obtain ⟨x, hx⟩ := (AL.has_true_iff _ _).1 hu
    have ok := hi.users_ok u x hx
    simp only [nickOk, Bool.and_eq_true] at ok
    exact ⟨hn, x, hx, ok.1.1, ok.2.1, ok.2.2.1⟩

theorem userMask_eq (n : Net) (u : Bytes) (x : NUser) (h : AL.lookup n.users u = some x) :
    userMask n u = u ++ [33] ++ x.ident ++ [64] ++ x.host := by
  simp only [userMask, h]

/-- the guards of `dissociate` on the view, for somebody on a channel the client is on -/
theorem view_guards (n : Net) (hi : NetInv n) (u c : Bytes) (hu : onChan n u c = true) (hme : onChan n n.me c = true) :
    (AL.has n.view.chans c && AL.has n.view.nicks u && AL.has n.view.mem (c, u)) = true := by
  have h1 : AL.has n.view.chans c = true := by rw [hi.view_chans]; exact hme
  have h2 : AL.has n.view.mem (c, u) = true := by rw [hi.view_mem, hme, hu]; rfl
  have h3 : AL.has n.view.nicks u = true := by
    rw [hi.view_nicks]
    have : sharesWithMe n u = true := (sharesWithMe_iff n hi.chans_nodup u).2 ⟨c, hu, hme⟩
    simp [this]
  simp [h1, h2, h3]

theorem ev_part (ext : UnicodeExt) (nn : Bytes → Bytes) (n : Net) (u c : Bytes) (hi : NetInv n)
    (hc : conforms n (.part u c) = true) :
    Eqv (tFeed ext nn n.view (serverStep n (.part u c)).2) (serverStep n (.part u c)).1.view := by
  simp only [conforms] at hc
  simp only [serverStep]
  cases hv : onChan n n.me c with
  | false =>
    simp only [Bool.false_eq_true, if_false, tFeed, leave_view]
    exact Eqv.refl _
  | true =>
    simp only [if_true, leave_view]
    obtain ⟨hcn, x, hx, h1, h2, h3⟩ := onChan_facts n hi u c hc
    rw [userMask_eq n u x hx, tFeed_PART ext nn n.view _ u x.ident x.host c (parse_PART ext u x.ident x.host h1 h2 h3 c hcn),
      sx_dissociate_eq_viewLeave _ _ _ (view_guards n hi u c hc hv)]
    exact Eqv.refl _

theorem ev_kick (ext : UnicodeExt) (nn : Bytes → Bytes) (n : Net) (k c v : Bytes) (hi : NetInv n)
    (hc : conforms n (.kick k c v) = true) :
    Eqv (tFeed ext nn n.view (serverStep n (.kick k c v)).2) (serverStep n (.kick k c v)).1.view := by
  simp only [conforms, Bool.and_eq_true] at hc
  simp only [serverStep]
  cases hv : onChan n n.me c with
  | false =>
    simp only [Bool.false_eq_true, if_false, tFeed, leave_view]
    exact Eqv.refl _
  | true =>
    simp only [if_true, leave_view]
    obtain ⟨hcn, x, hx, h1, h2, h3⟩ := onChan_facts n hi k c hc.1
    obtain ⟨_, y, _, hv1, _, _⟩ := onChan_facts n hi v c hc.2
    rw [userMask_eq n k x hx,
      tFeed_KICK ext nn n.view _ k x.ident x.host c v (lit "bye") (parse_KICK ext k x.ident x.host h1 h2 h3 c v hcn hv1),
      sx_dissociate_eq_viewLeave _ _ _ (view_guards n hi v c hc.2 hv)]
    exact Eqv.refl _

theorem ev_quit (ext : UnicodeExt) (nn : Bytes → Bytes) (n : Net) (u : Bytes) (hi : NetInv n)
    (hc : conforms n (.quit u) = true) :
    Eqv (tFeed ext nn n.view (serverStep n (.quit u)).2) (serverStep n (.quit u)).1.view := by
  simp only [conforms, Bool.and_eq_true] at hc
  simp only [serverStep]
  cases hv : sharesWithMe n u with
  | false =>
    simp only [Bool.false_eq_true, if_false, tFeed, foldLeave_view]
    exact Eqv.refl _
  | true =>
    simp only [if_true, foldLeave_view]
    obtain ⟨x, hx⟩ := (AL.has_true_iff _ _).1 hc.2
    have ok := hi.users_ok u x hx
    simp only [nickOk, Bool.and_eq_true] at ok
    rw [userMask_eq n u x hx,
      tFeed_QUIT ext nn n.view _ u x.ident x.host _ (parse_QUIT ext u x.ident x.host ok.1.1 ok.2.1 ok.2.2.1)]
    have hk : AL.has n.view.nicks u = true := by rw [hi.view_nicks, hv]; simp
    obtain ⟨r, hr⟩ := (AL.has_true_iff _ _).1 hk
    have hne : (u == n.view.me) = false := by
      rw [hi.me_view]; simpa [bne] using hc.1
    simp only [sx, Spec.Tracker.step, hr, hne, Bool.false_eq_true, if_false, dropNick]
    exact Eqv.refl _

end Proofs.C13
