import Goirc.Go.AList
/-! Lemmas about association lists used as Go maps. -/
namespace AL

set_option linter.unusedSectionVars false
variable {κ ν : Type} [DecidableEq κ]

@[simp] theorem lookup_nil (k : κ) : lookup ([] : List (κ × ν)) k = none := rfl

theorem lookup_cons (k' : κ) (v : ν) (m : List (κ × ν)) (k : κ) :
    lookup ((k', v) :: m) k = if k' = k then some v else lookup m k := rfl

theorem has_eq (m : List (κ × ν)) (k : κ) : has m k = (lookup m k).isSome := rfl

@[simp] theorem keys_nil : keys ([] : List (κ × ν)) = [] := rfl
@[simp] theorem keys_cons (e : κ × ν) (m : List (κ × ν)) : keys (e :: m) = e.1 :: keys m := rfl

theorem lookup_insert (m : List (κ × ν)) (k : κ) (v : ν) (k' : κ) :
    lookup (insert m k v) k' = if k = k' then some v else lookup m k' := by
  induction m with
  | nil => simp [insert, lookup_cons]
  | cons e m ih =>
    obtain ⟨a, b⟩ := e
    simp only [insert]
    split <;> grind [lookup_cons]

theorem erase_eq_filter (m : List (κ × ν)) (k : κ) :
    erase m k = m.filter (fun e => decide (e.1 ≠ k)) := by
  induction m with
  | nil => rfl
  | cons e m ih =>
    obtain ⟨a, b⟩ := e
    simp only [erase, List.filter_cons]
    split <;> simp_all

theorem lookup_erase (m : List (κ × ν)) (k k' : κ) :
    lookup (erase m k) k' = if k = k' then none else lookup m k' := by
  induction m with
  | nil => simp [erase]
  | cons e m ih =>
    obtain ⟨a, b⟩ := e
    simp only [erase]
    split <;> grind [lookup_cons]

theorem lookup_eq_none_iff (m : List (κ × ν)) (k : κ) : lookup m k = none ↔ k ∉ keys m := by
  induction m with
  | nil => simp
  | cons e m ih =>
    obtain ⟨a, b⟩ := e
    simp only [lookup_cons, keys_cons, List.mem_cons, not_or]
    split
    · rename_i h; subst h; simp
    · rename_i h; rw [ih]; constructor
      · intro h2; exact ⟨fun h3 => h h3.symm, h2⟩
      · intro h2; exact h2.2

theorem has_iff_mem_keys (m : List (κ × ν)) (k : κ) : has m k = true ↔ k ∈ keys m := by
  rw [has_eq]
  cases h : lookup m k with
  | none => simp [(lookup_eq_none_iff m k).1 h]
  | some v =>
    simp only [Option.isSome_some, true_iff]
    apply Classical.byContradiction
    intro hn
    rw [(lookup_eq_none_iff m k).2 hn] at h
    cases h

theorem has_false_iff (m : List (κ × ν)) (k : κ) : has m k = false ↔ lookup m k = none := by
  rw [has_eq]; cases lookup m k <;> simp

theorem has_true_iff (m : List (κ × ν)) (k : κ) : has m k = true ↔ ∃ v, lookup m k = some v := by
  rw [has_eq]; cases lookup m k <;> simp

theorem mem_of_lookup {m : List (κ × ν)} {k : κ} {v : ν} (h : lookup m k = some v) : (k, v) ∈ m := by
  induction m with
  | nil => cases h
  | cons e m ih =>
    obtain ⟨a, b⟩ := e
    rw [lookup_cons] at h
    split at h
    · rename_i h2; subst h2; cases h; simp
    · exact List.mem_cons_of_mem _ (ih h)

theorem mem_keys_of_mem {m : List (κ × ν)} {k : κ} {v : ν} (h : (k, v) ∈ m) : k ∈ keys m :=
  List.mem_map.2 ⟨(k, v), h, rfl⟩

theorem lookup_of_mem {m : List (κ × ν)} (nd : (keys m).Nodup) {k : κ} {v : ν} (h : (k, v) ∈ m) :
    lookup m k = some v := by
  induction m with
  | nil => cases h
  | cons e m ih =>
    obtain ⟨a, b⟩ := e
    simp only [keys_cons, List.nodup_cons] at nd
    rw [lookup_cons]
    rcases List.mem_cons.1 h with h | h
    · cases h; simp
    · have : a ≠ k := by
        intro hak; subst hak; exact nd.1 (mem_keys_of_mem h)
      simp [this, ih nd.2 h]

theorem mem_iff_lookup {m : List (κ × ν)} (nd : (keys m).Nodup) (k : κ) (v : ν) :
    (k, v) ∈ m ↔ lookup m k = some v := ⟨lookup_of_mem nd, mem_of_lookup⟩

theorem keys_erase (m : List (κ × ν)) (k : κ) : keys (erase m k) = (keys m).filter (fun x => decide (x ≠ k)) := by
  induction m with
  | nil => rfl
  | cons e m ih =>
    obtain ⟨a, b⟩ := e
    simp only [erase, keys_cons, List.filter_cons]
    split <;> simp_all

theorem keys_insert (m : List (κ × ν)) (k : κ) (v : ν) :
    keys (insert m k v) = if k ∈ keys m then keys m else keys m ++ [k] := by
  induction m with
  | nil => simp [insert]
  | cons e m ih =>
    obtain ⟨a, b⟩ := e
    simp only [insert]
    split
    · rename_i h; subst h; simp
    · rename_i h
      simp only [keys_cons, ih, List.mem_cons]
      have : ¬ k = a := fun h2 => h h2.symm
      simp only [this, false_or]
      split <;> simp

theorem nodup_erase {m : List (κ × ν)} (nd : (keys m).Nodup) (k : κ) : (keys (erase m k)).Nodup := by
  rw [keys_erase]; exact nd.sublist List.filter_sublist

theorem nodup_filter {m : List (κ × ν)} (nd : (keys m).Nodup) (p : κ × ν → Bool) : (keys (m.filter p)).Nodup := by
  unfold keys at *
  exact nd.sublist (List.Sublist.map _ List.filter_sublist)

theorem nodup_insert {m : List (κ × ν)} (nd : (keys m).Nodup) (k : κ) (v : ν) : (keys (insert m k v)).Nodup := by
  rw [keys_insert]
  split
  · exact nd
  · rename_i h
    rw [List.nodup_append]
    refine ⟨nd, by simp, ?_⟩
    intro a ha b hb
    simp only [List.mem_singleton] at hb
    subst hb
    intro hab; subst hab; exact h ha

theorem erase_of_lookup_none {m : List (κ × ν)} {k : κ} (h : lookup m k = none) : erase m k = m := by
  rw [erase_eq_filter, List.filter_eq_self]
  intro e he
  simp only [ne_eq, decide_not, Bool.not_eq_eq_eq_not, Bool.not_true, decide_eq_false_iff_not]
  intro hk
  have := (lookup_eq_none_iff m k).1 h
  apply this
  rw [← hk]
  exact List.mem_map.2 ⟨e, he, rfl⟩

theorem lookup_filter_key (m : List (κ × ν)) (p : κ → Bool) (k : κ) :
    lookup (m.filter (fun e => p e.1)) k = if p k then lookup m k else none := by
  induction m with
  | nil => simp
  | cons e m ih =>
    obtain ⟨a, b⟩ := e
    simp only [List.filter_cons]
    split <;> grind [lookup_cons]

/-- erasing every key of a list from itself leaves nothing -/
theorem foldl_erase_keys_nil (m : List (κ × ν)) (l : List κ) (h : ∀ k ∈ keys m, k ∈ l) :
    l.foldl (fun acc k => erase acc k) m = [] := by
  induction l generalizing m with
  | nil =>
    cases m with
    | nil => rfl
    | cons e m => exact absurd (h e.1 (by simp)) (by simp)
  | cons a l ih =>
    simp only [List.foldl_cons]
    apply ih
    intro k hk
    rw [keys_erase, List.mem_filter] at hk
    have := h k hk.1
    simp only [ne_eq, decide_not, Bool.not_eq_eq_eq_not, Bool.not_true, decide_eq_false_iff_not] at hk
    rcases List.mem_cons.1 this with h1 | h1
    · exact absurd h1 hk.2
    · exact h1

/-- a map over a key-unique list is duplicate-free when the mapped value determines the key -/
theorem nodup_map_of_keys {β : Type} {m : List (κ × ν)} (f : κ × ν → β) (nd : (keys m).Nodup)
    (inj : ∀ x ∈ m, ∀ y ∈ m, f x = f y → x.1 = y.1) : (m.map f).Nodup := by
  induction m with
  | nil => simp
  | cons e m ih =>
    simp only [keys_cons, List.nodup_cons] at nd
    simp only [List.map_cons, List.nodup_cons]
    refine ⟨?_, ih nd.2 (fun x hx y hy => inj x (List.mem_cons_of_mem _ hx) y (List.mem_cons_of_mem _ hy))⟩
    intro hmem
    obtain ⟨y, hy, hfy⟩ := List.mem_map.1 hmem
    have := inj e (by simp) y (List.mem_cons_of_mem _ hy) hfy.symm
    apply nd.1
    rw [this]
    exact List.mem_map.2 ⟨y, hy, rfl⟩

end AL
