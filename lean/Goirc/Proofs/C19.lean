import Goirc.Spec.Caps
import Goirc.Proofs.Commands
/-! Helper lemmas for C19 (capability negotiation and SASL). -/
namespace Go.Client
open Go Go.Tracker Spec.Caps

/-! ### emitted lines -/

theorem cutNewLines_id (s : Bytes) (hcr : CR ∉ s) (hlf : LF ∉ s) : cutNewLines s = s := by
  have h1 := beforeByte_append_of_not_mem CR s [] hcr
  have h2 := beforeByte_append_of_not_mem LF s [] hlf
  simp only [List.append_nil, beforeByte] at h1 h2
  unfold cutNewLines
  rw [h1, h2]

theorem emit_capEnd (c : Client) : emit c (.cap CAP_END []) = [CAPEND] := by
  show [cutNewLines (lit "CAP END")] = [CAPEND]
  decide

theorem emit_authenticate (c : Client) (m : Bytes) :
    emit c (.authenticate m) = [cutNewLines (lit "AUTHENTICATE " ++ m)] := rfl

/-! ### base64 output is free of line breaks -/

theorem b64char_clean (n : Nat) : b64char n ≠ CR ∧ b64char n ≠ LF := by
  by_cases h : n < 62
  · have : ∀ n, n < 62 → (b64char n ≠ CR ∧ b64char n ≠ LF) := by decide
    exact this n h
  · have h1 : ¬ n < 26 := by omega
    have h2 : ¬ n < 52 := by omega
    simp only [b64char, h1, h2, h, if_false]
    split <;> decide

theorem b64encode_clean (d : Bytes) : CR ∉ b64encode d ∧ LF ∉ b64encode d := by
  fun_induction b64encode d with
  | case1 => simp
  | case2 a n =>
    simp only [List.mem_cons, List.not_mem_nil, or_false, not_or]
    have h1 := b64char_clean (n / 4); have h2 := b64char_clean (n % 4 * 16)
    exact ⟨⟨h1.1.symm, h2.1.symm, by decide, by decide⟩, ⟨h1.2.symm, h2.2.symm, by decide, by decide⟩⟩
  | case3 a b n m =>
    simp only [List.mem_cons, List.not_mem_nil, or_false, not_or]
    have h1 := b64char_clean (n / 4); have h2 := b64char_clean (n % 4 * 16 + m / 16)
    have h3 := b64char_clean (m % 16 * 4)
    exact ⟨⟨h1.1.symm, h2.1.symm, h3.1.symm, by decide⟩, ⟨h1.2.symm, h2.2.symm, h3.2.symm, by decide⟩⟩
  | case4 a b c rest n m k ih =>
    simp only [List.mem_cons, not_or]
    have h1 := b64char_clean (n / 4); have h2 := b64char_clean (n % 4 * 16 + m / 16)
    have h3 := b64char_clean (m % 16 * 4 + k / 64); have h4 := b64char_clean (k % 64)
    exact ⟨⟨h1.1.symm, h2.1.symm, h3.1.symm, h4.1.symm, ih.1⟩, ⟨h1.2.symm, h2.2.symm, h3.2.symm, h4.2.symm, ih.2⟩⟩


theorem authLine_clean (d : Bytes) (h1 : CR ∉ d) (h2 : LF ∉ d) :
    cutNewLines (lit "AUTHENTICATE " ++ d) = lit "AUTHENTICATE " ++ d := by
  apply cutNewLines_id
  · simp only [List.mem_append, not_or]; exact ⟨by decide, h1⟩
  · simp only [List.mem_append, not_or]; exact ⟨by decide, h2⟩

/-! ### capability maps -/

theorem lookup_insert {ν : Type} (m : List (Bytes × ν)) (k k' : Bytes) (v : ν) :
    AL.lookup (AL.insert m k v) k' = if k = k' then some v else AL.lookup m k' := by
  induction m with
  | nil => simp [AL.insert, AL.lookup]
  | cons p m ih =>
    obtain ⟨a, b⟩ := p
    simp only [AL.insert]
    by_cases h : a = k
    · subst h
      simp only [if_true, AL.lookup]
      split <;> simp_all
    · simp only [h, if_false, AL.lookup, ih]
      by_cases h2 : a = k'
      · subst h2
        have : ¬ k = a := fun e => h e.symm
        simp [this]
      · simp [h2]

theorem capHas_insert (m : List (Bytes × Bool)) (k k' : Bytes) (v : Bool) :
    capHas (AL.insert m k v) k' = if k = k' then v else capHas m k' := by
  unfold capHas
  rw [lookup_insert]
  split <;> simp

theorem capAdd_cons_dash (m : List (Bytes × Bool)) (name : Bytes) (rest : List Bytes) :
    capAdd m ((45 :: name) :: rest) = capAdd (AL.insert m name false) rest := by
  simp [capAdd]

theorem capAdd_cons_plain (m : List (Bytes × Bool)) (n : Bytes) (rest : List Bytes) (h : n.head? ≠ some 45) :
    capAdd m (n :: rest) = capAdd (AL.insert m n true) rest := by
  cases n with
  | nil => simp [capAdd]
  | cons x n =>
    simp only [List.head?_cons, ne_eq, Option.some.injEq] at h
    rw [capAdd]
    · intro name e
      simp only [List.cons.injEq] at e
      exact h e.1

theorem capHas_capAdd (m : List (Bytes × Bool)) (acks : List Bytes) (cap : Bytes) (hc : cap.head? ≠ some 45) :
    capHas (capAdd m acks) cap =
      acks.foldl (fun h a => if a == cap then true else if a == 45 :: cap then false else h) (capHas m cap) := by
  induction acks generalizing m with
  | nil => rfl
  | cons a acks ih =>
    simp only [List.foldl_cons]
    by_cases hd : a.head? = some 45
    · obtain ⟨name, rfl⟩ : ∃ name, a = 45 :: name := by
        cases a with
        | nil => simp at hd
        | cons x a => simp at hd; exact ⟨a, by rw [hd]⟩
      rw [capAdd_cons_dash, ih, capHas_insert]
      have e1 : ((45 :: name : Bytes) == cap) = false := by
        cases cap with
        | nil => rfl
        | cons y cap =>
          simp only [List.head?_cons, ne_eq, Option.some.injEq] at hc
          simp only [beq_eq_false_iff_ne, ne_eq, List.cons.injEq, not_and]
          intro e; exact absurd e.symm hc
      simp only [e1, Bool.false_eq_true, if_false]
      by_cases hn : name = cap
      · subst hn; simp
      · have : ((45 :: name : Bytes) == 45 :: cap) = false := by simp [hn]
        simp [this, hn]
    · rw [capAdd_cons_plain _ _ _ hd, ih, capHas_insert]
      by_cases hn : a = cap
      · subst hn; simp
      · have e2 : (a == 45 :: cap) = false := by
          simp only [beq_eq_false_iff_ne, ne_eq]
          intro e; subst e; simp at hd
        simp [hn, e2]

/-! ### the ACK loop -/

theorem capAckLoop_none (c : Client) (caps out : List Bytes) (got : Bool) (h : c.cfg.sasl = none) :
    (capAckLoop c caps out got).2 = (out, got) := by
  induction caps generalizing c with
  | nil => rfl
  | cons cap rest ih =>
    rw [capAckLoop]
    simp only [h]
    exact ih _ h

def authStart (s : Sasl) : Bytes := lit "AUTHENTICATE " ++ (saslStart s).1

theorem emit_authStart (c : Client) (s : Sasl) : emit c (.authenticate (saslStart s).1) = [authStart s] := by
  rw [emit_authenticate]
  cases s <;> rfl

theorem capAckLoop_some (c : Client) (s : Sasl) (caps out : List Bytes) (got : Bool) (h : c.cfg.sasl = some s) :
    (capAckLoop c caps out got).2 =
      (out ++ List.replicate (caps.filter (· == saslCap)).length (authStart s), got || caps.contains saslCap) := by
  induction caps generalizing c out got with
  | nil => simp [capAckLoop]
  | cons cap rest ih =>
    rw [capAckLoop]
    simp only [h]
    by_cases hc : cap == saslCap
    · simp only [hc, if_true]
      refine (ih _ _ _ ?_).trans ?_
      · exact h
      rw [emit_authStart]
      have : cap = saslCap := by simpa using hc
      subst this
      simp [List.replicate_succ]
    · simp only [hc, Bool.false_eq_true, if_false]
      refine (ih _ _ _ ?_).trans ?_
      · exact h
      have : ¬ cap = saslCap := by simpa using hc
      have h2 : ¬ saslCap = cap := fun e => this e.symm
      simp [hc, h2]

/-! ### handlers and the pending SASL response -/

@[simp] theorem tk_sasl (c : Client) (o : Op) : (tk c o).1.saslRemaining = c.saslRemaining := by
  unfold tk; split <;> rfl

@[simp] theorem refreshMe_sasl (c : Client) : (refreshMe c).saslRemaining = c.saslRemaining := by
  unfold refreshMe; split <;> rfl

@[simp] theorem setMeFrom_sasl (c : Client) (n : NickSnap) : (setMeFrom c n).saslRemaining = c.saslRemaining := rfl

/-- a handler that leaves the pending SASL response alone -/
def KeepsSasl (h : Client → Line → HR) : Prop := ∀ c l, (h c l).c.saslRemaining = c.saslRemaining

theorem keeps_PING : KeepsSasl h_PING := by
  intro c l; unfold h_PING; split <;> rfl
theorem keeps_REGISTER : KeepsSasl h_REGISTER := by
  intro c l; unfold h_REGISTER; simp only []; split <;> rfl
theorem keeps_001 : KeepsSasl h_001 := by
  intro c l; unfold h_001; simp only []
  repeat' split
  all_goals simp
theorem keeps_433 : KeepsSasl h_433 := by
  intro c l; unfold h_433; simp only []
  repeat' split
  all_goals simp
theorem keeps_CTCP : KeepsSasl h_CTCP := by
  intro c l; unfold h_CTCP
  repeat' split
  all_goals rfl
theorem keeps_NICK : KeepsSasl h_NICK := by
  intro c l; unfold h_NICK
  repeat' split
  all_goals rfl
theorem keeps_410 : KeepsSasl h_410 := by
  intro c l; unfold h_410; split <;> rfl
theorem keeps_903 : KeepsSasl h_903 := fun _ _ => rfl
theorem keeps_904 : KeepsSasl h_904 := fun _ _ => rfl
theorem keeps_908 : KeepsSasl h_908 := by
  intro c l; unfold h_908; split <;> rfl
theorem keeps_STNICK : KeepsSasl h_STNICK := by
  intro c l; unfold h_STNICK; split <;> simp
theorem keeps_JOIN : KeepsSasl h_JOIN := by
  intro c l; unfold h_JOIN; simp only []
  repeat' split
  all_goals simp
theorem keeps_PART : KeepsSasl h_PART := by
  intro c l; unfold h_PART; split <;> simp
theorem keeps_KICK : KeepsSasl h_KICK := by
  intro c l; unfold h_KICK; split <;> simp
theorem keeps_QUIT : KeepsSasl h_QUIT := by
  intro c l; unfold h_QUIT; simp
theorem keeps_MODE : KeepsSasl h_MODE := by
  intro c l; unfold h_MODE; simp only []
  repeat' split
  all_goals simp
theorem keeps_TOPIC : KeepsSasl h_TOPIC := by
  intro c l; unfold h_TOPIC; simp only []
  repeat' split
  all_goals simp
theorem keeps_311 : KeepsSasl h_311 := by
  intro c l; unfold h_311; simp only []
  repeat' split
  all_goals simp
theorem keeps_324 : KeepsSasl h_324 := by
  intro c l; unfold h_324; simp only []
  repeat' split
  all_goals simp
theorem keeps_332 : KeepsSasl h_332 := by
  intro c l; unfold h_332; simp only []
  repeat' split
  all_goals simp
theorem keeps_352 : KeepsSasl h_352 := by
  intro c l; unfold h_352; simp only []
  repeat' split
  all_goals simp
theorem names353_sasl (c : Client) (chn : Bytes) (ws : List Bytes) :
    (names353 c chn ws).saslRemaining = c.saslRemaining := by
  induction ws generalizing c with
  | nil => rfl
  | cons w rest ih =>
    unfold names353
    split
    · exact ih c
    · simp only []
      rw [ih]
      repeat' split
      all_goals simp
theorem keeps_353 : KeepsSasl h_353 := by
  intro c l; unfold h_353; simp only []
  repeat' split
  all_goals simp [names353_sasl]
theorem keeps_671 : KeepsSasl h_671 := by
  intro c l; unfold h_671; simp only []
  repeat' split
  all_goals simp
theorem authenticate_sasl_none (c : Client) (l : Line) (hr : c.saslRemaining = none) :
    (h_AUTHENTICATE c l).c.saslRemaining = none := by
  unfold h_AUTHENTICATE
  repeat' split
  all_goals first | rfl | exact hr

theorem stHandler_keeps (ev : Bytes) (h : Client → Line → HR) (hh : stHandler ev = some h) : KeepsSasl h := by
  unfold stHandler at hh
  by_cases h0 : (ev == lit "join") = true
  · rw [if_pos h0] at hh; injection hh with hh; subst hh; exact keeps_JOIN
  rw [if_neg h0] at hh
  by_cases h1 : (ev == lit "kick") = true
  · rw [if_pos h1] at hh; injection hh with hh; subst hh; exact keeps_KICK
  rw [if_neg h1] at hh
  by_cases h2 : (ev == lit "mode") = true
  · rw [if_pos h2] at hh; injection hh with hh; subst hh; exact keeps_MODE
  rw [if_neg h2] at hh
  by_cases h3 : (ev == lit "nick") = true
  · rw [if_pos h3] at hh; injection hh with hh; subst hh; exact keeps_STNICK
  rw [if_neg h3] at hh
  by_cases h4 : (ev == lit "part") = true
  · rw [if_pos h4] at hh; injection hh with hh; subst hh; exact keeps_PART
  rw [if_neg h4] at hh
  by_cases h5 : (ev == lit "quit") = true
  · rw [if_pos h5] at hh; injection hh with hh; subst hh; exact keeps_QUIT
  rw [if_neg h5] at hh
  by_cases h6 : (ev == lit "topic") = true
  · rw [if_pos h6] at hh; injection hh with hh; subst hh; exact keeps_TOPIC
  rw [if_neg h6] at hh
  by_cases h7 : (ev == lit "311") = true
  · rw [if_pos h7] at hh; injection hh with hh; subst hh; exact keeps_311
  rw [if_neg h7] at hh
  by_cases h8 : (ev == lit "324") = true
  · rw [if_pos h8] at hh; injection hh with hh; subst hh; exact keeps_324
  rw [if_neg h8] at hh
  by_cases h9 : (ev == lit "332") = true
  · rw [if_pos h9] at hh; injection hh with hh; subst hh; exact keeps_332
  rw [if_neg h9] at hh
  by_cases h10 : (ev == lit "352") = true
  · rw [if_pos h10] at hh; injection hh with hh; subst hh; exact keeps_352
  rw [if_neg h10] at hh
  by_cases h11 : (ev == lit "353") = true
  · rw [if_pos h11] at hh; injection hh with hh; subst hh; exact keeps_353
  rw [if_neg h11] at hh
  by_cases h12 : (ev == lit "671") = true
  · rw [if_pos h12] at hh; injection hh with hh; subst hh; exact keeps_671
  rw [if_neg h12] at hh
  exact absurd hh (by simp)

theorem intHandler_sasl_none (ev : Bytes) (h : Client → Line → HR) (hh : intHandler ev = some h)
    (hev : ev ≠ lit "cap") (c : Client) (l : Line) (hr : c.saslRemaining = none) :
    (h c l).c.saslRemaining = none := by
  unfold intHandler at hh
  by_cases h0 : (ev == lit "register") = true
  · rw [if_pos h0] at hh; injection hh with hh; subst hh; rw [← hr]; exact keeps_REGISTER c l
  rw [if_neg h0] at hh
  by_cases h1 : (ev == lit "001") = true
  · rw [if_pos h1] at hh; injection hh with hh; subst hh; rw [← hr]; exact keeps_001 c l
  rw [if_neg h1] at hh
  by_cases h2 : (ev == lit "433") = true
  · rw [if_pos h2] at hh; injection hh with hh; subst hh; rw [← hr]; exact keeps_433 c l
  rw [if_neg h2] at hh
  by_cases h3 : (ev == lit "ctcp") = true
  · rw [if_pos h3] at hh; injection hh with hh; subst hh; rw [← hr]; exact keeps_CTCP c l
  rw [if_neg h3] at hh
  by_cases h4 : (ev == lit "nick") = true
  · rw [if_pos h4] at hh; injection hh with hh; subst hh; rw [← hr]; exact keeps_NICK c l
  rw [if_neg h4] at hh
  by_cases h5 : (ev == lit "ping") = true
  · rw [if_pos h5] at hh; injection hh with hh; subst hh; rw [← hr]; exact keeps_PING c l
  rw [if_neg h5] at hh
  by_cases h6 : (ev == lit "cap") = true
  · exact absurd (beq_iff_eq.1 h6) hev
  rw [if_neg h6] at hh
  by_cases h7 : (ev == lit "410") = true
  · rw [if_pos h7] at hh; injection hh with hh; subst hh; rw [← hr]; exact keeps_410 c l
  rw [if_neg h7] at hh
  by_cases h8 : (ev == lit "authenticate") = true
  · rw [if_pos h8] at hh; injection hh with hh; subst hh; exact authenticate_sasl_none c l hr
  rw [if_neg h8] at hh
  by_cases h9 : (ev == lit "903") = true
  · rw [if_pos h9] at hh; injection hh with hh; subst hh; rw [← hr]; exact keeps_903 c l
  rw [if_neg h9] at hh
  by_cases h10 : (ev == lit "904") = true
  · rw [if_pos h10] at hh; injection hh with hh; subst hh; rw [← hr]; exact keeps_904 c l
  rw [if_neg h10] at hh
  by_cases h11 : (ev == lit "908") = true
  · rw [if_pos h11] at hh; injection hh with hh; subst hh; rw [← hr]; exact keeps_908 c l
  rw [if_neg h11] at hh
  exact absurd hh (by simp)

/-! ### keys of capability maps -/

theorem keys_insert_mem {ν : Type} (m : List (Bytes × ν)) (k k' : Bytes) (v : ν) :
    k' ∈ AL.keys (AL.insert m k v) ↔ k' = k ∨ k' ∈ AL.keys m := by
  induction m with
  | nil => simp [AL.insert, AL.keys]
  | cons p m ih =>
    obtain ⟨a, b⟩ := p
    simp only [AL.insert]
    by_cases h : a = k
    · subst h; simp [AL.keys]
    · simp only [h, if_false]
      simp only [AL.keys, List.map_cons, List.mem_cons] at ih ⊢
      rw [ih]
      constructor
      · rintro (h | h | h) <;> simp [h]
      · rintro (h | h | h) <;> simp [h]

theorem keys_insert_nodup {ν : Type} (m : List (Bytes × ν)) (k : Bytes) (v : ν) (h : (AL.keys m).Nodup) :
    (AL.keys (AL.insert m k v)).Nodup := by
  induction m with
  | nil => simp [AL.insert, AL.keys]
  | cons p m ih =>
    obtain ⟨a, b⟩ := p
    simp only [AL.insert]
    by_cases hk : a = k
    · subst hk; simpa [AL.keys] using h
    · simp only [hk, if_false]
      have h' : a ∉ AL.keys m ∧ (AL.keys m).Nodup := by simpa [AL.keys] using h
      have := keys_insert_mem m k a v
      simp only [AL.keys, List.map_cons, List.nodup_cons] at this ⊢
      refine ⟨?_, ih h'.2⟩
      rw [this]
      simp only [not_or]
      exact ⟨hk, by simpa [AL.keys] using h'.1⟩

def plain (names : List Bytes) : Prop := ∀ n ∈ names, n.head? ≠ some 45

theorem keys_capAdd_mem (m : List (Bytes × Bool)) (names : List Bytes) (hp : plain names) (k : Bytes) :
    k ∈ AL.keys (capAdd m names) ↔ k ∈ AL.keys m ∨ k ∈ names := by
  induction names generalizing m with
  | nil => simp [capAdd]
  | cons n rest ih =>
    rw [capAdd_cons_plain _ _ _ (hp n (by simp)), ih _ (fun x hx => hp x (by simp [hx])), keys_insert_mem]
    simp only [List.mem_cons]
    constructor
    · rintro ((h | h) | h) <;> simp [h]
    · rintro (h | h | h) <;> simp [h]

theorem keys_capAdd_nodup (m : List (Bytes × Bool)) (names : List Bytes) (hp : plain names)
    (h : (AL.keys m).Nodup) : (AL.keys (capAdd m names)).Nodup := by
  induction names generalizing m with
  | nil => simpa [capAdd] using h
  | cons n rest ih =>
    rw [capAdd_cons_plain _ _ _ (hp n (by simp))]
    exact ih _ (fun x hx => hp x (by simp [hx])) (keys_insert_nodup _ _ _ h)

theorem capHas_capAdd_plain (m : List (Bytes × Bool)) (names : List Bytes) (hp : plain names) (k : Bytes) :
    capHas (capAdd m names) k = (names.contains k || capHas m k) := by
  induction names generalizing m with
  | nil => simp [capAdd]
  | cons n rest ih =>
    rw [capAdd_cons_plain _ _ _ (hp n (by simp)), ih _ (fun x hx => hp x (by simp [hx])), capHas_insert]
    by_cases h : n = k
    · subst h; simp
    · have : ¬ k = n := fun e => h e.symm
      simp [h, this]

theorem keys_filter (m : List (Bytes × Bool)) (f : Bytes → Bool) :
    AL.keys (m.filter fun p => f p.1) = (AL.keys m).filter f := by
  induction m with
  | nil => rfl
  | cons p m ih =>
    simp only [List.filter_cons, AL.keys, List.map_cons] at ih ⊢
    split <;> simp [ih]

/-! ### `sort.Strings` permutes -/

theorem insertSorted_perm (x : Bytes) (l : List Bytes) : (insertSorted x l).Perm (x :: l) := by
  induction l with
  | nil => simp [insertSorted]
  | cons y ys ih =>
    simp only [insertSorted]
    split
    · exact List.Perm.refl _
    · exact ((List.Perm.cons y ih).trans (List.Perm.swap x y ys))

theorem sortBytes_perm (l : List Bytes) : (sortBytes l).Perm l := by
  induction l with
  | nil => exact List.Perm.refl _
  | cons x l ih =>
    show (insertSorted x (sortBytes l)).Perm (x :: l)
    exact (insertSorted_perm x _).trans (List.Perm.cons x ih)

/-! ### the Spec's list predicates -/

theorem nodup_iff (l : List Bytes) : nodup l = true ↔ l.Nodup := by
  induction l with
  | nil => simp [nodup]
  | cons x xs ih => simp [nodup, ih]

theorem subset_iff (a b : List Bytes) : subset a b = true ↔ ∀ x ∈ a, x ∈ b := by
  simp [subset]

/-! ### words of a REQ line -/

def words (l : Bytes) : List Bytes := (splitByte 32 [] l).filter (· != [])

theorem splitByte_append_sep (c : UInt8) (acc x y : Bytes) :
    splitByte c acc (x ++ c :: y) = splitByte c acc x ++ splitByte c [] y := by
  induction x generalizing acc with
  | nil => simp [splitByte]
  | cons b x ih =>
    simp only [List.cons_append, splitByte]
    split
    · simp [ih]
    · exact ih _

theorem splitByte_no_sep (c : UInt8) (acc x : Bytes) (h : c ∉ x) :
    splitByte c acc x = [acc.reverse ++ x] := by
  induction x generalizing acc with
  | nil => simp [splitByte]
  | cons b x ih =>
    simp only [List.mem_cons, not_or] at h
    have hb : (b == c) = false := by simp; exact fun e => h.1 e.symm
    simp [splitByte, hb, ih _ h.2]

theorem words_append_sp (x y : Bytes) : words (x ++ [SP] ++ y) = words x ++ words y := by
  unfold words
  rw [List.append_assoc]
  show List.filter _ (splitByte 32 [] (x ++ 32 :: y)) = _
  rw [splitByte_append_sep, List.filter_append]

theorem words_name (a : Bytes) (h1 : a ≠ []) (h2 : (32 : UInt8) ∉ a) : words a = [a] := by
  unfold words
  rw [splitByte_no_sep _ _ _ h2]
  simp [h1]

/-- what a name must satisfy to survive `splitArgs`, `cutNewLines` and `reqWords` -/
structure GoodName (n : Bytes) : Prop where
  ne : n ≠ []
  nosp : (32 : UInt8) ∉ n
  nocr : CR ∉ n
  nolf : LF ∉ n
  short : n.length ≤ 200

/-- what every group of names has -/
structure GoodGroup (g : Bytes) : Prop where
  nocr : CR ∉ g
  nolf : LF ∉ g
  short : g.length ≤ 440

theorem GoodName.group {n : Bytes} (h : GoodName n) : GoodGroup n :=
  ⟨h.nocr, h.nolf, by have := h.short; omega⟩

theorem splitArgsAux_words (c : Bytes) (rest : List Bytes) (hr : ∀ n ∈ rest, GoodName n) :
    (splitArgsAux 441 (some c) rest).flatMap words = words c ++ rest := by
  induction rest generalizing c with
  | nil => simp [splitArgsAux]
  | cons a rest ih =>
    have ha := hr a (by simp)
    have hr' : ∀ n ∈ rest, GoodName n := fun n hn => hr n (by simp [hn])
    simp only [splitArgsAux]
    split
    · rw [ih _ hr', words_append_sp, words_name a ha.ne ha.nosp]; simp
    · rw [List.flatMap_cons, ih _ hr', words_name a ha.ne ha.nosp]; simp

theorem splitArgsAux_good (c : Bytes) (rest : List Bytes) (hc : GoodGroup c) (hr : ∀ n ∈ rest, GoodName n) :
    ∀ g ∈ splitArgsAux 441 (some c) rest, GoodGroup g := by
  induction rest generalizing c with
  | nil => simp [splitArgsAux]; exact hc
  | cons a rest ih =>
    have ha := hr a (by simp)
    have hr' : ∀ n ∈ rest, GoodName n := fun n hn => hr n (by simp [hn])
    simp only [splitArgsAux]
    split
    · rename_i hlt
      apply ih _ _ hr'
      refine ⟨?_, ?_, ?_⟩
      · simp only [List.mem_append, not_or]; exact ⟨⟨hc.nocr, by decide⟩, ha.nocr⟩
      · simp only [List.mem_append, not_or]; exact ⟨⟨hc.nolf, by decide⟩, ha.nolf⟩
      · simp only [List.length_append, List.length_cons, List.length_nil]; omega
    · intro g hg
      simp only [List.mem_cons] at hg
      rcases hg with rfl | hg
      · exact hc
      · exact ih _ ha.group hr' g hg

theorem splitArgs_words (S : List Bytes) (hS : ∀ n ∈ S, GoodName n) :
    (splitArgs S 441).flatMap words = S := by
  cases S with
  | nil => rfl
  | cons a rest =>
    have ha := hS a (by simp)
    simp only [splitArgs, splitArgsAux]
    rw [splitArgsAux_words _ _ (fun n hn => hS n (by simp [hn])), words_name a ha.ne ha.nosp]; rfl

theorem splitArgs_good (S : List Bytes) (hS : ∀ n ∈ S, GoodName n) :
    ∀ g ∈ splitArgs S 441, GoodGroup g := by
  cases S with
  | nil => simp [splitArgs, splitArgsAux]
  | cons a rest =>
    simp only [splitArgs, splitArgsAux]
    exact splitArgsAux_good _ _ (hS a (by simp)).group (fun n hn => hS n (by simp [hn]))

theorem splitArgsAux_ne_nil (c : Bytes) (rest : List Bytes) : splitArgsAux 441 (some c) rest ≠ [] := by
  induction rest generalizing c with
  | nil => simp [splitArgsAux]
  | cons a rest ih =>
    simp only [splitArgsAux]
    split
    · exact ih _
    · simp

theorem splitArgs_ne_nil (S : List Bytes) (h : S ≠ []) : splitArgs S 441 ≠ [] := by
  cases S with
  | nil => exact absurd rfl h
  | cons a rest => simp only [splitArgs, splitArgsAux]; exact splitArgsAux_ne_nil _ _

/-! ### REQ lines -/

theorem reqWords_map (G : List Bytes) : reqWords (G.map (REQPFX ++ ·)) = some (G.flatMap words) := by
  induction G with
  | nil => rfl
  | cons g G ih =>
    simp only [List.map_cons, reqWords, hasPrefix_append_left, if_true, ih, Option.map_some,
      List.flatMap_cons, List.drop_left]
    rfl

theorem emit_capReq (c : Client) (S : List Bytes) (hS : S ≠ []) :
    emit c (.cap CAP_REQ S) = (splitArgs S 441).map (fun a => cutNewLines (REQPFX ++ a)) := by
  cases S with
  | nil => exact absurd rfl hS
  | cons x xs =>
    show List.map cutNewLines (List.map _ (splitArgs (x :: xs) 441)) = _
    rw [List.map_map]
    rfl

theorem reqLine_clean (g : Bytes) (h : GoodGroup g) : cutNewLines (REQPFX ++ g) = REQPFX ++ g := by
  apply cutNewLines_id
  · simp only [List.mem_append, not_or]; exact ⟨by decide, h.nocr⟩
  · simp only [List.mem_append, not_or]; exact ⟨by decide, h.nolf⟩

/-! ### what `negotiate` requests -/

theorem requestCaps_keys_mem (c : Client) (hp : plain c.cfg.caps) (k : Bytes) :
    k ∈ AL.keys (requestCaps c) ↔ k ∈ wanted c.cfg.caps c.cfg.sasl.isSome := by
  unfold requestCaps wanted
  rw [keys_capAdd_mem _ _ hp]
  cases c.cfg.sasl.isSome
  · simp [AL.keys]
  · have : capAdd [] [saslCap] = [(saslCap, true)] := rfl
    simp [this, AL.keys]

theorem requestCaps_keys_nodup (c : Client) (hp : plain c.cfg.caps) : (AL.keys (requestCaps c)).Nodup := by
  unfold requestCaps
  apply keys_capAdd_nodup _ _ hp
  cases c.cfg.sasl.isSome
  · simp [AL.keys]
  · have : capAdd [] [saslCap] = [(saslCap, true)] := rfl
    simp [this, AL.keys]

/-- the keys of the request set of a fresh client are wanted ∩ advertised, without repetition -/
theorem req_keys (c : Client) (adv : List Bytes) (hp : plain c.cfg.caps) (ha : plain adv) :
    let K := AL.keys (capIntersect (requestCaps c) (capAdd [] adv))
    K.Nodup ∧ ∀ k, k ∈ K ↔ k ∈ (wanted c.cfg.caps c.cfg.sasl.isSome).filter (adv.contains ·) := by
  have hf : (fun p : Bytes × Bool => capHas (capAdd [] adv) p.1) = fun p => adv.contains p.1 := by
    funext p
    rw [capHas_capAdd_plain _ _ ha]
    simp [capHas, AL.lookup]
  simp only [capIntersect, hf]
  rw [keys_filter (requestCaps c) (adv.contains ·)]
  refine ⟨(requestCaps_keys_nodup c hp).sublist List.filter_sublist, ?_⟩
  intro k
  simp only [List.mem_filter, requestCaps_keys_mem c hp]

/-- the lines `negotiate` sends, in terms of the keys `K` of the request set -/
def lsOut (K : List Bytes) : List Bytes :=
  if K = [] then [CAPEND] else (splitArgs (sortBytes K) 441).map (fun a => cutNewLines (REQPFX ++ a))

theorem negotiate_out (c : Client) (adv : List Bytes) (hfresh : c.supported = []) :
    (negotiate c adv).out = lsOut (AL.keys (capIntersect (requestCaps c) (capAdd [] adv))) := by
  unfold negotiate lsOut
  simp only [hfresh]
  generalize hc1 : ({ c with supported := capAdd [] adv } : Client) = c1
  have e : requestCaps c1 = requestCaps c := by subst hc1; rfl
  rw [e]
  generalize capIntersect (requestCaps c) (capAdd [] adv) = req
  cases req with
  | nil => simp [AL.keys]; exact emit_capEnd _
  | cons p req =>
    have h1 : (p :: req).length > 0 := by simp
    have h2 : AL.keys (p :: req) ≠ [] := by simp [AL.keys]
    have h3 : sortBytes (AL.keys (p :: req)) ≠ [] := by
      intro h
      have := (sortBytes_perm (AL.keys (p :: req))).length_eq
      rw [h] at this
      simp [AL.keys] at this
    simp only [h1, h2, if_true, if_false, capSlice]
    exact emit_capReq _ _ h3

theorem lsOut_ok (caps : List Bytes) (sasl : Bool) (adv K : List Bytes) (hnd : K.Nodup)
    (hmem : ∀ k, k ∈ K ↔ k ∈ (wanted caps sasl).filter (adv.contains ·))
    (hgood : ∀ n ∈ K, GoodName n) :
    okAfterLS caps sasl adv (lsOut K) = true := by
  unfold okAfterLS lsOut
  simp only []
  generalize (wanted caps sasl).filter (adv.contains ·) = inter at hmem
  by_cases hK : K = []
  · subst hK
    have : inter = [] := by
      cases inter with
      | nil => rfl
      | cons x xs => exact absurd ((hmem x).2 (by simp)) (by simp)
    subst this
    simp
  · have hI : inter.isEmpty = false := by
      cases inter with
      | nil =>
        cases K with
        | nil => exact absurd rfl hK
        | cons x xs => exact absurd ((hmem x).1 (by simp)) (by simp)
      | cons x xs => rfl
    have hperm := sortBytes_perm K
    generalize sortBytes K = S at hperm
    have hSgood : ∀ n ∈ S, GoodName n := fun n hn => hgood n (hperm.mem_iff.1 hn)
    have hSne : S ≠ [] := by
      intro h; subst h; exact hK (List.Perm.nil_eq hperm).symm
    have hG := splitArgs_good S hSgood
    have hW := splitArgs_words S hSgood
    have hN := splitArgs_ne_nil S hSne
    generalize splitArgs S 441 = G at hG hW hN
    have hout : G.map (fun a => cutNewLines (REQPFX ++ a)) = G.map (REQPFX ++ ·) :=
      List.map_congr_left fun g hg => reqLine_clean g (hG g hg)
    simp only [hK, if_false, hI, hout, reqWords_map, hW, Bool.false_eq_true]
    simp only [Bool.and_eq_true, Bool.not_eq_true', List.isEmpty_eq_false_iff, ne_eq,
      List.map_eq_nil_iff, sameSet, subset_iff, nodup_iff, List.all_eq_true, List.mem_map,
      decide_eq_true_eq, forall_exists_index, and_imp, forall_apply_eq_imp_iff₂]
    refine ⟨⟨⟨hN, ?_, ?_⟩, hperm.nodup_iff.2 hnd⟩, ?_⟩
    · intro x hx; exact (hmem x).1 (hperm.mem_iff.1 hx)
    · intro x hx; exact hperm.mem_iff.2 ((hmem x).2 hx)
    · intro g hg
      have := (hG g hg).short
      have e : REQPFX.length = 9 := rfl
      simp only [List.length_append, e]; omega

end Go.Client
