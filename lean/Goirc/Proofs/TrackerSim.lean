import Goirc.Proofs.Tracker
import Goirc.Proofs.TrackerLink
import Goirc.Proofs.TrackerReNick
import Goirc.Proofs.TrackerModes
import Goirc.Proofs.TrackerDissoc
/-! Every tracker operation preserves the simulation relation and returns equal results. -/
namespace Spec.Tracker
open Go.Tracker

theorem step_sim {st : St} {S : S} (r : R st S) (op : Op) : Sim st S op := by
  cases op with
  | newNick n => exact sim_newNick r n
  | getNick n => exact sim_getNick r n
  | reNick old neu => exact sim_reNick r old neu
  | delNick n => exact sim_delNick r n
  | nickInfo n ident host name => exact sim_nickInfo r n ident host name
  | nickModes n modes => exact sim_nickModes r n modes
  | newChannel c => exact sim_newChannel r c
  | getChannel c => exact sim_getChannel r c
  | delChannel c => exact sim_delChannel r c
  | topic c t => exact sim_topic r c t
  | channelModes c modes args => exact sim_channelModes r c modes args
  | me => exact sim_me r
  | isOn c n => exact sim_isOn r c n
  | associate c n => exact sim_associate r c n
  | dissociate c n => exact sim_dissociate r c n
  | wipe => exact sim_wipe r

end Spec.Tracker
