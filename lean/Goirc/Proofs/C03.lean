import Goirc.Spec.Dispatch
/-!
# Helper lemmas for C03 / C05 / C16 (Dispatch LTS invariants)
-/
namespace Proofs.C03
open Go.Dispatch Spec.Dispatch

/-! ## scans of the log: appending one event -/

/-- every ranked event in the log is lexicographically below `(a, b)` -/
def RB (log : List Obs) (a b : Nat) : Prop :=
  ∀ o ∈ log, ∀ r, rank o = some r → r.1 < a ∨ (r.1 = a ∧ r.2 < b)

theorem RB_nil (a b) : RB [] a b := by intro o ho; simp at ho

theorem RB_mono {log a b a' b'} (h : RB log a b) (hle : a < a' ∨ (a = a' ∧ b ≤ b')) : RB log a' b' := by
  intro o ho r hr
  have := h o ho r hr
  omega

theorem RB_append {log o a b} (h : RB log a b)
    (ho : ∀ r, rank o = some r → r.1 < a ∨ (r.1 = a ∧ r.2 < b)) : RB (log ++ [o]) a b := by
  intro o' ho' r hr
  simp at ho'
  rcases ho' with ho' | ho'
  · exact h o' ho' r hr
  · subst ho'; exact ho r hr

theorem RB_append_none {log o a b} (h : RB log a b) (ho : rank o = none) : RB (log ++ [o]) a b :=
  RB_append h (by simp [ho])

theorem serial_append_none {log o} (ho : rank o = none) :
    ∀ acc, serial (log ++ [o]) acc = serial log acc := by
  induction log with
  | nil => intro acc; simp [serial, ho]
  | cons x xs ih =>
    intro acc
    simp only [List.cons_append, serial]
    split <;> simp [ih]

theorem serial_append_some {log o r} (ho : rank o = some r) :
    ∀ acc, serial log acc = true → (∀ a, acc = some a → le2 a r = true) →
      (∀ o' ∈ log, ∀ r', rank o' = some r' → le2 r' r = true) → serial (log ++ [o]) acc = true := by
  induction log with
  | nil =>
    intro acc _ hacc _
    cases acc with
    | none => simp [serial, ho]
    | some a => simp [serial, ho, hacc a rfl]
  | cons x xs ih =>
    intro acc hs hacc hall
    simp only [List.cons_append, serial] at hs ⊢
    split
    · rename_i r' l hx
      simp [hx] at hs
      simp only [hs.1, Bool.true_and]
      exact ih _ hs.2 (by intro a ha; cases ha; exact hall x (by simp) _ hx)
        (fun o' ho' => hall o' (by simp [ho']))
    · rename_i r' hx
      simp [hx] at hs
      exact ih _ hs (by intro a ha; cases ha; exact hall x (by simp) _ hx)
        (fun o' ho' => hall o' (by simp [ho']))
    · rename_i hx
      simp [hx] at hs
      exact ih _ hs hacc (fun o' ho' => hall o' (by simp [ho']))

theorem serial_append_RB {log o k b} (ho : rank o = some (k, b)) (hs : serial log none = true)
    (hb : RB log k (b + 1)) : serial (log ++ [o]) none = true := by
  apply serial_append_some ho none hs (by simp)
  intro o' ho' r' hr'
  have := hb o' ho' r' hr'
  simp [le2]
  omega

theorem caw_append_other {log o} (ho1 : ∀ k, o ≠ .welcomeApplied k) (ho2 : ∀ k h, o ≠ .connEnter k h) :
    ∀ seen, connAfterWelcome (log ++ [o]) seen = connAfterWelcome log seen := by
  induction log with
  | nil =>
    intro seen
    cases o <;> simp_all [connAfterWelcome]
  | cons x xs ih =>
    intro seen
    cases x <;> simp [connAfterWelcome, ih]

theorem caw_append_welcome {log k} :
    ∀ seen, connAfterWelcome (log ++ [.welcomeApplied k]) seen = connAfterWelcome log seen := by
  induction log with
  | nil => intro seen; simp [connAfterWelcome]
  | cons x xs ih =>
    intro seen
    cases x <;> simp [connAfterWelcome, ih]

theorem caw_append_conn {log k h} :
    ∀ seen, connAfterWelcome log seen = true → (k ∈ seen ∨ Obs.welcomeApplied k ∈ log) →
      connAfterWelcome (log ++ [.connEnter k h]) seen = true := by
  induction log with
  | nil => intro seen _ hk; simpa [connAfterWelcome] using hk
  | cons x xs ih =>
    intro seen hc hk
    cases x <;> simp [connAfterWelcome] at hc hk ⊢ <;> try (exact ih _ hc (by simpa using hk))
    · rename_i k' h'
      exact ⟨hc.1, ih _ hc.2 (by simpa using hk)⟩
    · rename_i k'
      apply ih _ hc
      rcases hk with hk | hk | hk
      · simp [hk]
      · simp [hk]
      · exact Or.inr hk

theorem nad_append_none {log o} (ho : rank o = none) :
    ∀ d, nothingAfterDisc log d = true → nothingAfterDisc (log ++ [o]) d = true := by
  induction log with
  | nil => intro d _; cases o <;> simp_all [nothingAfterDisc, rank]
  | cons x xs ih =>
    intro d hd
    cases x <;> simp [nothingAfterDisc] at hd ⊢ <;> first | exact ih _ hd | exact ⟨hd.1, ih _ hd.2⟩

theorem nad_no_disc {log} (h : Obs.discEnter ∉ log) : nothingAfterDisc log false = true := by
  induction log with
  | nil => simp [nothingAfterDisc]
  | cons x xs ih =>
    simp at h
    cases x <;> simp [nothingAfterDisc] at h ⊢ <;> first | exact ih h | exact ih h.2

theorem tt_append_other {log o} (h1 : ∀ k h a, o ≠ .fgEnter k h a) (h2 : ∀ k h a, o ≠ .fgExit k h a)
    (h3 : ∀ k h a, o ≠ .bgEnter k h a) : trackerTiming (log ++ [o]) = trackerTiming log := by
  induction log with
  | nil => cases o <;> simp_all [trackerTiming]
  | cons x xs ih => cases x <;> simp [trackerTiming, ih]

theorem tt_append {log o} (h : trackerTiming log = true) (ho : trackerTiming [o] = true) :
    trackerTiming (log ++ [o]) = true := by
  induction log with
  | nil => simpa using ho
  | cons x xs ih => cases x <;> simp [trackerTiming] at h ⊢ <;> first | exact ih h | exact ⟨h.1, ih h.2⟩


/-! ## the delivery invariant -/

/-- what the current phase says about line numbers, `applied` and the ranks already in the log -/
def PhaseInv (s : St) : Prop :=
  match s.phase with
  | .idle => RB s.log s.qhead 0
  | .gone => RB s.log s.qhead 0
  | .int k w => k < s.qhead ∧ s.applied ≤ k ∧ RB s.log k (if w then 0 else 1)
  | .nested k => k < s.qhead ∧ s.applied ≤ k ∧ RB s.log k 1 ∧ Obs.welcomeApplied k ∈ s.log
  | .intDone k => k < s.qhead ∧ s.applied = k + 1 ∧ RB s.log k 1
  | .fg k => k < s.qhead ∧ s.applied = k + 1 ∧ RB s.log k 2

structure Inv (s : St) : Prop where
  ph : PhaseInv s
  app : s.applied ≤ s.qhead
  bg : ∀ p ∈ s.bg, p.1 + 1 ≤ s.applied
  disc : Obs.discEnter ∈ s.log → s.phase = .gone
  serial : serial s.log none = true
  caw : connAfterWelcome s.log [] = true
  nad : nothingAfterDisc s.log false = true
  tt : trackerTiming s.log = true

theorem inv_init : Inv {} := by
  constructor <;> simp [PhaseInv, RB_nil, Spec.Dispatch.serial, connAfterWelcome, nothingAfterDisc, trackerTiming]

theorem inv_step {s s' l} (h : Inv s) (hs : step s l = some s') : Inv s' := by
  have hph := h.ph
  cases l with
  | recv =>
    simp only [step] at hs; simp at hs; subst hs
    exact ⟨h.ph, h.app, h.bg, h.disc, h.serial, h.caw, h.nad, h.tt⟩
  | take w n =>
    simp only [step] at hs; split at hs <;> simp at hs; subst hs
    rename_i hc
    simp only [PhaseInv, hc.1] at hph
    refine ⟨?_, ?_, h.bg, ?_, h.serial, h.caw, h.nad, h.tt⟩
    · simp only [PhaseInv]
      refine ⟨by omega, h.app, RB_mono hph (by omega)⟩
    · have := h.app; simp; omega
    · intro hd; have := h.disc hd; simp [hc.1] at this
  | intLeave =>
    simp only [step] at hs
    split at hs
    · split at hs <;> simp at hs; subst hs
      rename_i k w hp _
      refine ⟨?_, h.app, h.bg, ?_, h.serial, h.caw, h.nad, h.tt⟩
      · simpa only [PhaseInv, hp] using hph
      · intro hd; have := h.disc hd; simp [hp] at this
    · split at hs <;> simp at hs; subst hs
      rename_i k hp _
      refine ⟨?_, h.app, h.bg, ?_, h.serial, h.caw, h.nad, h.tt⟩
      · simpa only [PhaseInv, hp] using hph
      · intro hd; have := h.disc hd; simp [hp] at this
    · simp at hs
  | welcome n =>
    simp only [step] at hs
    split at hs <;> simp at hs; subst hs
    rename_i k hp
    simp only [PhaseInv, hp] at hph
    have hr : rank (.welcomeApplied k) = none := rfl
    refine ⟨?_, h.app, h.bg, ?_, ?_, ?_, ?_, ?_⟩
    · simp only [PhaseInv]
      refine ⟨hph.1, hph.2.1, RB_append_none (RB_mono hph.2.2 (by simp)) hr, by simp⟩
    · intro hd; simp at hd; have := h.disc hd; simp [hp] at this
    · simpa [serial_append_none hr] using h.serial
    · simpa [caw_append_welcome] using h.caw
    · exact nad_append_none hr _ h.nad
    · rw [tt_append_other (by simp) (by simp) (by simp)]; exact h.tt
  | hEnter i =>
    simp only [step] at hs
    split at hs
    · split at hs <;> simp at hs
      · subst hs
        rename_i hm k hp
        simp only [PhaseInv, hp] at hph
        have hr : rank (.connEnter k i) = some (k, 0) := rfl
        refine ⟨?_, h.app, h.bg, ?_, ?_, ?_, ?_, ?_⟩
        · simp only [PhaseInv, hp]
          refine ⟨hph.1, hph.2.1, RB_append hph.2.2.1 (by simp [hr]), by simp [hph.2.2.2]⟩
        · intro hd; simp at hd; have := h.disc hd; simp [hp] at this
        · exact serial_append_RB hr h.serial hph.2.2.1
        · exact caw_append_conn _ h.caw (Or.inr hph.2.2.2)
        · apply nad_no_disc; intro hd; simp at hd; have := h.disc hd; simp [hp] at this
        · rw [tt_append_other (by simp) (by simp) (by simp)]; exact h.tt
      · subst hs
        rename_i hm k hp
        simp only [PhaseInv, hp] at hph
        have hr : rank (.fgEnter k i s.applied) = some (k, 1) := rfl
        refine ⟨?_, h.app, h.bg, ?_, ?_, ?_, ?_, ?_⟩
        · simp only [PhaseInv, hp]
          refine ⟨hph.1, hph.2.1, RB_append hph.2.2 (by simp [hr])⟩
        · intro hd; simp at hd; have := h.disc hd; simp [hp] at this
        · exact serial_append_RB hr h.serial hph.2.2
        · rw [caw_append_other (by simp) (by simp)]; exact h.caw
        · apply nad_no_disc; intro hd; simp at hd; have := h.disc hd; simp [hp] at this
        · exact tt_append h.tt (by simp [trackerTiming, hph.2.1])
    · simp at hs
  | hLeave i =>
    simp only [step] at hs
    split at hs
    · split at hs <;> simp at hs
      · subst hs
        rename_i hm k hp
        simp only [PhaseInv, hp] at hph
        have hr : rank (.connExit k i) = some (k, 0) := rfl
        refine ⟨?_, h.app, h.bg, ?_, ?_, ?_, ?_, ?_⟩
        · simp only [PhaseInv, hp]
          refine ⟨hph.1, hph.2.1, RB_append hph.2.2.1 (by simp [hr]), by simp [hph.2.2.2]⟩
        · intro hd; simp at hd; have := h.disc hd; simp [hp] at this
        · exact serial_append_RB hr h.serial hph.2.2.1
        · rw [caw_append_other (by simp) (by simp)]; exact h.caw
        · apply nad_no_disc; intro hd; simp at hd; have := h.disc hd; simp [hp] at this
        · rw [tt_append_other (by simp) (by simp) (by simp)]; exact h.tt
      · subst hs
        rename_i hm k hp
        simp only [PhaseInv, hp] at hph
        have hr : rank (.fgExit k i s.applied) = some (k, 1) := rfl
        refine ⟨?_, h.app, h.bg, ?_, ?_, ?_, ?_, ?_⟩
        · simp only [PhaseInv, hp]
          refine ⟨hph.1, hph.2.1, RB_append hph.2.2 (by simp [hr])⟩
        · intro hd; simp at hd; have := h.disc hd; simp [hp] at this
        · exact serial_append_RB hr h.serial hph.2.2
        · rw [caw_append_other (by simp) (by simp)]; exact h.caw
        · apply nad_no_disc; intro hd; simp at hd; have := h.disc hd; simp [hp] at this
        · exact tt_append h.tt (by simp [trackerTiming, hph.2.1])
    · simp at hs
  | nestedJoin =>
    simp only [step] at hs
    split at hs
    · split at hs <;> simp at hs; subst hs
      rename_i k hp _
      simp only [PhaseInv, hp] at hph
      refine ⟨?_, h.app, h.bg, ?_, h.serial, h.caw, h.nad, h.tt⟩
      · simp only [PhaseInv]; exact ⟨hph.1, hph.2.1, by simpa using hph.2.2.1⟩
      · intro hd; have := h.disc hd; simp [hp] at this
    · simp at hs
  | intJoin =>
    simp only [step] at hs
    split at hs
    · split at hs <;> simp at hs; subst hs
      rename_i k hp _
      simp only [PhaseInv, hp] at hph
      refine ⟨?_, ?_, ?_, ?_, h.serial, h.caw, h.nad, h.tt⟩
      · simp only [PhaseInv]; exact ⟨hph.1, trivial, by simpa using hph.2.2⟩
      · simp; omega
      · intro p hp'; have := h.bg p hp'; simp; omega
      · intro hd; have := h.disc hd; simp [hp] at this
    · simp at hs
  | spawnBg n =>
    simp only [step] at hs
    split at hs <;> simp at hs; subst hs
    rename_i k hp
    simp only [PhaseInv, hp] at hph
    refine ⟨?_, h.app, ?_, ?_, h.serial, h.caw, h.nad, h.tt⟩
    · simp only [PhaseInv]; exact ⟨hph.1, hph.2.1, RB_mono hph.2.2 (by omega)⟩
    · intro p hp'
      simp at hp'
      rcases hp' with hp' | ⟨a, _, rfl⟩
      · exact h.bg p hp'
      · simp [hph.2.1]
    · intro hd; have := h.disc hd; simp [hp] at this
  | startFg n =>
    simp only [step] at hs
    split at hs
    · split at hs <;> simp at hs; subst hs
      rename_i k hp _
      simp only [PhaseInv, hp] at hph
      have hr : rank (.fgStart k n) = none := rfl
      refine ⟨?_, h.app, h.bg, ?_, ?_, ?_, ?_, ?_⟩
      · simp only [PhaseInv, hp]; exact ⟨hph.1, hph.2.1, RB_append_none hph.2.2 hr⟩
      · intro hd; simp at hd; have := h.disc hd; simp [hp] at this
      · simpa [serial_append_none hr] using h.serial
      · rw [caw_append_other (by simp) (by simp)]; exact h.caw
      · exact nad_append_none hr _ h.nad
      · rw [tt_append_other (by simp) (by simp) (by simp)]; exact h.tt
    · simp at hs
  | fgJoin =>
    simp only [step] at hs
    split at hs
    · split at hs <;> simp at hs; subst hs
      rename_i k hp _
      simp only [PhaseInv, hp] at hph
      have hr : rank (.fgDone k) = none := rfl
      refine ⟨?_, h.app, h.bg, ?_, ?_, ?_, ?_, ?_⟩
      · simp only [PhaseInv]; exact RB_append_none (RB_mono hph.2.2 (by omega)) hr
      · intro hd; simp at hd; have := h.disc hd; simp [hp] at this
      · simpa [serial_append_none hr] using h.serial
      · rw [caw_append_other (by simp) (by simp)]; exact h.caw
      · exact nad_append_none hr _ h.nad
      · rw [tt_append_other (by simp) (by simp) (by simp)]; exact h.tt
    · simp at hs
  | bgEnter k i =>
    simp only [step] at hs
    split at hs <;> simp at hs; subst hs
    rename_i hm
    have hr : rank (.bgEnter k i s.applied) = none := rfl
    have hk := h.bg _ hm
    refine ⟨?_, h.app, ?_, ?_, ?_, ?_, ?_, ?_⟩
    · revert hph; simp only [PhaseInv]
      split <;> intro hph
      · exact RB_append_none hph hr
      · exact RB_append_none hph hr
      · exact ⟨hph.1, hph.2.1, RB_append_none hph.2.2 hr⟩
      · exact ⟨hph.1, hph.2.1, RB_append_none hph.2.2.1 hr, by simp [hph.2.2.2]⟩
      · exact ⟨hph.1, hph.2.1, RB_append_none hph.2.2 hr⟩
      · exact ⟨hph.1, hph.2.1, RB_append_none hph.2.2 hr⟩
    · intro p hp'
      rw [List.mem_map] at hp'
      obtain ⟨q, hq, rfl⟩ := hp'
      split
      · exact hk
      · exact h.bg q hq
    · intro hd; simp at hd; exact h.disc hd
    · simpa [serial_append_none hr] using h.serial
    · rw [caw_append_other (by simp) (by simp)]; exact h.caw
    · exact nad_append_none hr _ h.nad
    · exact tt_append h.tt (by simpa [trackerTiming] using hk)
  | bgLeave k i =>
    simp only [step] at hs
    split at hs <;> simp at hs; subst hs
    refine ⟨h.ph, h.app, ?_, h.disc, h.serial, h.caw, h.nad, h.tt⟩
    intro p hp'
    simp at hp'
    exact h.bg p hp'.1
  | beginClose =>
    simp only [step] at hs
    split at hs <;> simp at hs; subst hs
    exact ⟨h.ph, h.app, h.bg, h.disc, h.serial, h.caw, h.nad, h.tt⟩
  | discard =>
    simp only [step] at hs
    split at hs <;> simp at hs; subst hs
    refine ⟨?_, ?_, h.bg, h.disc, h.serial, h.caw, h.nad, h.tt⟩
    · revert hph; simp only [PhaseInv]
      split <;> intro hph
      · exact RB_mono hph (by omega)
      · exact RB_mono hph (by omega)
      · exact ⟨by omega, hph.2⟩
      · exact ⟨by omega, hph.2⟩
      · exact ⟨by omega, hph.2⟩
      · exact ⟨by omega, hph.2⟩
    · have := h.app; simp; omega
  | loopExit =>
    simp only [step] at hs
    split at hs <;> simp at hs; subst hs
    rename_i hc
    simp only [PhaseInv, hc.2] at hph
    refine ⟨?_, h.app, h.bg, ?_, h.serial, h.caw, h.nad, h.tt⟩
    · simpa only [PhaseInv] using hph
    · simp
  | fireDisc =>
    simp only [step] at hs
    split at hs <;> simp at hs; subst hs
    rename_i hc
    simp only [PhaseInv, hc.2] at hph
    have hr : rank .discEnter = none := rfl
    refine ⟨?_, h.app, h.bg, ?_, ?_, ?_, ?_, ?_⟩
    · simp only [PhaseInv, hc.2]; exact RB_append_none hph hr
    · intro _; exact hc.2
    · simpa [serial_append_none hr] using h.serial
    · rw [caw_append_other (by simp) (by simp)]; exact h.caw
    · exact nad_append_none hr _ h.nad
    · rw [tt_append_other (by simp) (by simp) (by simp)]; exact h.tt
  | otherSpawn n =>
    simp only [step] at hs; simp at hs; subst hs
    exact ⟨h.ph, h.app, h.bg, h.disc, h.serial, h.caw, h.nad, h.tt⟩
  | otherLeave =>
    simp only [step] at hs; split at hs <;> simp at hs; subst hs
    exact ⟨h.ph, h.app, h.bg, h.disc, h.serial, h.caw, h.nad, h.tt⟩

theorem inv_reach {s} (h : Reach s) : Inv s := by
  induction h with
  | init => exact inv_init
  | step _ hs ih => exact inv_step ih hs

theorem delivery_ok {s} (h : Reach s) : ok s.log = true := by
  have := inv_reach h
  simp [ok, this.serial, this.caw, this.nad, this.tt]


/-! ## exactly once: the fork/join bookkeeping of one foreground snapshot -/

def fgLine : Obs → Option Nat
  | .fgEnter k _ _ => some k
  | .fgExit k _ _ => some k
  | .fgStart k _ => some k
  | .fgDone k => some k
  | _ => none

/-- every foreground event in the log belongs to a line below `a` -/
def FB (log : List Obs) (a : Nat) : Prop := ∀ o ∈ log, ∀ k, fgLine o = some k → k < a

def isEnter (k i : Nat) : Obs → Bool := fun o => match o with | .fgEnter k' h' _ => k' = k ∧ h' = i | _ => false
def isExit (k i : Nat) : Obs → Bool := fun o => match o with | .fgExit k' h' _ => k' = k ∧ h' = i | _ => false
def cE (log : List Obs) (k i : Nat) : Nat := (log.filter (isEnter k i)).length
def cX (log : List Obs) (k i : Nat) : Nat := (log.filter (isExit k i)).length

theorem cE_append (log o k i) : cE (log ++ [o]) k i = cE log k i + (if isEnter k i o then 1 else 0) := by
  simp only [cE, List.filter_append, List.length_append]
  by_cases h : isEnter k i o = true <;> simp [List.filter, h]

theorem cX_append (log o k i) : cX (log ++ [o]) k i = cX log k i + (if isExit k i o then 1 else 0) := by
  simp only [cX, List.filter_append, List.length_append]
  by_cases h : isExit k i o = true <;> simp [List.filter, h]

theorem cE_zero_of_FB {log k i} (h : FB log k) : cE log k i = 0 := by
  simp only [cE, List.length_eq_zero_iff, List.filter_eq_nil_iff]
  intro o ho
  cases o <;> simp [isEnter]
  rename_i k' h' a
  intro e; have := h _ ho k' rfl; omega

theorem cX_zero_of_FB {log k i} (h : FB log k) : cX log k i = 0 := by
  simp only [cX, List.length_eq_zero_iff, List.filter_eq_nil_iff]
  intro o ho
  cases o <;> simp [isExit]
  rename_i k' h' a
  intro e; have := h _ ho k' rfl; omega

/-- line k's snapshot is complete: every one of its handlers entered once and left once -/
def Complete (log : List Obs) (k : Nat) : Prop :=
  ∀ n, Obs.fgStart k n ∈ log → ∀ i, i < n → cE log k i = 1 ∧ cX log k i = 1

theorem complete_append {log o k} (h : Complete log k) (hS : ∀ n, o ≠ .fgStart k n)
    (hE : ∀ i, isEnter k i o = false) (hX : ∀ i, isExit k i o = false) : Complete (log ++ [o]) k := by
  intro n hn i hi
  simp at hn
  rcases hn with hn | hn
  · simpa [cE_append, cX_append, hE, hX] using h n hn i hi
  · exact absurd hn.symm (hS n)

theorem complete_of_FB {log k a} (h : FB log a) (hk : a ≤ k) : Complete log k := by
  intro n hn
  have := h _ hn k rfl
  omega

/-- the state of handler i of line k's snapshot agrees with what the log says about it -/
def D (hs : List (Nat × HState)) (log : List Obs) (k i : Nat) : Prop :=
  ((i, HState.spawned) ∈ hs ∧ (i, HState.running) ∉ hs ∧ cE log k i = 0 ∧ cX log k i = 0) ∨
  ((i, HState.running) ∈ hs ∧ (i, HState.spawned) ∉ hs ∧ cE log k i = 1 ∧ cX log k i = 0) ∨
  ((i, HState.spawned) ∉ hs ∧ (i, HState.running) ∉ hs ∧ cE log k i = 1 ∧ cX log k i = 1)

/-- the foreground phase of line k after its snapshot has been spawned -/
def Cur (s : St) (k : Nat) : Prop :=
  ∃ n, Obs.fgStart k n ∈ s.log ∧ (∀ n', Obs.fgStart k n' ∈ s.log → n' = n) ∧ Obs.fgDone k ∉ s.log ∧
    (∀ p ∈ s.hs, p.1 < n) ∧ ∀ i, i < n → D s.hs s.log k i

def front (s : St) : Nat :=
  match s.phase with
  | .idle => s.qhead
  | .gone => s.qhead
  | .int k _ => k
  | .nested k => k
  | .intDone k => k
  | .fg k => if s.fgStarted then k + 1 else k

def lineOK (s : St) : Prop :=
  match s.phase with
  | .idle => True
  | .gone => True
  | .int k _ => k < s.qhead
  | .nested k => k < s.qhead
  | .intDone k => k < s.qhead
  | .fg k => k < s.qhead

structure Inv2 (s : St) : Prop where
  line : lineOK s
  fb : FB s.log (front s)
  cur : ∀ k, s.phase = .fg k → if s.fgStarted then Cur s k else s.hs = []
  complete : ∀ k, ¬ (s.phase = .fg k ∧ s.fgStarted = true) → Complete s.log k
  snap : ∀ k i a, Obs.fgEnter k i a ∈ s.log → ∃ n, Obs.fgStart k n ∈ s.log ∧ i < n

theorem FB_mono {log a b} (h : FB log a) (hab : a ≤ b) : FB log b := by
  intro o ho k hk; have := h o ho k hk; omega

theorem FB_append {log o a} (h : FB log a) (ho : ∀ k, fgLine o = some k → k < a) : FB (log ++ [o]) a := by
  intro o' ho' k hk
  simp at ho'
  rcases ho' with ho' | rfl
  · exact h o' ho' k hk
  · exact ho k hk

theorem mem_setH {hs : List (Nat × HState)} {h x i st} :
    (i, st) ∈ setH hs h x ↔ (i ≠ h ∧ (i, st) ∈ hs) ∨ (i = h ∧ st = x ∧ ∃ st', (h, st') ∈ hs) := by
  simp only [setH, List.mem_map]
  constructor
  · rintro ⟨⟨j, t⟩, hm, he⟩
    by_cases e : j = h
    · subst e; simp at he; right; exact ⟨he.1.symm, he.2.symm, t, hm⟩
    · simp [e] at he; left; obtain ⟨rfl, rfl⟩ := he; exact ⟨e, hm⟩
  · rintro (⟨hne, hm⟩ | ⟨rfl, rfl, t, hm⟩)
    · exact ⟨(i, st), hm, by simp [hne]⟩
    · exact ⟨(i, t), hm, by simp⟩

theorem inv2_init : Inv2 {} := by
  constructor
  · simp [lineOK]
  · intro o ho; simp at ho
  · intro k hk; simp at hk
  · intro k _ n hn; simp at hn
  · intro k i a h; simp at h

/-- a step that does not enter, leave or act in a started foreground phase and logs nothing about
foreground handlers -/
theorem inv2_frame {s s' : St} (h : Inv2 s) (hline : lineOK s') (hfront : front s ≤ front s')
    (hfg : ∀ k, s'.phase = .fg k → s.phase = .fg k ∧ s'.fgStarted = s.fgStarted ∧ s'.hs = s.hs)
    (hfg2 : ∀ k, s.phase = .fg k → s.fgStarted = true → s'.phase = .fg k)
    (hl : s'.log = s.log ∨ ∃ o, fgLine o = none ∧ s'.log = s.log ++ [o]) : Inv2 s' := by
  have hcomp : ∀ k, ¬ (s'.phase = .fg k ∧ s'.fgStarted = true) → ¬ (s.phase = .fg k ∧ s.fgStarted = true) := by
    intro k hk ⟨h1, h2⟩
    have h3 := hfg2 k h1 h2
    exact hk ⟨h3, by rw [(hfg k h3).2.1]; exact h2⟩
  rcases hl with hl | ⟨o, ho, hl⟩
  · constructor
    · exact hline
    · rw [hl]; exact FB_mono h.fb hfront
    · intro k hk
      obtain ⟨h1, h2, h3⟩ := hfg k hk
      have := h.cur k h1
      simpa only [h2, Cur, hl, h3] using this
    · intro k hk; rw [hl]; exact h.complete k (hcomp k hk)
    · simpa only [hl] using h.snap
  · have hS : ∀ k n, o ≠ .fgStart k n := by intro k n e; subst e; simp [fgLine] at ho
    have hDn : ∀ k, o ≠ .fgDone k := by intro k e; subst e; simp [fgLine] at ho
    have hE : ∀ k i, isEnter k i o = false := by intro k i; cases o <;> simp_all [isEnter, fgLine]
    have hX : ∀ k i, isExit k i o = false := by intro k i; cases o <;> simp_all [isExit, fgLine]
    constructor
    · exact hline
    · rw [hl]; exact FB_mono (FB_append (o := o) h.fb (by simp [ho])) hfront
    · intro k hk
      obtain ⟨hk1, hf, hh⟩ := hfg k hk
      have := h.cur k hk1
      rw [hf]
      split
      · rename_i hst
        simp only [hst, if_true] at this
        obtain ⟨n, h1, h2, h3, h4, h5⟩ := this
        refine ⟨n, by simp [hl, h1], ?_, ?_, by simpa only [hh] using h4, ?_⟩
        · intro n' hn'; simp [hl] at hn'
          rcases hn' with hn' | hn'
          · exact h2 n' hn'
          · exact absurd hn'.symm (hS k n')
        · simp [hl, h3]; exact fun e => hDn k e.symm
        · intro i hi
          simpa [D, hh, hl, cE_append, cX_append, hE, hX] using h5 i hi
      · rename_i hst
        simp [hst] at this
        simpa only [hh] using this
    · intro k hk; rw [hl]
      exact complete_append (h.complete k (hcomp k hk)) (hS k) (hE k) (hX k)
    · intro k i a hm
      rw [hl] at hm ⊢
      simp at hm
      rcases hm with hm | rfl
      · obtain ⟨n, hn, hi⟩ := h.snap k i a hm
        exact ⟨n, by simp [hn], hi⟩
      · simp [fgLine] at ho

theorem inv2_step {s s' l} (h : Inv2 s) (hs : step s l = some s') : Inv2 s' := by
  have hline := h.line
  cases l with
  | recv =>
    simp only [step] at hs; simp at hs; subst hs
    exact inv2_frame h hline (Nat.le_refl _) (fun k hk => ⟨hk, rfl, rfl⟩) (fun k hk _ => hk) (Or.inl rfl)
  | take w n =>
    simp only [step] at hs; split at hs <;> simp at hs; subst hs
    rename_i hc
    refine inv2_frame h ?_ ?_ ?_ ?_ (Or.inl rfl)
    · simp [lineOK]
    · simp [front, hc.1]
    · intro k hk; simp at hk
    · intro k hk; simp [hc.1] at hk
  | intLeave =>
    simp only [step] at hs
    split at hs
    · split at hs <;> simp at hs; subst hs
      exact inv2_frame h hline (Nat.le_refl _) (fun k hk => ⟨hk, rfl, rfl⟩) (fun k hk _ => hk) (Or.inl rfl)
    · split at hs <;> simp at hs; subst hs
      exact inv2_frame h hline (Nat.le_refl _) (fun k hk => ⟨hk, rfl, rfl⟩) (fun k hk _ => hk) (Or.inl rfl)
    · simp at hs
  | welcome n =>
    simp only [step] at hs
    split at hs <;> simp at hs; subst hs
    rename_i k hp
    refine inv2_frame h ?_ ?_ ?_ ?_ (Or.inr ⟨_, ?_, rfl⟩)
    · simpa [lineOK, hp] using hline
    · simp [front, hp]
    · intro k hk; simp at hk
    · intro k hk; simp [hp] at hk
    · rfl
  | hEnter i =>
    simp only [step] at hs
    split at hs
    · split at hs <;> simp at hs
      · subst hs
        rename_i hm k hp
        refine inv2_frame h ?_ ?_ ?_ ?_ (Or.inr ⟨_, ?_, rfl⟩)
        · simpa [lineOK, hp] using hline
        · simp [front, hp]
        · intro k' hk'; simp [hp] at hk'
        · intro k' hk'; simp [hp] at hk'
        · rfl
      · subst hs
        rename_i hm _ k hp
        have hcur := h.cur k hp
        have hst : s.fgStarted = true := by
          cases hf : s.fgStarted
          · simp [hf] at hcur; simp [hcur] at hm
          · rfl
        simp only [hst, if_true] at hcur
        obtain ⟨n, h1, h2, h3, h4, h5⟩ := hcur
        have hin : i < n := h4 _ hm
        have hfb : FB s.log (k + 1) := by have := h.fb; simpa [front, hp, hst] using this
        constructor
        · simpa [lineOK, hp] using hline
        · simp only [front, hp, hst, if_true]
          exact FB_append hfb (by simp [fgLine])
        · intro k' hk'
          simp only [hp, Phase.fg.injEq] at hk'; subst hk'
          simp only [hst, if_true]
          refine ⟨n, by simp [h1], ?_, by simp [h3], ?_, ?_⟩
          · intro n' hn'; simp at hn'; exact h2 n' hn'
          · intro p hp'
            obtain ⟨j, st⟩ := p
            rw [mem_setH] at hp'
            rcases hp' with ⟨_, hp'⟩ | ⟨rfl, _, _⟩
            · exact h4 _ hp'
            · exact hin
          · intro j hj
            have hD := h5 j hj
            by_cases e : j = i
            · subst e
              have hr : (j, HState.running) ∉ s.hs ∧ cE s.log k j = 0 ∧ cX s.log k j = 0 := by
                rcases hD with hD | hD | hD
                · exact hD.2
                · exact absurd hm hD.2.1
                · exact absurd hm hD.1
              right; left
              refine ⟨?_, ?_, ?_, ?_⟩
              · rw [mem_setH]; right; exact ⟨rfl, rfl, _, hm⟩
              · rw [mem_setH]; simp
              · simp [cE_append, isEnter, hr.2.1]
              · simp [cX_append, isExit, hr.2.2]
            · have e' : ¬ i = j := fun x => e x.symm
              simpa [D, mem_setH, e, cE_append, cX_append, isEnter, isExit, e'] using hD
        · intro k' hk'
          have hne : k' ≠ k := by intro e; subst e; simp [hp, hst] at hk'
          have hne' : ¬ k = k' := fun e => hne e.symm
          exact complete_append (h.complete k' (by simp [hp]; intro e; exact absurd e.symm hne)) (by simp)
            (by simp [isEnter, hne']) (by simp [isExit])
        · intro k' j a hm'
          simp at hm'
          rcases hm' with hm' | ⟨rfl, rfl, _⟩
          · obtain ⟨n', hn', hi⟩ := h.snap k' j a hm'
            exact ⟨n', by simp [hn'], hi⟩
          · exact ⟨n, by simp [h1], hin⟩
    · simp at hs
  | hLeave i =>
    simp only [step] at hs
    split at hs
    · split at hs <;> simp at hs
      · subst hs
        rename_i hm k hp
        refine inv2_frame h ?_ ?_ ?_ ?_ (Or.inr ⟨_, ?_, rfl⟩)
        · simpa [lineOK, hp] using hline
        · simp [front, hp]
        · intro k' hk'; simp [hp] at hk'
        · intro k' hk'; simp [hp] at hk'
        · rfl
      · subst hs
        rename_i hm _ k hp
        have hcur := h.cur k hp
        have hst : s.fgStarted = true := by
          cases hf : s.fgStarted
          · simp [hf] at hcur; simp [hcur] at hm
          · rfl
        simp only [hst, if_true] at hcur
        obtain ⟨n, h1, h2, h3, h4, h5⟩ := hcur
        have hin : i < n := h4 _ hm
        have hfb : FB s.log (k + 1) := by have := h.fb; simpa [front, hp, hst] using this
        constructor
        · simpa [lineOK, hp] using hline
        · simp only [front, hp, hst, if_true]
          exact FB_append hfb (by simp [fgLine])
        · intro k' hk'
          simp only [hp, Phase.fg.injEq] at hk'; subst hk'
          simp only [hst, if_true]
          refine ⟨n, by simp [h1], ?_, by simp [h3], ?_, ?_⟩
          · intro n' hn'; simp at hn'; exact h2 n' hn'
          · intro p hp'
            simp at hp'
            exact h4 _ hp'.1
          · intro j hj
            have hD := h5 j hj
            by_cases e : j = i
            · subst e
              have hr : (j, HState.spawned) ∉ s.hs ∧ cE s.log k j = 1 ∧ cX s.log k j = 0 := by
                rcases hD with hD | hD | hD
                · exact absurd hm hD.2.1
                · exact hD.2
                · exact absurd hm hD.2.1
              right; right
              refine ⟨?_, ?_, ?_, ?_⟩
              · simp
              · simp
              · simp [cE_append, isEnter, hr.2.1]
              · simp [cX_append, isExit, hr.2.2]
            · have e' : ¬ i = j := fun x => e x.symm
              simpa [D, e, cE_append, cX_append, isEnter, isExit, e'] using hD
        · intro k' hk'
          have hne : k' ≠ k := by intro e; subst e; simp [hp, hst] at hk'
          have hne' : ¬ k = k' := fun e => hne e.symm
          exact complete_append (h.complete k' (by simp [hp]; intro e; exact absurd e.symm hne)) (by simp)
            (by simp [isEnter]) (by simp [isExit, hne'])
        · intro k' j a hm'
          simp at hm'
          obtain ⟨n', hn', hi⟩ := h.snap k' j a hm'
          exact ⟨n', by simp [hn'], hi⟩
    · simp at hs
  | nestedJoin =>
    simp only [step] at hs
    split at hs
    · split at hs <;> simp at hs; subst hs
      rename_i k hp _
      refine inv2_frame h ?_ ?_ ?_ ?_ (Or.inl rfl)
      · simpa [lineOK, hp] using hline
      · simp [front, hp]
      · intro k hk; simp at hk
      · intro k hk; simp [hp] at hk
    · simp at hs
  | intJoin =>
    simp only [step] at hs
    split at hs
    · split at hs <;> simp at hs; subst hs
      rename_i k hp _
      refine inv2_frame h ?_ ?_ ?_ ?_ (Or.inl rfl)
      · simpa [lineOK, hp] using hline
      · simp [front, hp]
      · intro k hk; simp at hk
      · intro k hk; simp [hp] at hk
    · simp at hs
  | spawnBg n =>
    simp only [step] at hs
    split at hs <;> simp at hs; subst hs
    rename_i k hp
    constructor
    · simpa [lineOK, hp] using hline
    · have := h.fb; simpa [front, hp] using this
    · intro k' _; simp
    · intro k' _; exact h.complete k' (by simp [hp])
    · exact h.snap
  | startFg n =>
    simp only [step] at hs
    split at hs
    · split at hs <;> simp at hs; subst hs
      rename_i k hp hst
      have hfb : FB s.log k := by have := h.fb; simpa [front, hp, hst] using this
      constructor
      · simpa [lineOK, hp] using hline
      · simp only [front, hp, if_true]
        exact FB_append (FB_mono hfb (Nat.le_succ k)) (by simp [fgLine])
      · intro k' hk'
        simp only [hp, Phase.fg.injEq] at hk'; subst hk'
        simp only [if_true]
        refine ⟨n, by simp, ?_, ?_, ?_, ?_⟩
        · intro n' hn'
          simp at hn'
          rcases hn' with hn' | hn'
          · have := hfb _ hn' k rfl; omega
          · exact hn'
        · simp; intro hd; have := hfb _ hd k rfl; omega
        · intro p hp'; simp at hp'; obtain ⟨a, ha, rfl⟩ := hp'; exact ha
        · intro i hi
          left
          refine ⟨by simp [hi], by simp, ?_, ?_⟩
          · simp [cE_append, isEnter, cE_zero_of_FB hfb]
          · simp [cX_append, isExit, cX_zero_of_FB hfb]
      · intro k' hk'
        have hne : k' ≠ k := by intro e; subst e; simp [hp] at hk'
        exact complete_append (h.complete k' (by simp [hst])) (by simp; intro e; exact absurd e.symm hne)
          (by simp [isEnter]) (by simp [isExit])
      · intro k' i a hm
        simp at hm
        obtain ⟨n', hn', hi⟩ := h.snap k' i a hm
        exact ⟨n', by simp [hn'], hi⟩
    · simp at hs
  | fgJoin =>
    simp only [step] at hs
    split at hs
    · split at hs <;> simp at hs; subst hs
      rename_i k hp hc
      have hcur := h.cur k hp
      simp only [hc.2, if_true] at hcur
      obtain ⟨n, h1, h2, h3, h4, h5⟩ := hcur
      have hk : k < s.qhead := by simpa [lineOK, hp] using hline
      have hfb : FB s.log (k + 1) := by have := h.fb; simpa [front, hp, hc.2] using this
      have hall : ∀ k', Complete s.log k' := by
        intro k'
        by_cases e : k' = k
        · subst e
          intro n' hn' i hi
          rw [h2 n' hn'] at hi
          have := h5 i hi
          simp [D, hc.1] at this
          exact this
        · exact h.complete k' (by simp [hp]; intro e'; exact absurd e'.symm e)
      constructor
      · simp [lineOK]
      · simp only [front]
        exact FB_append (FB_mono hfb (by omega)) (by simp [fgLine]; omega)
      · intro k' hk'; simp at hk'
      · intro k' _
        exact complete_append (hall k') (by simp) (by simp [isEnter]) (by simp [isExit])
      · intro k' i a hm
        simp at hm
        obtain ⟨n', hn', hi⟩ := h.snap k' i a hm
        exact ⟨n', by simp [hn'], hi⟩
    · simp at hs
  | bgEnter k i =>
    simp only [step] at hs
    split at hs <;> simp at hs; subst hs
    exact inv2_frame h hline (Nat.le_refl _) (fun k hk => ⟨hk, rfl, rfl⟩) (fun k hk _ => hk) (Or.inr ⟨_, rfl, rfl⟩)
  | bgLeave k i =>
    simp only [step] at hs
    split at hs <;> simp at hs; subst hs
    exact inv2_frame h hline (Nat.le_refl _) (fun k hk => ⟨hk, rfl, rfl⟩) (fun k hk _ => hk) (Or.inl rfl)
  | beginClose =>
    simp only [step] at hs
    split at hs <;> simp at hs; subst hs
    exact inv2_frame h hline (Nat.le_refl _) (fun k hk => ⟨hk, rfl, rfl⟩) (fun k hk _ => hk) (Or.inl rfl)
  | discard =>
    simp only [step] at hs
    split at hs <;> simp at hs; subst hs
    refine inv2_frame h ?_ ?_ (fun k hk => ⟨hk, rfl, rfl⟩) (fun k hk _ => hk) (Or.inl rfl)
    · revert hline; simp only [lineOK]; split <;> intro hline <;> first | trivial | omega
    · simp only [front]; split <;> simp
  | loopExit =>
    simp only [step] at hs
    split at hs <;> simp at hs; subst hs
    rename_i hc
    refine inv2_frame h ?_ ?_ ?_ ?_ (Or.inl rfl)
    · simp [lineOK]
    · simp [front, hc.2]
    · intro k hk; simp at hk
    · intro k hk; simp [hc.2] at hk
  | fireDisc =>
    simp only [step] at hs
    split at hs <;> simp at hs; subst hs
    exact inv2_frame h hline (Nat.le_refl _) (fun k hk => ⟨hk, rfl, rfl⟩) (fun k hk _ => hk) (Or.inr ⟨_, rfl, rfl⟩)
  | otherSpawn n =>
    simp only [step] at hs; simp at hs; subst hs
    exact inv2_frame h hline (Nat.le_refl _) (fun k hk => ⟨hk, rfl, rfl⟩) (fun k hk _ => hk) (Or.inl rfl)
  | otherLeave =>
    simp only [step] at hs; split at hs <;> simp at hs; subst hs
    exact inv2_frame h hline (Nat.le_refl _) (fun k hk => ⟨hk, rfl, rfl⟩) (fun k hk _ => hk) (Or.inl rfl)


theorem inv2_reach {s} (h : Reach s) : Inv2 s := by
  induction h with
  | init => exact inv2_init
  | step _ hs ih => exact inv2_step ih hs

end Proofs.C03
