import Goirc.Proofs.C13Ops
import Goirc.Proofs.C13Parse
import Goirc.Proofs.C13Inv
/-!
# C13: NICK, TOPIC and the client's own user-mode change bring the relational state to the new view
-/
namespace Proofs.C13
open Go Go.Client Go.Tracker Spec.Tracker Spec.Net

private theorem tFeed_one_NICK (ext : UnicodeExt) (nn : Bytes → Bytes) (S : TS) (raw nick ident host : Bytes) (args : List Bytes)
    (hp : ParsesTo ext raw nick ident host (lit "NICK") args) :
    tFeed ext nn S [raw] = t_STNICK S { nick := nick, ident := ident, host := host, args := args } := by
  obtain ⟨L, hL, h1, h2, h3, h4, h5⟩ := hp
  have hv := (toLower_verbs ext).2.2.2.2.1
  simp only [tFeed, hL, tDispatch, h4, hv]
  have e1 : (lit "nick" == lit "001") = false := by decide
  have e2 : (lit "nick" == lit "433") = false := by decide
  have e3 : stTwin (lit "nick") = some t_STNICK := by
    simp only [stTwin]
    rfl
  simp only [e1, e2, e3]
  simp [t_STNICK, arg, h1, h5]

private theorem tFeed_one_TOPIC (ext : UnicodeExt) (nn : Bytes → Bytes) (S : TS) (raw nick ident host : Bytes) (args : List Bytes)
    (hp : ParsesTo ext raw nick ident host (lit "TOPIC") args) :
    tFeed ext nn S [raw] = t_TOPIC S { nick := nick, ident := ident, host := host, args := args } := by
  obtain ⟨L, hL, h1, h2, h3, h4, h5⟩ := hp
  have hv := (toLower_verbs ext).2.2.2.2.2.1
  simp only [tFeed, hL, tDispatch, h4, hv]
  have e1 : (lit "topic" == lit "001") = false := by decide
  have e2 : (lit "topic" == lit "433") = false := by decide
  have e3 : stTwin (lit "topic") = some t_TOPIC := by
    simp only [stTwin]
    rfl
  simp only [e1, e2, e3]
  simp [t_TOPIC, arg, h5]

private theorem tFeed_one_MODE (ext : UnicodeExt) (nn : Bytes → Bytes) (S : TS) (raw nick ident host : Bytes) (args : List Bytes)
    (hp : ParsesTo ext raw nick ident host (lit "MODE") args) :
    tFeed ext nn S [raw] = t_MODE S { nick := nick, ident := ident, host := host, args := args } := by
  obtain ⟨L, hL, h1, h2, h3, h4, h5⟩ := hp
  have hv := (toLower_verbs ext).2.2.2.2.2.2.1
  simp only [tFeed, hL, tDispatch, h4, hv]
  have e1 : (lit "mode" == lit "001") = false := by decide
  have e2 : (lit "mode" == lit "433") = false := by decide
  have e3 : stTwin (lit "mode") = some t_MODE := by
    simp only [stTwin]
    rfl
  simp only [e1, e2, e3]
  simp [t_MODE, arg, h5]

private theorem onChan_user {n : Net} (hi : NetInv n) {u c : Bytes} (h : onChan n u c = true) :
    AL.has n.users u = true ∧ chanOk c = true := by
  unfold onChan at h
  cases hl : AL.lookup n.chans c with
  | none => simp [hl] at h
  | some ch =>
    simp only [hl] at h
    have ci := hi.chan_inv c ch hl
    exact ⟨ci.members_users u h, ci.name⟩

private theorem nickOk_nameOk {s : Bytes} (h : nickOk s = true) : nameOk s = true := by
  simp [nickOk] at h; exact h.1

private theorem chanOk_nameOk {s : Bytes} (h : chanOk s = true) : nameOk s = true := by
  simp [chanOk] at h; exact h.2

theorem ev_nick (ext : UnicodeExt) (nn : Bytes → Bytes) (n : Net) (u nw : Bytes) (hi : NetInv n)
    (hc : conforms n (.nick u nw) = true) :
    Eqv (tFeed ext nn n.view (serverStep n (.nick u nw)).2) (serverStep n (.nick u nw)).1.view := by
  simp only [conforms, Bool.and_eq_true, Bool.not_eq_true'] at hc
  obtain ⟨⟨hu, hnw⟩, hnok⟩ := hc
  obtain ⟨x, hx⟩ := (AL.has_true_iff _ _).1 hu
  obtain ⟨hux, hxi, hxh, _⟩ := hi.users_ok u x hx
  simp only [serverStep]
  cases hvis : (u == n.me || sharesWithMe n u) with
  | false => simp only [Bool.false_eq_true, if_false, tFeed]; exact Eqv.refl _
  | true =>
    simp only [if_true]
    have hvn := hi.view_nicks u
    rw [hvis] at hvn
    obtain ⟨r, hr⟩ := (AL.has_true_iff _ _).1 hvn
    simp only [hr]
    have hp := parse_NICK ext u x.ident x.host (nickOk_nameOk hux) hxi hxh nw hnok
    have hm : userMask n u = u ++ [33] ++ x.ident ++ [64] ++ x.host := by simp [userMask, hx]
    rw [hm, tFeed_one_NICK ext nn _ _ _ _ _ _ hp]
    have hnew : AL.has n.view.nicks nw = false := by
      rw [hi.view_nicks nw]
      cases h1 : (nw == n.me) with
      | true =>
        have : nw = n.me := by simpa using h1
        rw [this, hi.me_user] at hnw; cases hnw
      | false =>
        cases h2 : sharesWithMe n nw with
        | false => rfl
        | true =>
          obtain ⟨c, hc1, _⟩ := (sharesWithMe_iff n hi.chans_nodup nw).1 h2
          have := (onChan_user hi hc1).1
          rw [this] at hnw; cases hnw
    simp only [t_STNICK, arg, List.getElem?_cons_zero, sx, Spec.Tracker.step, hr, hnew]
    exact Eqv.refl _


theorem ev_topic (ext : UnicodeExt) (nn : Bytes → Bytes) (n : Net) (u c t : Bytes) (hi : NetInv n)
    (hc : conforms n (.topic u c t) = true) :
    Eqv (tFeed ext nn n.view (serverStep n (.topic u c t)).2) (serverStep n (.topic u c t)).1.view := by
  simp only [conforms, Bool.and_eq_true] at hc
  obtain ⟨huc, _⟩ := hc
  obtain ⟨hu, hcok⟩ := onChan_user hi huc
  obtain ⟨x, hx⟩ := (AL.has_true_iff _ _).1 hu
  obtain ⟨hux, hxi, hxh, _⟩ := hi.users_ok u x hx
  simp only [serverStep]
  cases hl : AL.lookup n.chans c with
  | none => simp only [tFeed]; exact Eqv.refl _
  | some ch =>
    simp only []
    cases hvis : onChan n n.me c with
    | false => simp only [Bool.false_eq_true, if_false, tFeed, setChan]; exact Eqv.refl _
    | true =>
      simp only [if_true, setChan]
      have hvc := hi.view_chans c
      rw [hvis] at hvc
      obtain ⟨r, hr⟩ := (AL.has_true_iff _ _).1 hvc
      have hp := parse_TOPIC ext u x.ident x.host (nickOk_nameOk hux) hxi hxh c t (chanOk_nameOk hcok)
      have hm : userMask n u = u ++ [33] ++ x.ident ++ [64] ++ x.host := by simp [userMask, hx]
      rw [hm, tFeed_one_TOPIC ext nn _ _ _ _ _ _ hp]
      simp only [t_TOPIC, arg, List.getElem?_cons_zero, List.getElem?_cons_succ, hvc, if_true, sx,
        Spec.Tracker.step, hr, Option.getD_some]
      exact Eqv.refl _

private theorem head_of_chanOk {s : Bytes} (h : chanOk s = true) : s.head? = some 35 := by
  simp [chanOk] at h; exact h.1

theorem ev_umode (ext : UnicodeExt) (nn : Bytes → Bytes) (n : Net) (add : Bool) (l : UInt8) (hi : NetInv n)
    (hc : conforms n (.umode add l) = true) :
    Eqv (tFeed ext nn n.view (serverStep n (.umode add l)).2) (serverStep n (.umode add l)).1.view := by
  simp only [conforms] at hc
  have hl : l = 66 ∨ l = 105 ∨ l = 111 ∨ l = 119 ∨ l = 120 ∨ l = 122 := by simpa using hc
  obtain ⟨x, hx⟩ := (AL.has_true_iff _ _).1 hi.me_user
  obtain ⟨hmeok, _, _, _⟩ := hi.users_ok n.me x hx
  have hrange : 32 < l ∧ l < 127 := by
    rcases hl with h | h | h | h | h | h <;> subst h <;> decide
  have hsign : (if add then (43:UInt8) else 45) = 43 ∨ (if add then (43:UInt8) else 45) = 45 := by
    cases add <;> simp
  have hp := parse_UMODE ext n.me (nickOk_nameOk hmeok) (if add then 43 else 45) l hsign hrange
  simp only [serverStep]
  rw [tFeed_one_MODE ext nn _ _ _ _ _ _ hp]
  have hnochan : AL.has n.view.chans n.me = false := by
    rw [hi.view_chans]
    cases h : onChan n n.me n.me with
    | false => rfl
    | true =>
      have h35 := head_of_chanOk (onChan_user hi h).2
      simp [nickOk, nickHeadOk, h35] at hmeok
  have hnick : AL.has n.view.nicks n.me = true := by
    rw [hi.view_nicks]; simp
  obtain ⟨r, hr⟩ := (AL.has_true_iff _ _).1 hnick
  have hmodes : nickParseModes r.modes false [if add then 43 else 45, l] = applyNickMode r.modes add l := by
    have h43 : (l == 43) = false := by rcases hl with h | h | h | h | h | h <;> subst h <;> decide
    have h45 : (l == 45) = false := by rcases hl with h | h | h | h | h | h <;> subst h <;> decide
    cases add <;> simp [nickParseModes, h43, h45]
  simp only [t_MODE, arg, List.getElem?_cons_zero, List.getElem?_cons_succ, hnochan, hnick, hi.me_view, beq_self_eq_true,
    Bool.false_eq_true, if_false, if_true, sx, Spec.Tracker.step, hr, Option.getD_some, hmodes]
  exact Eqv.refl _

end Proofs.C13

