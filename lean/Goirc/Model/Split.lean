import Goirc.Go.Bytes
/-!
# Model of `splitMessage` / `indexFragment` (client/commands.go:48-86)

`splitLoop` is the `for len(msg) > splitLen` loop; its termination proof *is* the
"always advances" part of property C11 (`cutIdx_bound`: every cut is at least 2 bytes in).
-/
namespace Go

theorem lastIndex2_bound (a b : UInt8) (s : Bytes) (i : Nat) (acc : Int)
    (h : acc = -1 ∨ (0 ≤ acc ∧ acc + 2 ≤ i + s.length)) :
    lastIndex2 a b s i acc = -1 ∨ (0 ≤ lastIndex2 a b s i acc ∧ lastIndex2 a b s i acc + 2 ≤ i + s.length) := by
  induction s generalizing i acc with
  | nil => simpa [lastIndex2] using h
  | cons x rest ih =>
    cases rest with
    | nil => simpa [lastIndex2] using h
    | cons y rest =>
      simp only [lastIndex2]
      have := ih (i+1) (if x == a && y == b then (i : Int) else acc) (by
        split
        · right; simp; omega
        · rcases h with h | h
          · left; exact h
          · right; simp at h ⊢; omega)
      simp at this ⊢
      omega

theorem lastIndex1_bound (a : UInt8) (s : Bytes) (i : Nat) (acc : Int)
    (h : acc = -1 ∨ (0 ≤ acc ∧ acc + 1 ≤ i + s.length)) :
    lastIndex1 a s i acc = -1 ∨ (0 ≤ lastIndex1 a s i acc ∧ lastIndex1 a s i acc + 1 ≤ i + s.length) := by
  induction s generalizing i acc with
  | nil => simpa [lastIndex1] using h
  | cons x rest ih =>
      simp only [lastIndex1]
      have := ih (i+1) (if x == a then (i : Int) else acc) (by
        split
        · right; simp; omega
        · rcases h with h | h
          · left; exact h
          · right; simp at h ⊢; omega)
      simp at this ⊢
      omega

def seps : List UInt8 := [46, 58, 59, 44, 33, 63, 34, 39]

def fragMax (s : Bytes) : Int :=
  seps.foldl (fun m p => if lastIndex2 p 32 s 0 (-1) > m then lastIndex2 p 32 s 0 (-1) else m) (-1)

def indexFragment (s : Bytes) : Int :=
  if fragMax s > 0 then fragMax s + 2
  else if lastIndex1 32 s 0 (-1) > 0 then lastIndex1 32 s 0 (-1) + 1 else -1

theorem fragMax_bound (s : Bytes) : fragMax s = -1 ∨ (0 ≤ fragMax s ∧ fragMax s + 2 ≤ s.length) := by
  have hfold : ∀ (l : List UInt8) (m : Int), (m = -1 ∨ (0 ≤ m ∧ m + 2 ≤ s.length)) →
      ((l.foldl (fun m p => if lastIndex2 p 32 s 0 (-1) > m then lastIndex2 p 32 s 0 (-1) else m) m) = -1 ∨
       (0 ≤ (l.foldl (fun m p => if lastIndex2 p 32 s 0 (-1) > m then lastIndex2 p 32 s 0 (-1) else m) m) ∧
        (l.foldl (fun m p => if lastIndex2 p 32 s 0 (-1) > m then lastIndex2 p 32 s 0 (-1) else m) m) + 2 ≤ s.length)) := by
    intro l
    induction l with
    | nil => intro m h; simpa using h
    | cons p l ih =>
      intro m h
      simp only [List.foldl_cons]
      apply ih
      have hb := lastIndex2_bound p 32 s 0 (-1) (Or.inl rfl)
      split
      · simpa using hb
      · exact h
  exact hfold seps (-1) (Or.inl rfl)

theorem indexFragment_bound (s : Bytes) :
    indexFragment s = -1 ∨ (2 ≤ indexFragment s ∧ indexFragment s ≤ s.length) := by
  unfold indexFragment
  have h1 := fragMax_bound s
  have h2 := lastIndex1_bound 32 s 0 (-1) (Or.inl rfl)
  simp at h2
  split
  · right; omega
  · split
    · right; omega
    · left; rfl

def dots : Bytes := [46, 46, 46]

def cutIdx (msg : Bytes) (splitLen : Nat) : Nat :=
  if indexFragment (msg.take (splitLen - 3)) < 0 then splitLen - 3
  else (indexFragment (msg.take (splitLen - 3))).toNat

theorem cutIdx_bound (msg : Bytes) (splitLen : Nat) (h : 13 ≤ splitLen) (hl : splitLen < msg.length) :
    2 ≤ cutIdx msg splitLen ∧ cutIdx msg splitLen ≤ splitLen - 3 := by
  unfold cutIdx
  have hb := indexFragment_bound (msg.take (splitLen - 3))
  have : (msg.take (splitLen - 3)).length = splitLen - 3 := by simp; omega
  rw [this] at hb
  split <;> omega

/-- splitMessage's loop, after the splitLen default has been applied. -/
def splitLoop (msg : Bytes) (splitLen : Nat) (h : 13 ≤ splitLen) : List Bytes :=
  if hl : splitLen < msg.length then
    (msg.take (cutIdx msg splitLen) ++ dots) :: splitLoop (msg.drop (cutIdx msg splitLen)) splitLen h
  else [msg]
termination_by msg.length
decreasing_by
  have := cutIdx_bound msg splitLen h hl
  simp [List.length_drop]; omega

def splitMessage (msg : Bytes) (splitLen : Int) : List Bytes :=
  if h : splitLen < 13 then splitLoop msg 450 (by decide) else splitLoop msg splitLen.toNat (by omega)

end Go
