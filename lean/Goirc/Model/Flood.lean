/-!
# Model of flood protection (client/connection.go:571-611)

Durations and clock readings are `Int` nanoseconds.  `rateLimit` reads the clock twice: `t`
(to compute `elapsed := Now().Sub(lastsent)`) and `l` (stored as the new `lastsent`).
`write` then sleeps for the returned duration unless `cfg.Flood`, and writes at `w`.
int64 wrap-around is not modelled (unreachable below 9·10⁹ characters per line).
-/
namespace Go.Flood

def second : Int := 1000000000

/-- `linetime := 2*time.Second + time.Duration(chars)*time.Second/120` -/
def charge (chars : Nat) : Int := 2 * second + (chars : Int) * second / 120

structure St where
  badness : Int
  lastsent : Int
deriving DecidableEq, Repr

/-- the arithmetic of `rateLimit` given the elapsed time it computed:
returns the new badness and the returned duration -/
def rate (chars : Nat) (badness elapsed : Int) : Int × Int :=
  let b1 := badness + (charge chars - elapsed)
  let b2 := if b1 < 0 then 0 else b1
  (b2, if b2 > 10 * second then charge chars else 0)

/-- one line's passage through `write`: its length and the three moments that matter -/
structure Ev where
  chars : Nat
  t : Int   -- first clock read in rateLimit
  l : Int   -- second clock read (becomes lastsent)
  w : Int   -- the moment the line is written to the socket
deriving Repr

/-- state after `rateLimit` for this line -/
def next (s : St) (e : Ev) : St := ⟨(rate e.chars s.badness (e.t - s.lastsent)).1, e.l⟩

/-- how long `write` holds the line back (flood protection on) -/
def delay (s : St) (e : Ev) : Int := (rate e.chars s.badness (e.t - s.lastsent)).2

/-- `write` with the `cfg.Flood` switch: with Flood set `rateLimit` is not called at all -/
def writeStep (flood : Bool) (s : St) (e : Ev) : St × Int :=
  if flood then (s, 0) else (next s e, delay s e)

/-- What the environment guarantees about a run of lines written with protection on, starting in
state `s` with the previous write (or the client's creation) at `pw`: clocks are monotone
(`pw ≤ t ≤ l`), the sleep is not cut short (`l + delay ≤ w`), and lines go through `write`
one after the other. Scheduling delays are otherwise arbitrary. -/
def Valid : St → Int → List Ev → Prop
  | _, _, [] => True
  | s, pw, e :: es => pw ≤ e.t ∧ e.t ≤ e.l ∧ e.l + delay s e ≤ e.w ∧ Valid (next s e) e.w es

def final : St → List Ev → St
  | s, [] => s
  | s, e :: es => final (next s e) es

def lastW : Int → List Ev → Int
  | pw, [] => pw
  | _, e :: es => lastW e.w es

def totalCharge (es : List Ev) : Int := (es.map fun e => charge e.chars).sum

/-- the charge of the first line of a list (0 if there is none) -/
def headCharge : List Ev → Int
  | [] => 0
  | e :: _ => charge e.chars

/-- a fresh client: `badness = 0`, `lastsent = time.Now()` at creation -/
def fresh (t0 : Int) : St := ⟨0, t0⟩

end Go.Flood
