import Goirc.Go.Strings
/-!
# Model of the line parser and the `Line` accessors (client/line.go)

`parseLine` transcribes `ParseLine` statement by statement.  Every index/slice expression of the
Go code is guarded in the source (after the `fix:` commits listed in known_findings.json), so the
model has no panic outcome: a Go panic on any input shows up as a disagreement with this model and
as a C02 Spec failure.  `Line.Time` is not modelled.
-/
namespace Go

/-- a Go `map[string]string` built by successive assignments: later keys replace earlier ones -/
def mapInsert (m : List (Bytes × Bytes)) (k v : Bytes) : List (Bytes × Bytes) :=
  if m.any (·.1 == k) then m.map (fun p => if p.1 == k then (k, v) else p) else m ++ [(k, v)]

def mapLookup (m : List (Bytes × Bytes)) (k : Bytes) : Option Bytes :=
  (m.find? (·.1 == k)).map (·.2)

structure Line where
  tags : Option (List (Bytes × Bytes)) := none   -- `nil` map when no tag section was sent
  nick : Bytes := []
  ident : Bytes := []
  host : Bytes := []
  src : Bytes := []
  cmd : Bytes := []
  raw : Bytes := []
  args : List Bytes := []
deriving DecidableEq, Repr

/-- the byte an escape letter stands for -/
def unesc1 (y : UInt8) : Option UInt8 :=
  if y == 58 then some 59          -- \: → ;
  else if y == 115 then some 32    -- \s → space
  else if y == 92 then some 92     -- \\ → \
  else if y == 114 then some 13    -- \r → CR
  else if y == 110 then some 10    -- \n → LF
  else none

/-- `tagsReplacer.Replace`: the five IRCv3 escapes, scanned left to right without overlap
(Go's generic Replacer: at each position the first matching pair wins; all olds are two bytes
starting with a backslash, so matches never overlap) -/
def unescapeTag : Bytes → Bytes
  | [] => []
  | [x] => [x]
  | x :: y :: xs =>
    if x == 92 then
      match unesc1 y with
      | some c => c :: unescapeTag xs
      | none => x :: unescapeTag (y :: xs)
    else x :: unescapeTag (y :: xs)

/-- the loop body over `strings.Split(rawTags, ";")` -/
def addTag (m : List (Bytes × Bytes)) (tag : Bytes) : List (Bytes × Bytes) :=
  if tag.isEmpty then m else
  match cut (unescapeTag tag) [61] with
  | (_, none) => mapInsert m tag []            -- key only: note the *raw* tag is the key
  | (k, some v) => mapInsert m k v

def parseTags (rawTags : Bytes) : List (Bytes × Bytes) :=
  (splitByte 59 [] rawTags).foldl addTag []

/-- `parseUserHost` (line.go:207-214) -/
def parseUserHost (uh0 : Bytes) : Option (Bytes × Bytes × Bytes) :=
  let uh := trimSpace uh0
  match indexByte uh 33, indexByte uh 64 with
  | some nidx, some uidx =>
    if uidx < nidx then none
    else some (uh.take nidx, (uh.take uidx).drop (nidx + 1), uh.drop (uidx + 1))
  | _, _ => none

def PRIVMSG := lit "PRIVMSG"
def NOTICE := lit "NOTICE"
def ACTION := lit "ACTION"
def CTCP := lit "CTCP"
def CTCPREPLY := lit "CTCPREPLY"

def setNth (l : List Bytes) (i : Nat) (v : Bytes) : List Bytes := l.set i v

/-- the CTCP / ACTION rewriting at the end of `ParseLine`, on (Cmd, Args) -/
def ctcpCmdArgs (ext : UnicodeExt) (cmd : Bytes) (args : List Bytes) : Bytes × List Bytes :=
  if (cmd == PRIVMSG || cmd == NOTICE) then
    match args with
    | a0 :: a1 :: more =>
      if a1.length > 2 && hasPrefix a1 [1] && hasSuffix a1 [1] then
        match cut (trimByte 1 a1) [32] with
        | (t0, some t) =>
          if toUpper ext t0 == ACTION && cmd == PRIVMSG then (toUpper ext t0, a0 :: t :: more)
          else ((if cmd == PRIVMSG then CTCP else CTCPREPLY), toUpper ext t0 :: a0 :: t :: more)
        | (t0, none) =>
          if toUpper ext t0 == ACTION && cmd == PRIVMSG then (toUpper ext t0, a0 :: a1 :: more)
          else ((if cmd == PRIVMSG then CTCP else CTCPREPLY), toUpper ext t0 :: a0 :: a1 :: more)
      else (cmd, args)
    | _ => (cmd, args)
  else (cmd, args)

def ctcpRewrite (ext : UnicodeExt) (l : Line) : Line :=
  { l with cmd := (ctcpCmdArgs ext l.cmd l.args).1, args := (ctcpCmdArgs ext l.cmd l.args).2 }

/-- `args := strings.SplitN(s, " :", 2)` followed by `strings.Fields` of the first part -/
def restArgs (s : Bytes) : List Bytes :=
  match cut s [32, 58] with
  | (a, some t) => fields a ++ [t]
  | (a, none) => fields a

/-- everything after tags and source have been removed: "cmd args[] :text" -/
def parseRest (ext : UnicodeExt) (l : Line) (s : Bytes) : Option Line :=
  match restArgs s with
  | [] => none
  | c :: rest => some (ctcpRewrite ext { l with cmd := toUpper ext c, args := rest })

/-- record the source: `Host = Src`, then nick/ident/host if it has the nick!user@host form -/
def withSource (l : Line) (src : Bytes) : Line :=
  match parseUserHost src with
  | some (n, i, h) => { l with src := src, nick := n, ident := i, host := h }
  | none => { l with src := src, host := src }

def parseSource (ext : UnicodeExt) (l : Line) (s : Bytes) : Option Line :=
  match s with
  | [] => none
  | 58 :: _ =>
    match indexByte s 32 with
    | some idx => parseRest ext (withSource l ((s.take idx).drop 1)) (s.drop (idx + 1))
    | none => none
  | _ => parseRest ext l s

/-- `ParseLine(s)`; `none` = Go's `nil` -/
def parseLine (ext : UnicodeExt) (s : Bytes) : Option Line :=
  match s with
  | [] => none
  | 64 :: _ =>
    match indexByte s 32 with
    | some idx => parseSource ext { raw := s, tags := some (parseTags ((s.take idx).drop 1)) } (s.drop (idx + 1))
    | none => none
  | _ => parseSource ext { raw := s } s

/-! ## accessors -/

def Line.text (l : Line) : Bytes := l.args.getLast?.getD []

def isChanPrefix (b : UInt8) : Bool := b == 35 || b == 38 || b == 43 || b == 33

/-- `Line.Public()` -/
def Line.public (l : Line) : Bool :=
  if l.cmd == PRIVMSG || l.cmd == NOTICE || l.cmd == ACTION then
    match l.args with
    | (b :: _) :: _ => isChanPrefix b
    | _ => false
  else if l.cmd == CTCP || l.cmd == CTCPREPLY then
    match l.args with
    | _ :: (b :: _) :: _ => isChanPrefix b
    | _ => false
  else false

/-- `Line.Target()` -/
def Line.target (l : Line) : Bytes :=
  if l.cmd == PRIVMSG || l.cmd == NOTICE || l.cmd == ACTION then
    if !l.public then l.nick else l.args.head?.getD []
  else if l.cmd == CTCP || l.cmd == CTCPREPLY then
    if !l.public then l.nick else (l.args.drop 1).head?.getD []
  else l.args.head?.getD []

/-- `Line.Copy()`: value semantics make the deep copy the identity on contents (sharing is C15's subject) -/
def Line.copy (l : Line) : Line := { l with args := l.args.map id, tags := l.tags.map (·.map id) }

/-- what `recv` does to each string `ReadString('\n')` returns -/
def recvTrim (s : Bytes) : Bytes := trimCRLF s

end Go

namespace Go

/-- the framing loop of `recv`: `ReadString('\n')` cuts the byte stream after every LF; each piece is
then `strings.Trim(s, "\r\n")`-med; bytes after the last LF are not a line yet (at EOF `ReadString`
returns them together with the error, and `recv` leaves without using them) -/
def recvFramesAux : Bytes → Bytes → List Bytes
  | _, [] => []
  | acc, 10 :: rest => recvTrim (acc.reverse ++ [10]) :: recvFramesAux [] rest
  | acc, b :: rest => recvFramesAux (b :: acc) rest

def recvFrames (stream : Bytes) : List Bytes := recvFramesAux [] stream

end Go
