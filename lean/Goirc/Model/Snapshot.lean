import Goirc.Go.AList
import Goirc.Go.Bytes
/-!
# Heap model of what the tracker hands out (C14, first half)

`nick.Nick()` (state/nick.go:67-80), `channel.Channel()` (channel.go:118-129), `(*ChanPrivs).Copy()`,
`(*NickMode).Copy()`, `(*ChanMode).Copy()`, `nick.isOn` (nick.go:82-85): every pointer or map placed in a
returned value is allocated by the call itself.  Mode and privilege structs are `Obj.rec`
(their fields as a list of words), the `Channels` / `Nicks` maps are `Obj.map` from names to references.
-/
namespace Go.Snapshot

abbrev Ref := Nat

inductive Obj
  | record (fields : List Bytes)               -- a NickMode / ChanMode / ChanPrivs struct
  | map (entries : List (Bytes × Ref))      -- map[string]*ChanPrivs
deriving Repr, DecidableEq

structure Heap where
  objs : List (Ref × Obj) := []
  next : Ref := 0
deriving Repr

def alloc (h : Heap) (o : Obj) : Heap × Ref := ({ objs := h.objs ++ [(h.next, o)], next := h.next + 1 }, h.next)
def read (h : Heap) (r : Ref) : Option Obj := AL.lookup h.objs r
def write (h : Heap) (r : Ref) (o : Obj) : Heap := { h with objs := AL.insert h.objs r o }

/-- all references in the heap are below `next` -/
def Bounded (h : Heap) : Prop := ∀ r o, (r, o) ∈ h.objs → r < h.next

/-- `x.Copy()` for a struct pointer (nil-safe in Go; here the pointer is live) -/
def copyRec (h : Heap) (r : Ref) : Heap × Ref :=
  alloc h (match read h r with | some (.record f) => .record f | _ => .record [])

/-- the tracker's internal nick / channel record: its mode struct and its membership cells by name -/
structure Internal where
  scalars : List Bytes
  modes : Ref
  cells : List (Bytes × Ref)      -- (channel or nick name, *ChanPrivs)
deriving Repr

/-- the value handed to the caller (`*state.Nick` / `*state.Channel`) -/
structure Snap where
  scalars : List Bytes
  modes : Ref
  members : Ref                   -- the Channels / Nicks map
deriving Repr

/-- copy every cell, collecting the new map entries -/
def copyCells (h : Heap) : List (Bytes × Ref) → Heap × List (Bytes × Ref)
  | [] => (h, [])
  | (n, c) :: rest =>
    let (h1, c') := copyRec h c
    let (h2, es) := copyCells h1 rest
    (h2, (n, c') :: es)

/-- `nk.Nick()` / `ch.Channel()` -/
def snapshot (h : Heap) (x : Internal) : Heap × Snap :=
  let (h1, m) := copyRec h x.modes
  let (h2, es) := copyCells h1 x.cells
  let (h3, mp) := alloc h2 (.map es)
  (h3, { scalars := x.scalars, modes := m, members := mp })

/-- every reference reachable from a snapshot -/
def reach (h : Heap) (s : Snap) : List Ref :=
  s.modes :: s.members :: (match read h s.members with | some (.map es) => es.map (·.2) | _ => [])

/-- what a caller can observe through a snapshot -/
def view (h : Heap) (s : Snap) : List Bytes × Option Obj × List (Bytes × Option Obj) :=
  (s.scalars, read h s.modes, match read h s.members with | some (.map es) => es.map (fun e => (e.1, read h e.2)) | _ => [])

/-- what the tracker itself would answer from its internal record -/
def viewInternal (h : Heap) (x : Internal) : List Bytes × Option Obj × List (Bytes × Option Obj) :=
  (x.scalars, read h x.modes, x.cells.map fun e => (e.1, read h e.2))

def applyWrites (h : Heap) : List (Ref × Obj) → Heap
  | [] => h
  | (r, o) :: ws => applyWrites (write h r o) ws

end Go.Snapshot
