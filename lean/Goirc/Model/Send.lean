/-!
# Model of the outgoing path as a labelled transition system (C09)

`Raw` enqueues on `conn.out` (buffered channel, capacity `cap`); the single `send` goroutine
dequeues one line at a time and `write`s it.  Any number of senders (handlers, user goroutines);
the scheduler picks any enabled label.  The connection may go down (`fail`): `send` exits and
whatever is still queued is not written — the property speaks about the time the connection stays up.
-/
namespace Go.Send

abbrev Sender := Nat
structure Item where
  sender : Sender
  seq : Nat          -- per-sender sequence number: the k-th line this sender handed to Raw
deriving DecidableEq, Repr

structure St where
  issued : Sender → Nat      -- how many lines each sender has handed to Raw so far
  q : List Item              -- conn.out
  inflight : Option Item     -- dequeued by send(), not yet written
  wire : List Item           -- written to the socket, oldest first
  cap : Nat
  up : Bool                  -- the send goroutine is still running

inductive Label
  | raw (s : Sender)         -- sender s completes `conn.out <- line`
  | deq                      -- send goroutine receives from conn.out
  | write                    -- send goroutine writes + flushes the line
  | fail                     -- write error or cancellation: send exits

def step (st : St) : Label → Option St
  | .raw s => if st.q.length < st.cap then
      some { st with issued := fun t => if t = s then st.issued s + 1 else st.issued t,
                     q := st.q ++ [⟨s, st.issued s⟩] } else none
  | .deq => if st.up then
      match st.inflight, st.q with
      | none, x :: rest => some { st with q := rest, inflight := some x }
      | _, _ => none
      else none
  | .write => if st.up then
      match st.inflight with
      | some x => some { st with inflight := none, wire := st.wire ++ [x] }
      | none => none
      else none
  | .fail => if st.up then some { st with up := false } else none

def init (cap : Nat) : St := { issued := fun _ => 0, q := [], inflight := none, wire := [], cap := cap, up := true }

inductive Reach (cap : Nat) : St → Prop
  | init : Reach cap (init cap)
  | step {s s' l} : Reach cap s → step s l = some s' → Reach cap s'

/-- everything handed over so far, in pipeline order: wire, then in flight, then queued -/
def pipeline (st : St) : List Item := st.wire ++ st.inflight.toList ++ st.q

def seqsOf (s : Sender) (l : List Item) : List Nat := (l.filter (·.sender = s)).map (·.seq)

end Go.Send
