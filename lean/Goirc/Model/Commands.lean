import Goirc.Go.Bytes
import Goirc.Model.Split
/-!
# Model of the command methods (client/commands.go)

`exec ext cfg c` is the list of strings the call `c` puts on `conn.out`, in order — i.e. what
`Raw` enqueues after `cutNewLines`.  `write` (connection.go:571-592) then emits each as
`line ++ "\r\n"`.  Variadic Go parameters are lists.  `Privmsgln`/`Privmsgf` are `privmsg`
applied to the string `fmt` produced.
-/
namespace Go

def CR : UInt8 := 13
def LF : UInt8 := 10
def SP : UInt8 := 32

/-- `cutNewLines` (commands.go:41-46): `SplitN(s,"\r",2)[0]` then `SplitN(·,"\n",2)[0]`. -/
def cutNewLines (s : Bytes) : Bytes := beforeByte LF (beforeByte CR s)

/-- `splitArgs` (commands.go:88-103).  The accumulator is Go's `currArg` (none before the first
argument of a group has been taken). -/
def splitArgsAux (maxLen : Int) : Option Bytes → List Bytes → List Bytes
  | none, [] => []
  | some c, [] => [c]
  | none, a :: rest => splitArgsAux maxLen (some a) rest
  | some c, a :: rest =>
    if (c.length : Int) + (a.length : Int) + 1 < maxLen
    then splitArgsAux maxLen (some (c ++ [SP] ++ a)) rest
    else c :: splitArgsAux maxLen (some a) rest

def splitArgs (args : List Bytes) (maxLen : Int) : List Bytes := splitArgsAux maxLen none args

structure CmdCfg where
  splitLen : Int
  quitMessage : Bytes

inductive Cmd
  | raw (line : Bytes)
  | pass (password : Bytes)
  | nick (nick : Bytes)
  | user (ident name : Bytes)
  | join (channel : Bytes) (key : List Bytes)
  | part (channel : Bytes) (message : List Bytes)
  | kick (channel nick : Bytes) (message : List Bytes)
  | quit (message : List Bytes)
  | whois (nick : Bytes)
  | who (nick : Bytes)
  | privmsg (t msg : Bytes)
  | notice (t msg : Bytes)
  | ctcp (t ctcp : Bytes) (arg : List Bytes)
  | ctcpReply (t ctcp : Bytes) (arg : List Bytes)
  | version (t : Bytes)
  | action (t msg : Bytes)
  | topic (channel : Bytes) (topic : List Bytes)
  | mode (t : Bytes) (modestring : List Bytes)
  | away (message : List Bytes)
  | invite (nick channel : Bytes)
  | oper (user pass : Bytes)
  | vhost (user pass : Bytes)
  | ping (message : Bytes)
  | pong (message : Bytes)
  | cap (subcommand : Bytes) (capabilities : List Bytes)
  | authenticate (message : Bytes)

namespace V
def PASS := lit "PASS"
def NICK := lit "NICK"
def USER := lit "USER"
def JOIN := lit "JOIN"
def PART := lit "PART"
def KICK := lit "KICK"
def QUIT := lit "QUIT"
def WHOIS := lit "WHOIS"
def WHO := lit "WHO"
def PRIVMSG := lit "PRIVMSG"
def NOTICE := lit "NOTICE"
def VERSION := lit "VERSION"
def ACTION := lit "ACTION"
def TOPIC := lit "TOPIC"
def MODE := lit "MODE"
def AWAY := lit "AWAY"
def INVITE := lit "INVITE"
def OPER := lit "OPER"
def VHOST := lit "VHOST"
def PING := lit "PING"
def PONG := lit "PONG"
def CAP := lit "CAP"
def AUTHENTICATE := lit "AUTHENTICATE"
def CTCP := lit "CTCP"
def CTCPREPLY := lit "CTCPREPLY"
end V

/-- `" :" ++ msg` unless the joined message is empty (Part/Kick/Topic/Away) -/
def optTrail (message : List Bytes) : Bytes :=
  if join [SP] message == [] then [] else [SP, 58] ++ join [SP] message

/-- the strings handed to `Raw`, before `cutNewLines` -/
def rawArgs (ext : UnicodeExt) (cfg : CmdCfg) : Cmd → List Bytes
  | .raw l => [l]
  | .pass p => [V.PASS ++ [SP] ++ p]
  | .nick n => [V.NICK ++ [SP] ++ n]
  | .user i n => [V.USER ++ [SP] ++ i ++ lit " 12 * :" ++ n]
  | .join ch key => [V.JOIN ++ [SP] ++ ch ++ (match key with | [] => [] | k :: _ => [SP] ++ k)]
  | .part ch m => [V.PART ++ [SP] ++ ch ++ optTrail m]
  | .kick ch n m => [V.KICK ++ [SP] ++ ch ++ [SP] ++ n ++ optTrail m]
  | .quit m => [V.QUIT ++ [SP, 58] ++ (if join [SP] m == [] then cfg.quitMessage else join [SP] m)]
  | .whois n => [V.WHOIS ++ [SP] ++ n]
  | .who n => [V.WHO ++ [SP] ++ n]
  | .privmsg t m => (splitMessage m cfg.splitLen).map fun s => V.PRIVMSG ++ [SP] ++ t ++ [SP, 58] ++ s
  | .notice t m => (splitMessage m cfg.splitLen).map fun s => V.NOTICE ++ [SP] ++ t ++ [SP, 58] ++ s
  | .ctcp t c arg => (splitMessage (join [SP] arg) cfg.splitLen).map fun s =>
      V.PRIVMSG ++ [SP] ++ t ++ [SP, 58, 1] ++ toUpper ext c ++ (if s == [] then [] else [SP] ++ s) ++ [1]
  | .ctcpReply t c arg => (splitMessage (join [SP] arg) cfg.splitLen).map fun s =>
      V.NOTICE ++ [SP] ++ t ++ [SP, 58, 1] ++ toUpper ext c ++ (if s == [] then [] else [SP] ++ s) ++ [1]
  | .version t => (splitMessage [] cfg.splitLen).map fun s =>
      V.PRIVMSG ++ [SP] ++ t ++ [SP, 58, 1] ++ toUpper ext V.VERSION ++ (if s == [] then [] else [SP] ++ s) ++ [1]
  | .action t m => (splitMessage m cfg.splitLen).map fun s =>
      V.PRIVMSG ++ [SP] ++ t ++ [SP, 58, 1] ++ toUpper ext V.ACTION ++ (if s == [] then [] else [SP] ++ s) ++ [1]
  | .topic ch tp => [V.TOPIC ++ [SP] ++ ch ++ optTrail tp]
  | .mode t ms => [V.MODE ++ [SP] ++ t ++ (if join [SP] ms == [] then [] else [SP] ++ join [SP] ms)]
  | .away m => [V.AWAY ++ optTrail m]
  | .invite n ch => [V.INVITE ++ [SP] ++ n ++ [SP] ++ ch]
  | .oper u p => [V.OPER ++ [SP] ++ u ++ [SP] ++ p]
  | .vhost u p => [V.VHOST ++ [SP] ++ u ++ [SP] ++ p]
  | .ping m => [V.PING ++ [SP, 58] ++ m]
  | .pong m => [V.PONG ++ [SP, 58] ++ m]
  | .cap sub caps =>
      if caps.isEmpty then [V.CAP ++ [SP] ++ sub]
      else (splitArgs caps (450 - ((V.CAP ++ [SP] ++ sub ++ [SP, 58]).length : Int))).map fun a =>
        V.CAP ++ [SP] ++ sub ++ [SP, 58] ++ a
  | .authenticate m => [V.AUTHENTICATE ++ [SP] ++ m]

/-- what the call puts on `conn.out` -/
def exec (ext : UnicodeExt) (cfg : CmdCfg) (c : Cmd) : List Bytes := (rawArgs ext cfg c).map cutNewLines

/-- the verb the property says every line of the call must begin with (`Raw` has none) -/
def verbOf : Cmd → Bytes
  | .raw _ => []
  | .pass _ => V.PASS | .nick _ => V.NICK | .user .. => V.USER | .join .. => V.JOIN | .part .. => V.PART
  | .kick .. => V.KICK | .quit _ => V.QUIT | .whois _ => V.WHOIS | .who _ => V.WHO
  | .privmsg .. => V.PRIVMSG | .notice .. => V.NOTICE | .ctcp .. => V.PRIVMSG | .ctcpReply .. => V.NOTICE
  | .version _ => V.PRIVMSG | .action .. => V.PRIVMSG | .topic .. => V.TOPIC | .mode .. => V.MODE
  | .away _ => V.AWAY | .invite .. => V.INVITE | .oper .. => V.OPER | .vhost .. => V.VHOST
  | .ping _ => V.PING | .pong _ => V.PONG | .cap .. => V.CAP | .authenticate _ => V.AUTHENTICATE

/-- `write`: the bytes that reach the socket for a queue of lines -/
def wireBytes (lines : List Bytes) : Bytes := lines.flatMap fun l => l ++ [CR, LF]

end Go
