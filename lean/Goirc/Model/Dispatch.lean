/-!
# Model of event delivery as a labelled transition system (C03, C05, C16)

`recv` enqueues parsed lines on `conn.in` (ids 0,1,2,… in wire order); `runLoop` takes one line at a
time and runs `Conn.dispatch`: the internal handler set to completion (`hSet.dispatch` = spawn one
goroutine per snapshot element, `wg.Wait()`), then `go bgHandlers.dispatch` (detached), then the
foreground set to completion.  `h_001` (an internal handler of the welcome line) dispatches
CONNECTED to the foreground CONNECTED handlers, nested, before it returns.  `Close` may begin at
any time: the drain loop then discards queued lines, `runLoop` leaves when it is between lines, and
DISCONNECTED is dispatched only after `runLoop` has left.  Other goroutines dispatch events of their own on the same
handler sets meanwhile - REGISTER from the caller of `Connect`, while the event loop is already reading - and each
`hSet.dispatch` waits for the handlers IT started, with a wait group of its own (`otherSpawn`, `otherLeave`).

Handlers are not given programs: the scheduler (any enabled label) decides when each spawned handler
enters and leaves, a handler may panic (the deferred `Recover` turns that into a normal return, so
`leave` covers both), and a background handler may stay for ever.  How many handlers each snapshot
holds is chosen by the label (`n`): the handler sets are arbitrary.
-/
namespace Go.Dispatch

/-- what the harness can see too -/
inductive Obs
  | fgEnter (k h : Nat) (applied : Nat)   -- foreground handler h of line k starts; `applied` = lines whose internal phase is complete
  | fgExit (k h : Nat) (applied : Nat)
  | bgEnter (k h : Nat) (applied : Nat)
  | connEnter (k h : Nat)                 -- CONNECTED handler h (nested in the welcome line k)
  | connExit (k h : Nat)
  | welcomeApplied (k : Nat)              -- h_001's own work for line k is done (it then dispatches CONNECTED)
  | discEnter                             -- a DISCONNECTED handler starts
  | fgStart (k n : Nat)                   -- (ghost) the foreground snapshot of line k holds n handlers
  | fgDone (k : Nat)                      -- (ghost) wg.Wait() of that snapshot returned
deriving DecidableEq, Repr

inductive HState | spawned | running
deriving DecidableEq, Repr

inductive Phase
  | idle                                   -- runLoop is in its select
  | int (k : Nat) (welcome : Bool)         -- internal phase of line k (welcome: it is the 001 line)
  | nested (k : Nat)                       -- h_001 has applied the welcome and is inside dispatch(CONNECTED)
  | intDone (k : Nat)                      -- internal phase joined; about to `go` the background set
  | fg (k : Nat)                           -- foreground phase of line k
  | gone                                   -- runLoop has returned (wg.Done)
deriving DecidableEq, Repr

structure St where
  recvd : Nat := 0                         -- lines recv has put on conn.in so far
  qhead : Nat := 0                         -- id of the line at the head of conn.in
  phase : Phase := .idle
  intLeft : Nat := 0                       -- internal handlers of the current line not yet returned (other than h_001's nesting)
  fgStarted : Bool := false                -- the foreground snapshot of the current line has been spawned
  hs : List (Nat × HState) := []           -- foreground (or nested CONNECTED) handlers of the current event still outstanding
  bg : List (Nat × Nat × HState) := []     -- background handler invocations still outstanding (line, handler, state)
  applied : Nat := 0                       -- number of lines whose internal phase has completed
  closing : Bool := false                  -- a Close has cancelled the context and is draining
  discFired : Bool := false
  other : Nat := 0                         -- handlers of dispatches made by OTHER goroutines on the same handler sets that are still running (REGISTER from Connect's caller, DISCONNECTED from a closer of an earlier connection): each dispatch joins its own handlers only
  log : List Obs := []                     -- ghost: observable history, oldest first
deriving Repr

inductive Label
  | recv                                   -- recv enqueues the next line
  | take (welcome : Bool) (nInt : Nat)     -- runLoop receives a line; the internal snapshot holds nInt handlers (+ h_001 when welcome)
  | intLeave                               -- an internal handler returns (or panics and is recovered)
  | welcome (nConn : Nat)                  -- h_001 finishes its own work and starts dispatch(CONNECTED) with nConn handlers
  | hEnter (h : Nat)                       -- a spawned foreground / CONNECTED handler starts running
  | hLeave (h : Nat)                       -- it returns (or panics and is recovered)
  | nestedJoin                             -- dispatch(CONNECTED) returns; h_001 returns
  | intJoin                                -- wg.Wait() of the internal set returns
  | spawnBg (n : Nat)                      -- `go bgHandlers.dispatch`: n background handlers spawned (detached)
  | startFg (n : Nat)                      -- foreground snapshot of n handlers spawned
  | fgJoin                                 -- wg.Wait() of the foreground set returns; back to select
  | bgEnter (k h : Nat)
  | bgLeave (k h : Nat)
  | beginClose                             -- Close: connected:=false, cancel, start draining
  | discard                                -- the drain loop takes a line from conn.in
  | loopExit                               -- runLoop sees the cancelled context while in select
  | fireDisc                               -- Close, after wg.Wait, dispatches DISCONNECTED; a handler starts
  | otherSpawn (n : Nat)                   -- another goroutine dispatches an event of its own on the same sets: n handlers start
  | otherLeave                             -- one of them returns

def setH (hs : List (Nat × HState)) (h : Nat) (s : HState) : List (Nat × HState) :=
  hs.map fun p => if p.1 = h then (h, s) else p

def step (s : St) : Label → Option St
  | .recv => some { s with recvd := s.recvd + 1 }
  | .take w n =>
    if s.phase = .idle ∧ s.qhead < s.recvd then
      some { s with phase := .int s.qhead w, qhead := s.qhead + 1, intLeft := n }
    else none
  | .intLeave =>
    match s.phase with
    | .int _ _ => if s.intLeft > 0 then some { s with intLeft := s.intLeft - 1 } else none
    | .nested _ => if s.intLeft > 0 then some { s with intLeft := s.intLeft - 1 } else none
    | _ => none
  | .welcome n =>
    match s.phase with
    | .int k true => some { s with phase := .nested k, hs := (List.range n).map (·, .spawned), log := s.log ++ [.welcomeApplied k] }
    | _ => none
  | .hEnter h =>
    if (h, HState.spawned) ∈ s.hs then
      match s.phase with
      | .nested k => some { s with hs := setH s.hs h .running, log := s.log ++ [.connEnter k h] }
      | .fg k => some { s with hs := setH s.hs h .running, log := s.log ++ [.fgEnter k h s.applied] }
      | _ => none
    else none
  | .hLeave h =>
    if (h, HState.running) ∈ s.hs then
      match s.phase with
      | .nested k => some { s with hs := s.hs.filter (·.1 ≠ h), log := s.log ++ [.connExit k h] }
      | .fg k => some { s with hs := s.hs.filter (·.1 ≠ h), log := s.log ++ [.fgExit k h s.applied] }
      | _ => none
    else none
  | .nestedJoin =>
    match s.phase with
    | .nested k => if s.hs = [] then some { s with phase := .int k false } else none
    | _ => none
  | .intJoin =>
    match s.phase with
    | .int k false => if s.intLeft = 0 then some { s with phase := .intDone k, applied := k + 1 } else none
    | _ => none
  | .spawnBg n =>
    match s.phase with
    | .intDone k => some { s with phase := .fg k, hs := [], fgStarted := false, bg := s.bg ++ (List.range n).map (k, ·, .spawned) }
    | _ => none
  | .startFg n =>
    match s.phase with
    | .fg k => if s.fgStarted = false then
        some { s with hs := (List.range n).map (·, .spawned), fgStarted := true, log := s.log ++ [.fgStart k n] } else none
    | _ => none
  | .fgJoin =>
    match s.phase with
    | .fg k => if s.hs = [] ∧ s.fgStarted = true then
        some { s with phase := .idle, fgStarted := false, log := s.log ++ [.fgDone k] } else none
    | _ => none
  | .bgEnter k h =>
    if (k, h, HState.spawned) ∈ s.bg then
      some { s with bg := s.bg.map (fun p => if p = (k, h, .spawned) then (k, h, .running) else p), log := s.log ++ [.bgEnter k h s.applied] }
    else none
  | .bgLeave k h =>
    if (k, h, HState.running) ∈ s.bg then some { s with bg := s.bg.filter (· ≠ (k, h, .running)) } else none
  | .beginClose => if s.closing then none else some { s with closing := true }
  | .discard => if s.closing ∧ s.qhead < s.recvd then some { s with qhead := s.qhead + 1 } else none
  | .loopExit => if s.closing ∧ s.phase = .idle then some { s with phase := .gone } else none
  | .fireDisc => if s.closing ∧ s.phase = .gone then some { s with discFired := true, log := s.log ++ [.discEnter] } else none
  | .otherSpawn n => some { s with other := s.other + n }
  | .otherLeave => if s.other > 0 then some { s with other := s.other - 1 } else none

inductive Reach : St → Prop
  | init : Reach {}
  | step {s l s'} : Reach s → step s l = some s' → Reach s'

end Go.Dispatch
