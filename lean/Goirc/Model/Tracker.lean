import Goirc.Go.AList
import Goirc.Go.Strconv
/-!
# Model of the state tracker (state/tracker.go, nick.go, channel.go)

Heap-faithful: `*nick`, `*channel` and `*ChanPrivs` are ids into three heaps, and the Go maps
`st.nicks`, `st.chans`, `nick.lookup`, `nick.chans`, `channel.lookup`, `channel.nicks` are all
present, so that "the two-way maps are updated together" is something the refinement theorem has
to establish rather than assume.  One privilege cell is shared by `nick.chans[ch]` and
`channel.nicks[nk]`, as in `Associate`.
-/
namespace Go.Tracker

structure NickMode where
  bot : Bool := false
  invisible : Bool := false
  oper : Bool := false
  wallOps : Bool := false
  hiddenHost : Bool := false
  ssl : Bool := false
deriving DecidableEq, Repr

structure ChanMode where
  priv : Bool := false
  secret : Bool := false
  protectedTopic : Bool := false
  noExternalMsg : Bool := false
  moderated : Bool := false
  inviteOnly : Bool := false
  operOnly : Bool := false
  sslOnly : Bool := false
  registered : Bool := false
  allSSL : Bool := false
  key : Bytes := []
  limit : Int := 0
deriving DecidableEq, Repr

structure ChanPrivs where
  owner : Bool := false
  admin : Bool := false
  op : Bool := false
  halfOp : Bool := false
  voice : Bool := false
deriving DecidableEq, Repr

abbrev Id := Nat

structure NickObj where
  nick : Bytes
  ident : Bytes := []
  host : Bytes := []
  name : Bytes := []
  modes : NickMode := {}
  lookup : List (Bytes × Id) := []   -- channel name ↦ *channel
  chans : List (Id × Id) := []       -- *channel ↦ *ChanPrivs
deriving Repr

structure ChanObj where
  name : Bytes
  topic : Bytes := []
  modes : ChanMode := {}
  lookup : List (Bytes × Id) := []   -- nick name ↦ *nick
  nicks : List (Id × Id) := []       -- *nick ↦ *ChanPrivs
deriving Repr

structure St where
  nickHeap : List (Id × NickObj) := []
  chanHeap : List (Id × ChanObj) := []
  cells : List (Id × ChanPrivs) := []
  nicks : List (Bytes × Id) := []    -- st.nicks
  chans : List (Bytes × Id) := []    -- st.chans
  me : Id := 0
  fresh : Id := 1
deriving Repr

/-- snapshots returned to callers (`state.Nick`, `state.Channel`) -/
structure NickSnap where
  nick : Bytes
  ident : Bytes
  host : Bytes
  name : Bytes
  modes : NickMode
  channels : List (Bytes × ChanPrivs)
deriving Repr

structure ChanSnap where
  name : Bytes
  topic : Bytes
  modes : ChanMode
  nicks : List (Bytes × ChanPrivs)
deriving Repr

inductive Ret
  | nick (n : Option NickSnap)
  | chan (c : Option ChanSnap)
  | privs (p : Option ChanPrivs) (ok : Bool)
  | assoc (p : Option ChanPrivs)
  | unit
deriving Repr

/-- `NewTracker(mynick)` -/
def new (me : Bytes) : St :=
  { nickHeap := [(0, { nick := me })], nicks := [(me, 0)], me := 0, fresh := 1 }

def getN (s : St) (i : Id) : NickObj := (AL.lookup s.nickHeap i).getD { nick := [] }
def getC (s : St) (i : Id) : ChanObj := (AL.lookup s.chanHeap i).getD { name := [] }
def getP (s : St) (i : Id) : ChanPrivs := (AL.lookup s.cells i).getD {}
def setN (s : St) (i : Id) (o : NickObj) : St := { s with nickHeap := AL.insert s.nickHeap i o }
def setC (s : St) (i : Id) (o : ChanObj) : St := { s with chanHeap := AL.insert s.chanHeap i o }
def setP (s : St) (i : Id) (p : ChanPrivs) : St := { s with cells := AL.insert s.cells i p }

/-- `nk.Nick()` -/
def nickSnap (s : St) (i : Id) : NickSnap :=
  let o := getN s i
  { nick := o.nick, ident := o.ident, host := o.host, name := o.name, modes := o.modes,
    channels := o.chans.map fun (c, p) => ((getC s c).name, getP s p) }

/-- `ch.Channel()` -/
def chanSnap (s : St) (i : Id) : ChanSnap :=
  let o := getC s i
  { name := o.name, topic := o.topic, modes := o.modes,
    nicks := o.nicks.map fun (n, p) => ((getN s n).nick, getP s p) }

/-- `nk.delChannel(ch)` -/
def nickDelChannel (s : St) (n c : Id) : St :=
  let o := getN s n
  if AL.has o.chans c then setN s n { o with chans := AL.erase o.chans c, lookup := AL.erase o.lookup (getC s c).name }
  else s

/-- `ch.delNick(nk)` -/
def chanDelNick (s : St) (c n : Id) : St :=
  let o := getC s c
  if AL.has o.nicks n then setC s c { o with nicks := AL.erase o.nicks n, lookup := AL.erase o.lookup (getN s n).nick }
  else s

/-- `st.delNick(nk)`: forget the nick and remove it from every channel it is on -/
def delNickObj (s : St) (n : Id) : St :=
  if n = s.me then s else
  let s1 := { s with nicks := AL.erase s.nicks (getN s n).nick }
  (AL.keys (getN s n).chans).foldl (fun st c => chanDelNick (nickDelChannel st n c) c n) s1

/-- `st.delChannel(ch)`: forget the channel, and every nick left with no channel other than me -/
def delChanObj (s : St) (c : Id) : St :=
  let s1 := { s with chans := AL.erase s.chans (getC s c).name }
  (AL.keys (getC s c).nicks).foldl (fun st n =>
    let st1 := nickDelChannel (chanDelNick st c n) n c
    if (getN st1 n).chans.isEmpty && n != st1.me then delNickObj st1 n else st1) s1

def applyNickMode (m : NickMode) (op : Bool) (c : UInt8) : NickMode :=
  if c == 66 then { m with bot := op }               -- B
  else if c == 105 then { m with invisible := op }   -- i
  else if c == 111 then { m with oper := op }        -- o
  else if c == 119 then { m with wallOps := op }     -- w
  else if c == 120 then { m with hiddenHost := op }  -- x
  else if c == 122 then { m with ssl := op }         -- z
  else m

/-- `nk.parseModes(modes)` -/
def nickParseModes : NickMode → Bool → Bytes → NickMode
  | m, _, [] => m
  | m, op, c :: rest =>
    if c == 43 then nickParseModes m true rest
    else if c == 45 then nickParseModes m false rest
    else nickParseModes (applyNickMode m op c) op rest

def applyChanFlag (m : ChanMode) (op : Bool) (c : UInt8) : Option ChanMode :=
  if c == 105 then some { m with inviteOnly := op }
  else if c == 109 then some { m with moderated := op }
  else if c == 110 then some { m with noExternalMsg := op }
  else if c == 112 then some { m with priv := op }
  else if c == 114 then some { m with registered := op }
  else if c == 115 then some { m with secret := op }
  else if c == 116 then some { m with protectedTopic := op }
  else if c == 122 then some { m with sslOnly := op }
  else if c == 90 then some { m with allSSL := op }
  else if c == 79 then some { m with operOnly := op }
  else none

def applyPriv (p : ChanPrivs) (op : Bool) (c : UInt8) : ChanPrivs :=
  if c == 113 then { p with owner := op }
  else if c == 97 then { p with admin := op }
  else if c == 111 then { p with op := op }
  else if c == 104 then { p with halfOp := op }
  else if c == 118 then { p with voice := op }
  else p

def isPrivChar (c : UInt8) : Bool := c == 113 || c == 97 || c == 111 || c == 104 || c == 118

/-- `ch.parseModes(modes, modeargs...)` on channel object `ci` -/
def chanParseModes (s : St) (ci : Id) : Bool → Bytes → List Bytes → St
  | _, [], _ => s
  | op, c :: rest, args =>
    if c == 43 then chanParseModes s ci true rest args
    else if c == 45 then chanParseModes s ci false rest args
    else
      let o := getC s ci
      match applyChanFlag o.modes op c with
      | some m => chanParseModes (setC s ci { o with modes := m }) ci op rest args
      | none =>
        if c == 107 then        -- k
          if op && !args.isEmpty then
            chanParseModes (setC s ci { o with modes := { o.modes with key := args.head! } }) ci op rest args.tail
          else if !op then chanParseModes (setC s ci { o with modes := { o.modes with key := [] } }) ci op rest args
          else chanParseModes s ci op rest args
        else if c == 108 then   -- l
          if op && !args.isEmpty then
            chanParseModes (setC s ci { o with modes := { o.modes with limit := atoi args.head! } }) ci op rest args.tail
          else if !op then chanParseModes (setC s ci { o with modes := { o.modes with limit := 0 } }) ci op rest args
          else chanParseModes s ci op rest args
        else if isPrivChar c then
          match args with
          | a :: more =>
            match AL.lookup o.lookup a with
            | some n =>
              match AL.lookup o.nicks n with
              | some cell => chanParseModes (setP s cell (applyPriv (getP s cell) op c)) ci op rest more
              | none => chanParseModes s ci op rest more   -- unreachable under the invariant (Go would nil-deref)
            | none => chanParseModes s ci op rest args
          | [] => chanParseModes s ci op rest args
        else if c == 98 || c == 101 || c == 73 then   -- b e I: list modes, not tracked, but they take an argument
          chanParseModes s ci op rest args.tail
        else chanParseModes s ci op rest args

inductive Op
  | newNick (n : Bytes)
  | getNick (n : Bytes)
  | reNick (old neu : Bytes)
  | delNick (n : Bytes)
  | nickInfo (n ident host name : Bytes)
  | nickModes (n modes : Bytes)
  | newChannel (c : Bytes)
  | getChannel (c : Bytes)
  | delChannel (c : Bytes)
  | topic (c topic : Bytes)
  | channelModes (c modes : Bytes) (args : List Bytes)
  | me
  | isOn (c n : Bytes)
  | associate (c n : Bytes)
  | dissociate (c n : Bytes)
  | wipe
deriving Repr

/-- one exported tracker method: new state and return value -/
def step (s : St) : Op → St × Ret
  | .newNick n =>
    if n.isEmpty then (s, .nick none)
    else if AL.has s.nicks n then (s, .nick none)
    else
      let i := s.fresh
      let s1 := { setN s i { nick := n } with nicks := AL.insert s.nicks n i, fresh := i + 1 }
      (s1, .nick (some (nickSnap s1 i)))
  | .getNick n =>
    match AL.lookup s.nicks n with
    | some i => (s, .nick (some (nickSnap s i)))
    | none => (s, .nick none)
  | .reNick old neu =>
    match AL.lookup s.nicks old with
    | none => (s, .nick none)
    | some i =>
      if AL.has s.nicks neu then (s, .nick none)
      else
        let o := getN s i
        let s1 := { setN s i { o with nick := neu } with nicks := AL.insert (AL.erase s.nicks old) neu i }
        let s2 := (AL.keys o.chans).foldl (fun st c =>
          let co := getC st c
          setC st c { co with lookup := AL.insert (AL.erase co.lookup old) neu i }) s1
        (s2, .nick (some (nickSnap s2 i)))
  | .delNick n =>
    match AL.lookup s.nicks n with
    | some i =>
      if i = s.me then (s, .nick none)
      else
        let s1 := delNickObj s i
        (s1, .nick (some (nickSnap s1 i)))
    | none => (s, .nick none)
  | .nickInfo n ident host name =>
    match AL.lookup s.nicks n with
    | none => (s, .nick none)
    | some i =>
      let s1 := setN s i { getN s i with ident := ident, host := host, name := name }
      (s1, .nick (some (nickSnap s1 i)))
  | .nickModes n modes =>
    match AL.lookup s.nicks n with
    | none => (s, .nick none)
    | some i =>
      let o := getN s i
      let s1 := setN s i { o with modes := nickParseModes o.modes false modes }
      (s1, .nick (some (nickSnap s1 i)))
  | .newChannel c =>
    if c.isEmpty then (s, .chan none)
    else if AL.has s.chans c then (s, .chan none)
    else
      let i := s.fresh
      let s1 := { setC s i { name := c } with chans := AL.insert s.chans c i, fresh := i + 1 }
      (s1, .chan (some (chanSnap s1 i)))
  | .getChannel c =>
    match AL.lookup s.chans c with
    | some i => (s, .chan (some (chanSnap s i)))
    | none => (s, .chan none)
  | .delChannel c =>
    match AL.lookup s.chans c with
    | some i =>
      let s1 := delChanObj s i
      (s1, .chan (some (chanSnap s1 i)))
    | none => (s, .chan none)
  | .topic c t =>
    match AL.lookup s.chans c with
    | none => (s, .chan none)
    | some i =>
      let s1 := setC s i { getC s i with topic := t }
      (s1, .chan (some (chanSnap s1 i)))
  | .channelModes c modes args =>
    match AL.lookup s.chans c with
    | none => (s, .chan none)
    | some i =>
      let s1 := chanParseModes s i false modes args
      (s1, .chan (some (chanSnap s1 i)))
  | .me => (s, .nick (some (nickSnap s s.me)))
  | .isOn c n =>
    match AL.lookup s.nicks n, AL.lookup s.chans c with
    | some ni, some ci =>
      match AL.lookup (getN s ni).chans ci with
      | some cell => (s, .privs (some (getP s cell)) true)
      | none => (s, .privs none false)
    | _, _ => (s, .privs none false)
  | .associate c n =>
    match AL.lookup s.chans c with
    | none => (s, .assoc none)
    | some ci =>
      match AL.lookup s.nicks n with
      | none => (s, .assoc none)
      | some ni =>
        if AL.has (getN s ni).chans ci then (s, .assoc none)
        else
          let cell := s.fresh
          let s1 := { setP s cell {} with fresh := cell + 1 }
          -- ch.addNick(nk, cp)
          let co := getC s1 ci
          let s2 := if AL.has co.nicks ni then s1
            else setC s1 ci { co with nicks := AL.insert co.nicks ni cell, lookup := AL.insert co.lookup (getN s1 ni).nick ni }
          -- nk.addChannel(ch, cp)
          let no := getN s2 ni
          let s3 := if AL.has no.chans ci then s2
            else setN s2 ni { no with chans := AL.insert no.chans ci cell, lookup := AL.insert no.lookup (getC s2 ci).name ci }
          (s3, .assoc (some {}))
  | .dissociate c n =>
    match AL.lookup s.chans c with
    | none => (s, .unit)
    | some ci =>
      match AL.lookup s.nicks n with
      | none => (s, .unit)
      | some ni =>
        if !AL.has (getN s ni).chans ci then (s, .unit)
        else if ni = s.me then (delChanObj s ci, .unit)
        else
          let s1 := nickDelChannel (chanDelNick s ci ni) ni ci
          if (getN s1 ni).chans.isEmpty then (delNickObj s1 ni, .unit) else (s1, .unit)
  | .wipe => ((AL.keys s.chans).foldl (fun st c =>
      match AL.lookup st.chans c with
      | some ci => delChanObj st ci
      | none => st) s, .unit)

end Go.Tracker
