/-!
# Generic model of operations serialised by one mutex (C14, second half)

Any number of threads call operations of a shared object whose every exported method is
`mu.Lock(); defer mu.Unlock(); body` (fact `trackerLockDiscipline`).  The object's sequential
behaviour is an arbitrary `f : σ → Op → σ × Ret`.  The log records, in real-time order, every call
and every return; `hist` records the operations in the order the mutex was acquired.
-/
namespace Go.Locked

variable {σ Op Ret : Type}

abbrev Tid := Nat

inductive Pc (Op Ret : Type)
  | idle
  | waiting (o : Op)          -- called, not yet past mu.Lock()
  | holding (o : Op)          -- holds the mutex, about to run the body
  | finished (o : Op) (r : Ret)  -- body done, still holding (deferred Unlock pending)

inductive Ev (Op Ret : Type)
  | call (t : Tid) (o : Op)
  | ret (t : Tid) (o : Op) (r : Ret)

structure St (σ Op Ret : Type) where
  obj : σ
  mu : Option Tid
  pc : Tid → Pc Op Ret
  log : List (Ev Op Ret)             -- real-time order of calls and returns
  hist : List (Tid × Op × Ret)       -- operations in lock-acquisition order (completed bodies)

inductive Label (Op : Type)
  | call (t : Tid) (o : Op)
  | lock (t : Tid)
  | body (t : Tid)
  | unlockRet (t : Tid)

def setPc (s : St σ Op Ret) (t : Tid) (p : Pc Op Ret) : Tid → Pc Op Ret := fun u => if u = t then p else s.pc u

def step (f : σ → Op → σ × Ret) (s : St σ Op Ret) : Label Op → Option (St σ Op Ret)
  | .call t o =>
    match s.pc t with
    | .idle => some { s with pc := setPc s t (.waiting o), log := s.log ++ [.call t o] }
    | _ => none
  | .lock t =>
    match s.pc t, s.mu with
    | .waiting o, none => some { s with mu := some t, pc := setPc s t (.holding o) }
    | _, _ => none
  | .body t =>
    match s.pc t with
    | .holding o =>
      let (obj', r) := f s.obj o
      some { s with obj := obj', pc := setPc s t (.finished o r), hist := s.hist ++ [(t, o, r)] }
    | _ => none
  | .unlockRet t =>
    match s.pc t with
    | .finished o r => some { s with mu := none, pc := setPc s t .idle, log := s.log ++ [.ret t o r] }
    | _ => none

def init (x : σ) : St σ Op Ret := { obj := x, mu := none, pc := fun _ => .idle, log := [], hist := [] }

inductive Reach (f : σ → Op → σ × Ret) (x : σ) : St σ Op Ret → Prop
  | init : Reach f x (init x)
  | step {s l s'} : Reach f x s → step f s l = some s' → Reach f x s'

/-- run operations one at a time -/
def seqRun (f : σ → Op → σ × Ret) : σ → List Op → σ × List Ret
  | x, [] => (x, [])
  | x, o :: os => let (x', r) := f x o; let (x'', rs) := seqRun f x' os; (x'', r :: rs)

end Go.Locked
