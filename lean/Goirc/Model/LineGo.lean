import Goirc.Model.Line
/-!
# `ParseLine` and the accessors once more, with Go's index and slice panics made explicit (C02)

`Goirc.Model.Line` is the readable model: total functions with the guards folded into pattern
matches.  This file transcribes the same Go code (client/line.go) *literally*: every `s[i]`,
`s[i:j]`, `a[i]` of the source is a checked operation that yields `Except.error` exactly when Go
would panic.  `Props.C02` proves that no input reaches an error and that the result is the
readable model's: the "never panics" claim is then a theorem about a model in which panics exist.
-/
namespace Go.LineGo

inductive Panic
  | index (i len : Nat)       -- index out of range [i] with length len
  | slice (i j len : Nat)     -- slice bounds out of range
deriving Repr, DecidableEq

abbrev M := Except Panic

/-- `s[i]` -/
def idx {α : Type} [Inhabited α] (s : List α) (i : Nat) : M α :=
  if h : i < s.length then .ok s[i] else .error (.index i s.length)

/-- `s[i:j]` -/
def slice {α : Type} (s : List α) (i j : Nat) : M (List α) :=
  if i ≤ j ∧ j ≤ s.length then .ok ((s.take j).drop i) else .error (.slice i j s.length)

/-- `s[i:]` -/
def sliceFrom {α : Type} (s : List α) (i : Nat) : M (List α) :=
  if i ≤ s.length then .ok (s.drop i) else .error (.slice i s.length s.length)

/-- `strings.SplitN(s, sep, 2)` as a Go slice of one or two strings -/
def splitN2 (s sep : Bytes) : List Bytes :=
  match cut s sep with
  | (a, some b) => [a, b]
  | (a, none) => [a]

/-- the tag loop of ParseLine (no indexing except `pair[0]`, `pair[1]` guarded by `len(pair) < 2`) -/
def addTagGo (m : List (Bytes × Bytes)) (tag : Bytes) : M (List (Bytes × Bytes)) :=
  if tag.isEmpty then .ok m else
  let pair := splitN2 (unescapeTag tag) [61]
  if pair.length < 2 then .ok (mapInsert m tag [])
  else do
    let k ← idx pair 0
    let v ← idx pair 1
    pure (mapInsert m k v)

def parseTagsGo (rawTags : Bytes) : M (List (Bytes × Bytes)) :=
  (splitByte 59 [] rawTags).foldlM addTagGo []

/-- `parseUserHost` (line.go): `uh[:nidx]`, `uh[nidx+1 : uidx]`, `uh[uidx+1:]` -/
def parseUserHostGo (uh0 : Bytes) : M (Option (Bytes × Bytes × Bytes)) :=
  let uh := trimSpace uh0
  match indexByte uh 33, indexByte uh 64 with
  | some nidx, some uidx =>
    if uidx < nidx then .ok none
    else do
      let n ← slice uh 0 nidx
      let i ← slice uh (nidx + 1) uidx
      let h ← sliceFrom uh (uidx + 1)
      pure (some (n, i, h))
  | _, _ => .ok none

/-- `Args[1] = v` -/
def setIdx (a : List Bytes) (i : Nat) (v : Bytes) : M (List Bytes) :=
  if i < a.length then .ok (a.set i v) else .error (.index i a.length)

/-- the CTCP block at the end of ParseLine; `&&` short-circuits left to right -/
def ctcpGo (ext : UnicodeExt) (line : Line) : M Line :=
  if !(line.cmd == PRIVMSG || line.cmd == NOTICE) then .ok line
  else if !(line.args.length > 1) then .ok line
  else do
    let a1 ← idx line.args 1
    if !(a1.length > 2) then return line
    if !(hasPrefix a1 [1]) then return line
    if !(hasSuffix a1 [1]) then return line
    let t := splitN2 (trimByte 1 a1) [32]
    let args1 ← (if t.length > 1 then do let t1 ← idx t 1; setIdx line.args 1 t1 else pure line.args)
    let t0 ← idx t 0
    let c := toUpper ext t0
    if c == ACTION && line.cmd == PRIVMSG then return { line with cmd := c, args := args1 }
    else return { line with cmd := (if line.cmd == PRIVMSG then CTCP else CTCPREPLY), args := c :: args1 }

/-- from `args := strings.SplitN(s, " :", 2)` to the end -/
def restGo (ext : UnicodeExt) (line : Line) (s : Bytes) : M (Option Line) := do
  let sp := splitN2 s [32, 58]
  let a0 ← idx sp 0
  let args ← (if sp.length > 1 then do let a1 ← idx sp 1; pure (fields a0 ++ [a1]) else pure (fields a0))
  if args.length == 0 then return none
  let c ← idx args 0
  let rest ← (if args.length > 1 then sliceFrom args 1 else pure [])
  let l ← ctcpGo ext { line with cmd := toUpper ext c, args := rest }
  return some l

/-- from the second `if s == ""` on: source, then the rest -/
def sourceGo (ext : UnicodeExt) (line : Line) (s : Bytes) : M (Option Line) := do
  if s.isEmpty then return none
  let c0 ← idx s 0
  if c0 == 58 then
    match indexByte s 32 with
    | none => return none
    | some i =>
      let src ← slice s 1 i
      let s' ← sliceFrom s (i + 1)
      let uh ← parseUserHostGo src
      let line1 := match uh with
        | some (n, id, h) => { line with src := src, nick := n, ident := id, host := h }
        | none => { line with src := src, host := src }
      restGo ext line1 s'
  else restGo ext line s

/-- `ParseLine` -/
def parseLineGo (ext : UnicodeExt) (s : Bytes) : M (Option Line) := do
  if s.isEmpty then return none
  let c0 ← idx s 0
  if c0 == 64 then
    match indexByte s 32 with
    | none => return none
    | some i =>
      let rawTags ← slice s 1 i
      let s' ← sliceFrom s (i + 1)
      let tags ← parseTagsGo rawTags
      sourceGo ext { raw := s, tags := some tags } s'
  else sourceGo ext { raw := s } s

/-! ### accessors -/

/-- `Line.Text()` -/
def textGo (l : Line) : M Bytes :=
  if l.args.length > 0 then idx l.args (l.args.length - 1) else .ok []

/-- `Line.Public()` -/
def publicGo (l : Line) : M Bool :=
  if l.cmd == PRIVMSG || l.cmd == NOTICE || l.cmd == ACTION then
    if l.args.length < 1 then .ok false else do
      let a0 ← idx l.args 0
      if a0.isEmpty then return false
      let b ← idx a0 0
      return isChanPrefix b
  else if l.cmd == CTCP || l.cmd == CTCPREPLY then
    if l.args.length < 2 then .ok false else do
      let a1 ← idx l.args 1
      if a1.isEmpty then return false
      let b ← idx a1 0
      return isChanPrefix b
  else .ok false

/-- `Line.Target()` -/
def targetGo (l : Line) : M Bytes := do
  if l.cmd == PRIVMSG || l.cmd == NOTICE || l.cmd == ACTION then
    let p ← publicGo l
    if !p then return l.nick
    if l.args.length > 0 then idx l.args 0 else return []
  else if l.cmd == CTCP || l.cmd == CTCPREPLY then
    let p ← publicGo l
    if !p then return l.nick
    idx l.args 1
  else if l.args.length > 0 then idx l.args 0 else return []

end Go.LineGo
