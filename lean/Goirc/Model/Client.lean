import Goirc.Model.Line
import Goirc.Model.Commands
import Goirc.Model.Tracker
import Goirc.Go.Base64
/-!
# Sequential model of the client core: the built-in handlers (client/handlers.go,
client/state_handlers.go) over the command model and the tracker model

One call of `dispatchInternal c l` is what the internal handler set does for the event `l`
(handlers of one event run on separate goroutines in Go; at most one of them acts for any verb —
`h_NICK` is a no-op when tracking is on — so their effects are modelled in sequence).
A handler that panics in Go (an unguarded `line.Args[i]`, a nil `cfg.Me`) is recovered by
`Conn.LogPanic`; the model returns what was done up to that point and `panicked := true`.
-/
namespace Go.Client
open Go Go.Tracker

inductive Sasl
  | plain (identity user pass : Bytes)
  | external (identity : Bytes)
deriving Repr

structure Config where
  meNil : Bool := false          -- cfg.Me == nil
  meNick : Bytes := []           -- cfg.Me.{Nick,Ident,Host,Name}
  meIdent : Bytes := []
  meHost : Bytes := []
  meName : Bytes := []
  pass : Bytes := []
  capNeg : Bool := false
  caps : List Bytes := []
  sasl : Option Sasl := none
  version : Bytes := []
  cmd : CmdCfg := ⟨450, []⟩

structure Client where
  cfg : Config
  st : Option St := none                      -- the tracker, when state tracking is enabled
  supported : List (Bytes × Bool) := []       -- supportedCaps.caps
  curr : List (Bytes × Bool) := []            -- currCaps.caps
  saslRemaining : Option Bytes := none
  newNick : Bytes → Bytes
  ext : UnicodeExt

/-- result of running a handler: new client, lines put on the queue, whether it panicked,
whether it dispatched CONNECTED -/
structure HR where
  c : Client
  out : List Bytes := []
  panicked : Bool := false
  connected : Bool := false

def emit (c : Client) (cmd : Cmd) : List Bytes := exec c.ext c.cfg.cmd cmd

/-- `DefaultNewNick` (connection.go:174-188) -/
def defaultNewNick (old : Bytes) : Bytes :=
  match old.getLast? with
  | none => [95]
  | some c =>
    let c' : UInt8 :=
      if 48 ≤ c ∧ c ≤ 57 then 48 + (((c - 48) + 1) % 10)
      else if 65 ≤ c ∧ c ≤ 125 then 65 + (((c - 65) + 1) % 61)
      else 95
    old.dropLast ++ [c']

/-! ### capability sets -/

def capAdd (m : List (Bytes × Bool)) : List Bytes → List (Bytes × Bool)
  | [] => m
  | c :: rest =>
    match c with
    | 45 :: name => capAdd (AL.insert m name false) rest
    | _ => capAdd (AL.insert m c true) rest

def capHas (m : List (Bytes × Bool)) (c : Bytes) : Bool := (AL.lookup m c).getD false

def capIntersect (m other : List (Bytes × Bool)) : List (Bytes × Bool) := m.filter fun p => capHas other p.1

def insertSorted (x : Bytes) : List Bytes → List Bytes
  | [] => [x]
  | y :: ys => if decide (x < y) then x :: y :: ys else y :: insertSorted x ys

/-- `sort.Strings` -/
def sortBytes (l : List Bytes) : List Bytes := l.foldr insertSorted []

def capSlice (m : List (Bytes × Bool)) : List Bytes := sortBytes (AL.keys m)

def saslCap : Bytes := lit "sasl"

def requestCaps (c : Client) : List (Bytes × Bool) :=
  capAdd (if c.cfg.sasl.isSome then capAdd [] [saslCap] else []) c.cfg.caps

def CAP_LS := lit "LS"
def CAP_REQ := lit "REQ"
def CAP_ACK := lit "ACK"
def CAP_NAK := lit "NAK"
def CAP_END := lit "END"

def negotiate (c : Client) (advertised : List Bytes) : HR :=
  let c1 := { c with supported := capAdd c.supported advertised }
  let req := capIntersect (requestCaps c1) c1.supported
  if req.length > 0 then { c := c1, out := emit c1 (.cap CAP_REQ (capSlice req)) }
  else { c := c1, out := emit c1 (.cap CAP_END []) }

def saslStart : Sasl → Bytes × Bytes
  | .plain i u p => (lit "PLAIN", i ++ [0] ++ u ++ [0] ++ p)
  | .external i => (lit "EXTERNAL", i)

/-- the loop of `handleCapAck` -/
def capAckLoop (c : Client) : List Bytes → List Bytes → Bool → Client × List Bytes × Bool
  | [], out, got => (c, out, got)
  | cap :: rest, out, got =>
    let c1 := { c with curr := capAdd c.curr [cap] }
    match c1.cfg.sasl with
    | some s =>
      if cap == saslCap then
        let (mech, ir) := saslStart s
        let c2 := { c1 with saslRemaining := some ir }
        capAckLoop c2 rest (out ++ emit c2 (.authenticate mech)) true
      else capAckLoop c1 rest out got
    | none => capAckLoop c1 rest out got

def handleCapAck (c : Client) (caps : List Bytes) : HR :=
  let (c1, out, got) := capAckLoop c caps [] false
  if got then { c := c1, out := out } else { c := c1, out := out ++ emit c1 (.cap CAP_END []) }

/-! ### helpers over the tracker -/

def tk (c : Client) (o : Op) : Client × Ret :=
  match c.st with
  | some s => let (s', r) := step s o; ({ c with st := some s' }, r)
  | none => (c, .unit)

def retNick : Ret → Option NickSnap
  | .nick n => n
  | _ => none

def retChan : Ret → Option ChanSnap
  | .chan n => n
  | _ => none

/-- `conn.Me()`: refresh `cfg.Me` from the tracker when tracking is on -/
def refreshMe (c : Client) : Client :=
  match c.st with
  | some s =>
    let n := nickSnap s s.me
    { c with cfg := { c.cfg with meNil := false, meNick := n.nick, meIdent := n.ident, meHost := n.host, meName := n.name } }
  | none => c

def setMeFrom (c : Client) (n : NickSnap) : Client :=
  { c with cfg := { c.cfg with meNil := false, meNick := n.nick, meIdent := n.ident, meHost := n.host, meName := n.name } }

/-- `conn.Me().Equals(nk)` for a snapshot `nk` just read from the same tracker: names are unique keys -/
def isMe (c : Client) (nk : Option NickSnap) : Bool :=
  match nk with
  | some n => n.nick == (refreshMe c).cfg.meNick
  | none => false

def arg (l : Line) (i : Nat) : Option Bytes := l.args[i]?

/-! ### the handlers -/

def h_PING (c : Client) (l : Line) : HR :=
  match arg l 0 with
  | some a => { c := c, out := emit c (.pong a) }
  | none => { c := c, panicked := true }

def h_REGISTER (c : Client) (_ : Line) : HR :=
  let o1 := if c.cfg.capNeg then emit c (.cap CAP_LS []) else []
  let o2 := if c.cfg.pass != [] then emit c (.pass c.cfg.pass) else []
  if c.cfg.meNil then { c := c, out := o1 ++ o2, panicked := true }
  else { c := c, out := o1 ++ o2 ++ emit c (.nick c.cfg.meNick) ++ emit c (.user c.cfg.meIdent c.cfg.meName) }

def lastWord (t : Bytes) : Bytes :=
  match lastIndexByte t 32 with
  | some i => t.drop (i + 1)
  | none => t

def h_001 (c0 : Client) (l : Line) : HR :=
  let c := refreshMe c0
  if c.cfg.meNil then { c := c, panicked := true, connected := true } else
  let nick := l.target
  let uh := parseUserHost (lastWord l.text)
  match c.st with
  | some _ =>
    let c1 := match uh with
      | some (_, ident, host) => (tk c (.nickInfo c.cfg.meNick ident host c.cfg.meName)).1
      | none => c
    let (c2, r) := tk c1 (.reNick c.cfg.meNick nick)
    match retNick r with
    | some n => { c := setMeFrom c2 n, connected := true }
    | none => { c := c2, connected := true }
  | none =>
    let cfg1 := { c.cfg with meNick := nick }
    let cfg2 := match uh with
      | some (_, ident, host) => { cfg1 with meIdent := ident, meHost := host }
      | none => cfg1
    { c := { c with cfg := cfg2 }, connected := true }

def h_433 (c0 : Client) (l : Line) : HR :=
  let c := refreshMe c0
  if c.cfg.meNil then { c := c, panicked := true } else
  match arg l 1 with
  | none => { c := c, panicked := true }
  | some refused =>
    let neu := c.newNick refused
    let out := emit c (.nick neu)
    if refused == c.cfg.meNick then
      match c.st with
      | some _ =>
        let (c1, r) := tk c (.reNick c.cfg.meNick neu)
        match retNick r with
        | some n => { c := setMeFrom c1 n, out := out }
        | none => { c := c1, out := out }
      | none => { c := { c with cfg := { c.cfg with meNick := neu } }, out := out }
    else { c := c, out := out }

def VERSION := lit "VERSION"
def PINGv := lit "PING"

def h_CTCP (c : Client) (l : Line) : HR :=
  match arg l 0 with
  | none => { c := c, panicked := true }
  | some a0 =>
    if a0 == VERSION then { c := c, out := emit c (.ctcpReply l.nick VERSION [c.cfg.version]) }
    else if a0 == PINGv then
      match arg l 2 with
      | some a2 => { c := c, out := emit c (.ctcpReply l.nick PINGv [a2]) }
      | none => { c := c }
    else { c := c }

def h_NICK (c : Client) (l : Line) : HR :=
  match c.st with
  | some _ => { c := c }
  | none =>
    if c.cfg.meNil then { c := c, panicked := true }
    else if l.nick == c.cfg.meNick then
      match arg l 0 with
      | some a => { c := { c with cfg := { c.cfg with meNick := a } } }
      | none => { c := c, panicked := true }
    else { c := c }

/-- `handleCapNak`: a refused request changes nothing - the negotiation is closed, what is held stays as it was -/
def handleCapNak (c : Client) (_ : List Bytes) : HR := { c := c, out := emit c (.cap CAP_END []) }

def h_CAP (c : Client) (l : Line) : HR :=
  match arg l 1 with
  | none => { c := c, panicked := true }
  | some sub =>
    let caps := fields l.text
    if sub == CAP_LS then negotiate c caps
    else if sub == CAP_ACK then handleCapAck c caps
    else if sub == CAP_NAK then handleCapNak c caps
    else { c := c }

def h_410 (c : Client) (l : Line) : HR :=
  match arg l 1 with
  | none => { c := c, panicked := true }
  | some _ => { c := c }

def h_AUTHENTICATE (c : Client) (l : Line) : HR :=
  match c.cfg.sasl with
  | none => { c := c }
  | some _ =>
    match c.saslRemaining with
    | some d =>
      let data := if d.length > 0 then b64encode d else [43]
      { c := { c with saslRemaining := none }, out := emit c (.authenticate data) }
    | none =>
      -- PLAIN and EXTERNAL answer every later challenge with ErrUnexpectedServerChallenge
      match arg l 0 with
      | none => { c := c, panicked := true }
      | some _ => { c := c }

def h_903 (c : Client) (_ : Line) : HR := { c := c, out := emit c (.cap CAP_END []) }
def h_904 (c : Client) (_ : Line) : HR := { c := c, out := emit c (.cap CAP_END []) }
def h_908 (c : Client) (l : Line) : HR :=
  match arg l 1 with
  | none => { c := c, panicked := true }
  | some _ => { c := c, out := emit c (.cap CAP_END []) }

/-! ### state handlers (only registered while tracking is on) -/

def h_STNICK (c : Client) (l : Line) : HR :=
  match arg l 0 with
  | none => { c := c, panicked := true }
  | some a => { c := (tk c (.reNick l.nick a)).1 }

def h_JOIN (c : Client) (l : Line) : HR :=
  match arg l 0 with
  | none => { c := c, panicked := true }
  | some chn =>
    let (c1, rc) := tk c (.getChannel chn)
    let (c2, rn) := tk c1 (.getNick l.nick)
    let nk := retNick rn
    if (retChan rc).isNone && !isMe c2 nk then { c := refreshMe c2 }
    else
      let (c3, out1) :=
        if (retChan rc).isNone then
          let cr := refreshMe c2
          ((tk cr (.newChannel chn)).1, emit cr (.mode chn []) ++ emit cr (.who chn))
        else (c2, [])
      let (c4, out2) :=
        if nk.isNone then
          let a := (tk c3 (.newNick l.nick)).1
          let b := (tk a (.nickInfo l.nick l.ident l.host [])).1
          (b, emit b (.who l.nick))
        else (c3, [])
      { c := (tk c4 (.associate chn l.nick)).1, out := out1 ++ out2 }

def h_PART (c : Client) (l : Line) : HR :=
  match arg l 0 with
  | none => { c := c, panicked := true }
  | some chn => { c := (tk c (.dissociate chn l.nick)).1 }

def h_KICK (c : Client) (l : Line) : HR :=
  match arg l 0, arg l 1 with
  | some chn, some who => { c := (tk c (.dissociate chn who)).1 }
  | _, _ => { c := c }

def h_QUIT (c : Client) (l : Line) : HR := { c := (tk c (.delNick l.nick)).1 }

def h_MODE (c : Client) (l : Line) : HR :=
  match arg l 0, arg l 1 with
  | some t, some m =>
    let (c1, rc) := tk c (.getChannel t)
    if (retChan rc).isSome then { c := (tk c1 (.channelModes t m (l.args.drop 2))).1 }
    else
      let (c2, rn) := tk c1 (.getNick t)
      if (retNick rn).isSome then
        if !isMe c2 (retNick rn) then { c := refreshMe c2 }
        else { c := (tk (refreshMe c2) (.nickModes t m)).1 }
      else { c := c2 }
  | _, _ => { c := c }

def h_TOPIC (c : Client) (l : Line) : HR :=
  match arg l 0, arg l 1 with
  | some chn, some t =>
    let (c1, rc) := tk c (.getChannel chn)
    if (retChan rc).isSome then { c := (tk c1 (.topic chn t)).1 } else { c := c1 }
  | _, _ => { c := c }

def h_311 (c : Client) (l : Line) : HR :=
  match arg l 1, arg l 2, arg l 3, arg l 5 with
  | some n, some i, some h, some name =>
    let (c1, rn) := tk c (.getNick n)
    if (retNick rn).isSome then
      if !isMe c1 (retNick rn) then { c := (tk (refreshMe c1) (.nickInfo n i h name)).1 } else { c := refreshMe c1 }
    else { c := c1 }
  | _, _, _, _ => { c := c }

def h_324 (c : Client) (l : Line) : HR :=
  match arg l 1, arg l 2 with
  | some chn, some m =>
    let (c1, rc) := tk c (.getChannel chn)
    if (retChan rc).isSome then { c := (tk c1 (.channelModes chn m (l.args.drop 3))).1 } else { c := c1 }
  | _, _ => { c := c }

def h_332 (c : Client) (l : Line) : HR :=
  match arg l 1, arg l 2 with
  | some chn, some t =>
    let (c1, rc) := tk c (.getChannel chn)
    if (retChan rc).isSome then { c := (tk c1 (.topic chn t)).1 } else { c := c1 }
  | _, _ => { c := c }

def contains (s : Bytes) (b : UInt8) : Bool := s.contains b

def h_352 (c : Client) (l : Line) : HR :=
  match arg l 2, arg l 3, arg l 5 with
  | some ident, some host, some n =>
    let (c1, rn) := tk c (.getNick n)
    match retNick rn with
    | none => { c := c1 }
    | some nk =>
      if isMe c1 (some nk) then { c := refreshMe c1 }
      else
        let cr := refreshMe c1
        match cut (l.args.getLast?.getD []) [32] with
        | (_, none) => { c := cr, panicked := true }
        | (_, some real) =>
          let c2 := (tk cr (.nickInfo nk.nick ident host real)).1
          match arg l 6 with
          | none => { c := c2 }
          | some flags =>
            let c3 := if contains flags 42 then (tk c2 (.nickModes nk.nick (lit "+o"))).1 else c2
            let c4 := if contains flags 66 then (tk c3 (.nickModes nk.nick (lit "+B"))).1 else c3
            let c5 := if contains flags 72 then (tk c4 (.nickModes nk.nick (lit "+i"))).1 else c4
            { c := c5 }
  | _, _, _ => { c := c }

def prefixMode (b : UInt8) : Option Bytes :=
  if b == 126 then some (lit "+q") else if b == 38 then some (lit "+a") else if b == 64 then some (lit "+o")
  else if b == 37 then some (lit "+h") else if b == 43 then some (lit "+v") else none

def names353 (c : Client) (chn : Bytes) : List Bytes → Client
  | [] => c
  | w :: rest =>
    match w with
    | [] => names353 c chn rest
    | b :: tl =>
      let nick := if (prefixMode b).isSome then tl else w
      let (c1, rn) := tk c (.getNick nick)
      let c2 := if (retNick rn).isNone then (tk c1 (.newNick nick)).1 else c1
      let (c3, ro) := tk c2 (.isOn chn nick)
      let c4 := match ro with
        | .privs _ true => c3
        | _ => (tk c3 (.associate chn nick)).1
      let c5 := match prefixMode b with
        | some m => (tk c4 (.channelModes chn m [nick])).1
        | none => c4
      names353 c5 chn rest

def h_353 (c : Client) (l : Line) : HR :=
  match arg l 2 with
  | some chn =>
    let (c1, rc) := tk c (.getChannel chn)
    match retChan rc with
    | some ch => { c := names353 c1 ch.name (splitByte 32 [] (l.args.getLast?.getD [])) }
    | none => { c := c1 }
  | none => { c := c }

def h_671 (c : Client) (l : Line) : HR :=
  match arg l 1 with
  | some n =>
    let (c1, rn) := tk c (.getNick n)
    match retNick rn with
    | some nk => { c := (tk c1 (.nickModes nk.nick (lit "+z"))).1 }
    | none => { c := c1 }
  | none => { c := c }

/-- the internal handler set: `intHandlers` always, `stHandlers` while tracking is on.
`hSet.add` lower-cases the registered name and `hSet.dispatch` lower-cases `line.Cmd`. -/
def intHandler (ev : Bytes) : Option (Client → Line → HR) :=
  if ev == lit "register" then some h_REGISTER
  else if ev == lit "001" then some h_001
  else if ev == lit "433" then some h_433
  else if ev == lit "ctcp" then some h_CTCP
  else if ev == lit "nick" then some h_NICK
  else if ev == lit "ping" then some h_PING
  else if ev == lit "cap" then some h_CAP
  else if ev == lit "410" then some h_410
  else if ev == lit "authenticate" then some h_AUTHENTICATE
  else if ev == lit "903" then some h_903
  else if ev == lit "904" then some h_904
  else if ev == lit "908" then some h_908
  else none

def stHandler (ev : Bytes) : Option (Client → Line → HR) :=
  if ev == lit "join" then some h_JOIN
  else if ev == lit "kick" then some h_KICK
  else if ev == lit "mode" then some h_MODE
  else if ev == lit "nick" then some h_STNICK
  else if ev == lit "part" then some h_PART
  else if ev == lit "quit" then some h_QUIT
  else if ev == lit "topic" then some h_TOPIC
  else if ev == lit "311" then some h_311
  else if ev == lit "324" then some h_324
  else if ev == lit "332" then some h_332
  else if ev == lit "352" then some h_352
  else if ev == lit "353" then some h_353
  else if ev == lit "671" then some h_671
  else none

/-- what `conn.intHandlers.dispatch(conn, line)` does -/
def dispatchInternal (c : Client) (l : Line) : HR :=
  let ev := toLower c.ext l.cmd
  let r1 := match intHandler ev with
    | some h => h c l
    | none => { c := c }
  match r1.c.st, stHandler ev with
  | some _, some h =>
    let r2 := h r1.c l
    { c := r2.c, out := r1.out ++ r2.out, panicked := r1.panicked || r2.panicked, connected := r1.connected || r2.connected }
  | _, _ => r1

/-- what `Client(cfg)` does to the configuration it is given: a SASL mechanism needs capability negotiation, so the
switch is turned on for it ("Enabling capability negotiation as it's required for SASL") -/
def clientConfig (cfg : Config) : Config := { cfg with capNeg := cfg.capNeg || cfg.sasl.isSome }

/-- `EnableStateTracking` on a client that is not tracking yet -/
def enableTracking (c : Client) : Client :=
  match c.st with
  | some _ => c
  | none =>
    let s0 := Tracker.new c.cfg.meNick
    let s1 := (step s0 (.nickInfo c.cfg.meNick c.cfg.meIdent c.cfg.meHost c.cfg.meName)).1
    refreshMe { c with st := some s1 }

/-- `DisableStateTracking`: `cfg.Me` keeps the tracker's last word on the client, the tracker goes away -/
def disableTracking (c : Client) : Client :=
  match c.st with
  | some _ => { refreshMe c with st := none }
  | none => c

/-- `initialise()`'s effect on the client-level state at every connect: the tracker is wiped and (since fix 6ca41f7:
what a server advertised or acknowledged belongs to the connection it said it on) both capability sets are emptied -/
def wipeOnConnect (c : Client) : Client := { (tk c .wipe).1 with supported := [], curr := [] }

end Go.Client
