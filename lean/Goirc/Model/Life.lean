/-!
# Model of the connection life cycle as a labelled transition system (C06, C07)

Transcribes `ConnectContext` / `internalConnect` / `postConnect`, `Close` / `closeFor`, and the
exit paths of `send`, `recvFor`, `runLoop`, `ping` (client/connection.go, after the `fix:` commits
listed in known_findings.json).  Any number of API threads call `Connect` and `Close` at any time;
the server may send lines, close the socket or fail reads and writes at any time; the user's
context may be cancelled at any time; handlers run by `runLoop` and the ping goroutine emit an
arbitrary finite number of lines into `conn.out` and block while it is full.

* One mutex `mu`; `connected`; `cur` = identity of `conn.ctx` (generation number, 0 = never connected).
* A new generation can only be created after the previous one's goroutines have all passed
  `wg.Done()` (the closer keeps `mu` until `wg.Wait()` returns), so one record `g` describes the
  goroutines and queues of generation `cur`; goroutines that have left call `closeFor(theirCtx)` as
  "stragglers", which are threads like any other.
* `Connected()` reads the flag under its own leaf lock `cmu` (fix a35e5c2), never under `mu`: a handler that asks
  needs no step of this model's locks, which is why handlers here only emit lines. `internalConnect` sets the flag,
  starts the goroutines and releases `mu` in that order; `cSucceed` does the three at once. That is a sound
  abstraction with the flag write as the linearisation point: between it and the unlock the connecting thread
  touches nothing another thread can see (`conn.ctx` is read under `mu` only), threads waiting for `mu` are merely
  scheduled later, and the new goroutines' steps come after.
* The peer may stop reading at any time (`stalled`): a socket write in progress then does not return until the socket
  is closed or the peer resumes. `recv` may equally sit in a read for ever and `runLoop` in a handler that waits for
  room in `conn.out`; none of the three is then looking at `ctx.Done()`. That is why `postConnect` also starts a
  watchdog goroutine (fix 9105b13) that waits for the context only and calls `closeFor(ctx)`: `watch` says it has not
  fired yet. It is not in the wait group; one that is still waiting when its connection is torn down by somebody else
  fires later (every teardown cancels the context) as a straggler of an old generation - `stale` lets any idle thread
  become such a straggler at any time, which over-approximates exactly that.
* Ghost: `log`, the observable history with generation numbers.
-/
namespace Go.Life

abbrev Tid := Nat
abbrev Gen := Nat

def cap : Nat := 32   -- capacity of conn.in and conn.out

inductive RecvPc | reading | holding | gone deriving DecidableEq, Repr
inductive SendPc | idle | writing | gone deriving DecidableEq, Repr
inductive LoopPc
  | select
  | hRun (fuel : Nat)     -- inside a handler that may still emit `fuel` lines
  | hSend (fuel : Nat)    -- that handler is inside Raw, waiting for room in conn.out
  | gone
deriving DecidableEq, Repr
inductive PingPc
  | absent                -- PingFreq = 0
  | idle (fuel : Nat)     -- may still tick `fuel` times
  | sending (fuel : Nat)  -- inside Raw
  | gone
deriving DecidableEq, Repr

/-- goroutines and queues of the current generation -/
structure G where
  cancelled : Bool := false      -- the connection's context is cancelled (die() or the user's cancel)
  sockClosed : Bool := false     -- sock.Close() has been called
  eof : Bool := false            -- the server closed its side / a read error is pending
  werr : Bool := false           -- writes fail from now on
  stalled : Bool := false        -- the peer has stopped reading: a write in progress does not return
  watch : Bool := false          -- this generation's watchdog goroutine is still waiting for ctx.Done()
  avail : Nat := 0               -- lines the reader can still deliver to recv
  inQ : Nat := 0                 -- len(conn.in)
  outQ : Nat := 0                -- len(conn.out)
  recv : RecvPc := .gone
  send : SendPc := .gone
  loop : LoopPc := .gone
  ping : PingPc := .absent
  wg : Nat := 0                  -- conn.wg
deriving Repr

/-- program counter of a thread: an API caller, or a goroutine that has left its loop and is in closeFor -/
inductive TPc
  | idle
  | cWant                         -- Connect: waiting for conn.mu
  | cLocked                       -- Connect: holds conn.mu
  | cRegister (g : Gen)           -- Connect: unlocked, about to dispatch REGISTER
  | cRet (g : Gen)                -- Connect: REGISTER dispatched, about to return nil
  | xWant (target : Option Gen)   -- closeFor: waiting for conn.mu (target none = public Close)
  | xLocked (target : Option Gen)
  | xDrain (g : Gen)              -- passed the test-and-clear for g: draining until wg.Wait() returns
  | xFire (g : Gen)               -- unlocked, about to dispatch DISCONNECTED
deriving DecidableEq, Repr

inductive Ev
  | register (g : Gen) (flag : Bool)              -- REGISTER handlers start; Connected() sampled
  | connectOk (g : Gen)
  | connectErr
  | tested (g : Gen)                              -- (ghost) a closer passed the test-and-clear for g
  | disconnected (g : Gen) (flag : Bool) (curNow : Gen)  -- DISCONNECTED handlers start; Connected() and conn.ctx sampled
  | closeNoop (target : Option Gen)               -- closeFor returned without doing anything
deriving DecidableEq, Repr

structure St where
  mu : Option Tid := none
  connected : Bool := false
  cur : Gen := 0
  g : G := {}
  thr : Tid → TPc := fun _ => .idle
  log : List Ev := []

inductive Label
  -- API threads
  | connect (t : Tid)
  | cLock (t : Tid)
  | cRefuse (t : Tid)             -- no server configured / already connected / dial or TLS failure
  | cSucceed (t : Tid) (ping : Option Nat)   -- postConnect; ping = some fuel when PingFreq > 0
  | cRegister (t : Tid)
  | cRet (t : Tid)
  | close (t : Tid)
  | xLock (t : Tid)
  | xTest (t : Tid)
  | xDrainIn (t : Tid)
  | xDrainOut (t : Tid)
  | xFinish (t : Tid)
  | xFire (t : Tid)
  -- environment
  | srvSend | srvEOF | writeErr | ctxCancel | peerStall | peerResume
  -- the watchdog of the current generation, and stragglers (watchdogs included) of older ones
  | watchFire (t : Tid) | stale (t : Tid) (g : Gen)
  -- recv goroutine
  | recvTake | recvDrop | recvPut | recvExit (t : Tid)
  -- runLoop goroutine and the handler it runs
  | loopTake (fuel : Nat) | hEmit | hPut | hDone | loopExit (t : Tid)
  -- send goroutine
  | sendTake | sendWrote | sendFail (t : Tid) | sendCancel (t : Tid)
  -- ping goroutine
  | pingTick | pingPut | pingExit

def setThr (s : St) (t : Tid) (p : TPc) : Tid → TPc := fun u => if u = t then p else s.thr u

def step (s : St) : Label → Option St
  | .connect t => if s.thr t = .idle then some { s with thr := setThr s t .cWant } else none
  | .cLock t => if s.thr t = .cWant ∧ s.mu = none then some { s with mu := some t, thr := setThr s t .cLocked } else none
  | .cRefuse t =>
    if s.thr t = .cLocked then some { s with mu := none, thr := setThr s t .idle, log := s.log ++ [.connectErr] } else none
  | .cSucceed t ping =>
    if s.thr t = .cLocked ∧ s.connected = false then
      some { s with
        mu := none, connected := true, cur := s.cur + 1,
        g := { recv := .reading, send := .idle, loop := .select, watch := true,
               ping := (match ping with | some f => .idle f | none => .absent),
               wg := (match ping with | some _ => 4 | none => 3) },
        thr := setThr s t (.cRegister (s.cur + 1)) }
    else none
  | .cRegister t =>
    match s.thr t with
    | .cRegister g => some { s with thr := setThr s t (.cRet g), log := s.log ++ [.register g s.connected] }
    | _ => none
  | .cRet t =>
    match s.thr t with
    | .cRet g => some { s with thr := setThr s t .idle, log := s.log ++ [.connectOk g] }
    | _ => none
  | .close t => if s.thr t = .idle then some { s with thr := setThr s t (.xWant none) } else none
  | .xLock t =>
    match s.thr t with
    | .xWant tg => if s.mu = none then some { s with mu := some t, thr := setThr s t (.xLocked tg) } else none
    | _ => none
  | .xTest t =>
    match s.thr t with
    | .xLocked tg =>
      if s.connected = false ∨ (∃ g', tg = some g' ∧ g' ≠ s.cur) then
        some { s with mu := none, thr := setThr s t .idle, log := s.log ++ [.closeNoop tg] }
      else
        some { s with connected := false, g := { s.g with sockClosed := true, cancelled := true },
                      thr := setThr s t (.xDrain s.cur), log := s.log ++ [.tested s.cur] }
    | _ => none
  | .xDrainIn t =>
    match s.thr t with
    | .xDrain _ => if s.g.inQ > 0 then some { s with g := { s.g with inQ := s.g.inQ - 1 } } else none
    | _ => none
  | .xDrainOut t =>
    match s.thr t with
    | .xDrain _ => if s.g.outQ > 0 then some { s with g := { s.g with outQ := s.g.outQ - 1 } } else none
    | _ => none
  | .xFinish t =>
    match s.thr t with
    | .xDrain g => if s.g.wg = 0 then some { s with mu := none, thr := setThr s t (.xFire g) } else none
    | _ => none
  | .xFire t =>
    match s.thr t with
    | .xFire g => some { s with thr := setThr s t .idle, log := s.log ++ [.disconnected g s.connected s.cur] }
    | _ => none
  | .srvSend => if s.g.sockClosed = false ∧ s.g.eof = false then some { s with g := { s.g with avail := s.g.avail + 1 } } else none
  | .srvEOF => some { s with g := { s.g with eof := true } }
  | .writeErr => some { s with g := { s.g with werr := true } }
  | .ctxCancel => some { s with g := { s.g with cancelled := true } }
  | .peerStall => some { s with g := { s.g with stalled := true } }
  | .peerResume => some { s with g := { s.g with stalled := false } }
  | .watchFire t =>
    if s.g.watch = true ∧ s.g.cancelled = true ∧ s.thr t = .idle then
      some { s with g := { s.g with watch := false }, thr := setThr s t (.xWant (some s.cur)) }
    else none
  | .stale t g =>
    if g < s.cur ∧ s.thr t = .idle then some { s with thr := setThr s t (.xWant (some g)) } else none
  | .recvTake =>
    if s.g.recv = .reading ∧ s.g.avail > 0 then some { s with g := { s.g with avail := s.g.avail - 1, recv := .holding } } else none
  | .recvDrop =>
    if s.g.recv = .reading ∧ s.g.avail > 0 then some { s with g := { s.g with avail := s.g.avail - 1 } } else none
  | .recvPut =>
    if s.g.recv = .holding ∧ s.g.inQ < cap then some { s with g := { s.g with inQ := s.g.inQ + 1, recv := .reading } } else none
  | .recvExit t =>
    if s.g.recv = .reading ∧ s.g.avail = 0 ∧ (s.g.eof = true ∨ s.g.sockClosed = true) ∧ s.thr t = .idle then
      some { s with g := { s.g with recv := .gone, wg := s.g.wg - 1 }, thr := setThr s t (.xWant (some s.cur)) }
    else none
  | .loopTake fuel =>
    if s.g.loop = .select ∧ s.g.inQ > 0 then some { s with g := { s.g with inQ := s.g.inQ - 1, loop := .hRun fuel } } else none
  | .hEmit =>
    match s.g.loop with
    | .hRun (f + 1) => some { s with g := { s.g with loop := .hSend f } }
    | _ => none
  | .hPut =>
    match s.g.loop with
    | .hSend f => if s.g.outQ < cap then some { s with g := { s.g with outQ := s.g.outQ + 1, loop := .hRun f } } else none
    | _ => none
  | .hDone =>
    match s.g.loop with
    | .hRun _ => some { s with g := { s.g with loop := .select } }
    | _ => none
  | .loopExit t =>
    if s.g.loop = .select ∧ s.g.cancelled = true ∧ s.thr t = .idle then
      some { s with g := { s.g with loop := .gone, wg := s.g.wg - 1 }, thr := setThr s t (.xWant (some s.cur)) }
    else none
  | .sendTake =>
    if s.g.send = .idle ∧ s.g.outQ > 0 then some { s with g := { s.g with outQ := s.g.outQ - 1, send := .writing } } else none
  | .sendWrote =>
    if s.g.send = .writing ∧ s.g.sockClosed = false ∧ s.g.werr = false ∧ s.g.stalled = false then some { s with g := { s.g with send := .idle } } else none
  | .sendFail t =>
    if s.g.send = .writing ∧ (s.g.sockClosed = true ∨ s.g.werr = true) ∧ s.thr t = .idle then
      some { s with g := { s.g with send := .gone, wg := s.g.wg - 1 }, thr := setThr s t (.xWant (some s.cur)) }
    else none
  | .sendCancel t =>
    if s.g.send = .idle ∧ s.g.cancelled = true ∧ s.thr t = .idle then
      some { s with g := { s.g with send := .gone, wg := s.g.wg - 1 }, thr := setThr s t (.xWant (some s.cur)) }
    else none
  | .pingTick =>
    match s.g.ping with
    | .idle (f + 1) => some { s with g := { s.g with ping := .sending f } }
    | _ => none
  | .pingPut =>
    match s.g.ping with
    | .sending f => if s.g.outQ < cap then some { s with g := { s.g with outQ := s.g.outQ + 1, ping := .idle f } } else none
    | _ => none
  | .pingExit =>
    match s.g.ping with
    | .idle _ => if s.g.cancelled = true then some { s with g := { s.g with ping := .gone, wg := s.g.wg - 1 } } else none
    | _ => none

inductive Reach : St → Prop
  | init : Reach {}
  | step {s l s'} : Reach s → step s l = some s' → Reach s'

/-- the labels that belong to a teardown in progress (everything but new API calls and the environment) -/
def isTeardown : Label → Bool
  | .xDrainIn _ | .xDrainOut _ | .xFinish _ => true
  | .recvTake | .recvDrop | .recvPut | .recvExit _ => true
  | .loopTake _ | .hEmit | .hPut | .hDone | .loopExit _ => true
  | .sendTake | .sendWrote | .sendFail _ | .sendCancel _ => true
  | .pingTick | .pingPut | .pingExit => true
  | _ => false

/-- some closer has passed the test-and-clear and is draining -/
def Draining (s : St) : Prop := ∃ t g, s.thr t = .xDrain g

end Go.Life
