import Goirc.Go.AList
import Goirc.Go.Bytes
/-!
# Model of the handler set (client/dispatch.go:43-158)

`hSet.set : map[string]*hList`, `hList{start,end}`, `hNode{next,prev,set,event,handler}` with
pointers as ids into a node heap, transcribed statement by statement, including "drop the list
when it empties".  `hn.set == nil` after removal is `live := false`.
-/
namespace Go.HSet

abbrev Id := Nat

structure Node where
  next : Option Id := none
  prev : Option Id := none
  live : Bool := true          -- hn.set != nil
  event : Bytes
  handler : Nat                -- identity of the wrapped Handler
deriving Repr

structure HL where             -- hList
  start : Option Id
  «end» : Option Id
deriving Repr

structure HS where
  nodes : List (Id × Node) := []
  set : List (Bytes × HL) := []
  fresh : Id := 0
deriving Repr

def getNode (hs : HS) (i : Id) : Node := (AL.lookup hs.nodes i).getD { event := [], handler := 0 }
def setNode (hs : HS) (i : Id) (n : Node) : HS := { hs with nodes := AL.insert hs.nodes i n }

/-- `hs.add(ev, h)`; returns the new node (the Remover) -/
def add (ext : Go.UnicodeExt) (hs : HS) (ev0 : Bytes) (h : Nat) : HS × Id :=
  let ev := Go.toLower ext ev0
  let hn := hs.fresh
  let hs1 := { setNode hs hn { event := ev, handler := h } with fresh := hn + 1 }
  match AL.lookup hs.set ev with
  | none => ({ hs1 with set := AL.insert hs1.set ev ⟨some hn, some hn⟩ }, hn)
  | some l =>
    -- hn.prev = l.end; l.end.next = hn; l.end = hn
    let hs2 := setNode hs1 hn { getNode hs1 hn with prev := l.end }
    let hs3 := match l.end with
      | some e => setNode hs2 e { getNode hs2 e with next := some hn }
      | none => hs2
    ({ hs3 with set := AL.insert hs3.set ev ⟨l.start, some hn⟩ }, hn)

/-- `hs.remove(hn)` -/
def remove (hs : HS) (hn : Id) : HS :=
  let n := getNode hs hn
  match AL.lookup hs.set n.event with
  | none => hs
  | some l =>
    let (l1, hs1) := match n.next with
      | none => (({ l with «end» := n.prev } : HL), hs)
      | some nx => (l, setNode hs nx { getNode hs nx with prev := n.prev })
    let (l2, hs2) := match n.prev with
      | none => (({ l1 with start := n.next } : HL), hs1)
      | some pv => (l1, setNode hs1 pv { getNode hs1 pv with next := n.next })
    let hs3 := setNode hs2 hn { getNode hs2 hn with next := none, prev := none, live := false }
    if l2.start.isNone || l2.«end».isNone then { hs3 with set := AL.erase hs3.set n.event }
    else { hs3 with set := AL.insert hs3.set n.event l2 }

def walkFwd (hs : HS) : Nat → Option Id → List Id
  | 0, _ => []
  | _, none => []
  | fuel + 1, some i => i :: walkFwd hs fuel (getNode hs i).next

def walkBwd (hs : HS) : Nat → Option Id → List Id
  | 0, _ => []
  | _, none => []
  | fuel + 1, some i => i :: walkBwd hs fuel (getNode hs i).prev

/-- `hs.getHandlers(ev)`: the snapshot taken under the read lock (`ev` already lower-cased) -/
def getHandlers (hs : HS) (ev : Bytes) : List Id :=
  match AL.lookup hs.set ev with
  | none => []
  | some l => walkFwd hs (hs.nodes.length + 1) l.start

/-- what `hs.dispatch(conn, line)` invokes: the handlers of the snapshot for `ToLower(line.Cmd)` -/
def dispatchList (ext : Go.UnicodeExt) (hs : HS) (cmd : Bytes) : List Nat :=
  (getHandlers hs (Go.toLower ext cmd)).map fun i => (getNode hs i).handler

end Go.HSet
