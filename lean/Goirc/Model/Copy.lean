import Goirc.Go.Bytes
import Goirc.Go.AList
/-!
# Heap model of `Line.Copy()` and of the copies `hSet.dispatch` hands out (C15)

A Go `Line` holds a slice `Args` (a reference to a backing array) and a map `Tags` (a reference, or
nil).  Strings are immutable values.  `Line.Copy()` (line.go:27-39) copies the struct, allocates a
new array of the same length and copies the elements, and - if `Tags != nil` - allocates a new map
and copies every entry.  `hSet.dispatch` (dispatch.go:147-158) calls `line.Copy()` once per handler
goroutine.
-/
namespace Go.Copy

abbrev Ref := Nat

inductive Obj
  | arr (elems : List Bytes)            -- backing array of a []string
  | map (entries : List (Bytes × Bytes))  -- a map[string]string
deriving Repr, DecidableEq

structure Heap where
  objs : List (Ref × Obj) := []
  next : Ref := 0
deriving Repr

/-- a Line value: scalar fields by value, Args and Tags by reference -/
structure LineV where
  scalars : List Bytes        -- Nick, Ident, Host, Src, Cmd, Raw
  args : Ref
  tags : Option Ref
deriving Repr, DecidableEq

def alloc (h : Heap) (o : Obj) : Heap × Ref := ({ objs := h.objs ++ [(h.next, o)], next := h.next + 1 }, h.next)

def read (h : Heap) (r : Ref) : Option Obj := AL.lookup h.objs r

/-- the references reachable from a line value -/
def refs (l : LineV) : List Ref := l.args :: l.tags.toList

/-- the line's references point to live objects of the right kind, below `next`, and are distinct -/
def WF (h : Heap) (l : LineV) : Prop :=
  (∃ es, read h l.args = some (.arr es)) ∧ l.args < h.next ∧
  (∀ t, l.tags = some t → (∃ m, read h t = some (.map m)) ∧ t < h.next ∧ t ≠ l.args) ∧
  ∀ r o, (r, o) ∈ h.objs → r < h.next

/-- what a handler can observe through a line value -/
def contents (h : Heap) (l : LineV) : List Bytes × Option Obj × Option Obj :=
  (l.scalars, read h l.args, l.tags.bind (read h))

/-- `Line.Copy()` -/
def copyLine (h : Heap) (l : LineV) : Heap × LineV :=
  let elems := match read h l.args with | some (.arr es) => es | _ => []
  let (h1, a) := alloc h (.arr elems)
  match l.tags with
  | none => (h1, { l with args := a })
  | some t =>
    let m := match read h t with | some (.map m) => m | _ => []
    let (h2, t') := alloc h1 (.map m)
    (h2, { l with args := a, tags := some t' })

/-- the loop of `hSet.dispatch`: one `line.Copy()` per handler -/
def dispatchCopies (h : Heap) (l : LineV) : Nat → Heap × List LineV
  | 0 => (h, [])
  | n + 1 =>
    let (h1, c) := copyLine h l
    let (h2, cs) := dispatchCopies h1 l n
    (h2, c :: cs)

/-- a mutation through a reference: overwrite the object it points to (set an element, append within
capacity, assign or delete a map entry - any new contents) -/
structure Write where
  ref : Ref
  val : Obj

def applyWrites (h : Heap) : List Write → Heap
  | [] => h
  | w :: ws => applyWrites { h with objs := AL.insert h.objs w.ref w.val } ws

end Go.Copy
