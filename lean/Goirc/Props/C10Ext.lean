import Goirc.Props.C10
import Goirc.Proofs.Extra1
/-!
# C10, continued: the executable window predicate the driver evaluates on observed transcripts follows from `window_bound`
-/
namespace Props.C10
open Go Go.Flood

/-- C10: the executable window predicate that the driver evaluates on observed (length, write time) pairs holds of
every valid run of the model from a fresh client - so a failure of `Spec.Flood.windowOk` on an implementation
transcript contradicts `window_bound` -/
theorem window_ok_of_valid (t0 : Int) (es : List Ev) (hv : Valid (fresh t0) t0 es) :
    Spec.Flood.windowOk (es.map fun e => (e.chars, e.w)) = true := by
  exact Go.Extra.windowOk_of_inv _ _ (inv_fresh t0) es hv

/-! ### "Flood toggled on and off" -/

/-- A run in which the application flips `cfg.Flood` between lines (`true` = written with Flood set): such a line is
neither charged nor delayed - `rateLimit` is not called, the state is untouched - and is written no earlier than the line
before it; a protected line is as in `Valid`. -/
def ValidT : St → Int → List (Bool × Ev) → Prop
  | _, _, [] => True
  | s, pw, (true, e) :: es => pw ≤ e.w ∧ ValidT s e.w es
  | s, pw, (false, e) :: es => pw ≤ e.t ∧ e.t ≤ e.l ∧ e.l + delay s e ≤ e.w ∧ ValidT (next s e) e.w es

/-- the lines written with protection on, in order -/
def protectedOf (es : List (Bool × Ev)) : List Ev := (es.filter fun p => !p.1).map (·.2)

theorem valid_mono_pw (s : St) (pw pw' : Int) (es : List Ev) (h : pw' ≤ pw) (hv : Valid s pw es) : Valid s pw' es := by
  cases es with
  | nil => trivial
  | cons e es => exact ⟨Int.le_trans h hv.1, hv.2⟩

/-- C10, the toggling clause: whatever the application does with the switch, the protected lines alone form a valid run
of the rate limiter - the unprotected lines in between change nothing but the clock. So every theorem about valid runs
(the penalty invariant, `window_bound`, `window_ok_of_valid`) holds of the protected subsequence of every toggled run. -/
theorem toggled_protected_valid (s : St) (pw : Int) (es : List (Bool × Ev)) (hv : ValidT s pw es) :
    Valid s pw (protectedOf es) := by
  induction es generalizing s pw with
  | nil => trivial
  | cons p es ih =>
    obtain ⟨f, e⟩ := p
    cases f with
    | true =>
      have h := ih s e.w hv.2
      simpa [protectedOf] using valid_mono_pw s e.w pw _ hv.1 h
    | false =>
      obtain ⟨h1, h2, h3, h4⟩ := hv
      have h := ih (next s e) e.w h4
      simpa [protectedOf, Valid] using And.intro h1 (And.intro h2 (And.intro h3 h))

/-- the window predicate the driver evaluates holds of the protected lines of every toggled run of a fresh client -/
theorem window_ok_toggled (t0 : Int) (es : List (Bool × Ev)) (hv : ValidT (fresh t0) t0 es) :
    Spec.Flood.windowOk ((protectedOf es).map fun e => (e.chars, e.w)) = true :=
  window_ok_of_valid t0 _ (toggled_protected_valid _ _ _ hv)

/-- and a line written with Flood set is never held back -/
theorem toggled_unprotected_not_delayed (s : St) (e : Ev) : (writeStep true s e).2 = 0 := rfl

/-! ### "exactly when": no over-throttling after silence -/


/-- **no over-throttling** ("held back EXACTLY when the penalty exceeds 10 s", "decays in real time"): in any state
reachable from a fresh client, once the client has been silent for 10 s since its last write the penalty has decayed to
nothing - whatever it was, the invariant bounds it by 10 s plus the time already served - and the next lines, as long as
their charges sum to at most 10 s, all go out without a hold -/
theorem quiet_after_idle (s : St) (pw : Int) (hI : Inv s pw) (es : List Ev) (hv : Valid s pw es)
    (hidle : ∀ e ∈ es.head?, pw + 10 * second ≤ e.t) (hsum : totalCharge es ≤ 10 * second) : NoHold s es := by
  cases es with
  | nil => trivial
  | cons e es =>
    obtain ⟨hb, hl, hs⟩ := hI
    obtain ⟨h1, h2, h3, h4⟩ := hv
    have hi := hidle e (by simp)
    have hc := charge_nonneg e.chars
    have hT : totalCharge (e :: es) = charge e.chars + totalCharge es := by simp [totalCharge]
    -- after the idle gap the first line's penalty is just its own charge
    have hn : (next s e).badness ≤ charge e.chars := by
      simp only [next, rate_fst]; split <;> omega
    have hrest := totalCharge_nonneg es
    have hd : delay s e = 0 := by
      unfold delay; rw [rate_snd, rate_fst]
      have : ¬ ((if s.badness + (charge e.chars - (e.t - s.lastsent)) < 0 then 0
                else s.badness + (charge e.chars - (e.t - s.lastsent))) > 10 * second) := by
        split <;> omega
      simp [this]
    exact ⟨hd, noHold_of_budget (next s e) e.w es (by simp only [next]; omega) h4 (charge e.chars) hc hn (by omega)⟩

/-- non-vacuity: four 20-byte lines (charge 2.17 s each) after 16 s of silence meet the premises -/
example : totalCharge [⟨20, 0, 0, 0⟩, ⟨20, 0, 0, 0⟩, ⟨20, 0, 0, 0⟩, ⟨20, 0, 0, 0⟩] ≤ 10 * second := by decide

end Props.C10
