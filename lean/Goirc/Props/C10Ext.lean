import Goirc.Props.C10
import Goirc.Proofs.Extra1
/-!
# C10, continued: the executable window predicate the driver evaluates on observed transcripts follows from `window_bound`
-/
namespace Props.C10
open Go Go.Flood

/-- C10: the executable window predicate that the driver evaluates on observed (length, write time) pairs holds of
every valid run of the model from a fresh client - so a failure of `Spec.Flood.windowOk` on an implementation
transcript contradicts `window_bound` -/
theorem window_ok_of_valid (t0 : Int) (es : List Ev) (hv : Valid (fresh t0) t0 es) :
    Spec.Flood.windowOk (es.map fun e => (e.chars, e.w)) = true := by
  exact Go.Extra.windowOk_of_inv _ _ (inv_fresh t0) es hv

end Props.C10
