import Goirc.Spec.HSet
import Goirc.Props.C14
import Goirc.Proofs.C04
/-!
# C04 — Every registered handler runs exactly once per matching event

> For any history of handler registrations (foreground and background) and removals, including
> ones made from inside running handlers, each incoming event invokes, once each and with names
> compared case-insensitively, exactly the foreground handlers registered under its name when it
> is dispatched and exactly the background handlers registered when its background dispatch
> begins; it never invokes a handler removed before that, nor one registered under a different
> name. Registering or removing handlers from within a handler neither deadlocks nor disturbs
> the other handlers of that event.

This file: the handler *set* (one `hSet`; the client has three of them) refines "name ↦ list of
handlers in registration order" for every history of add/remove in which each Remover is used at
most once.  The k-th Remover handed out is node id k.  That each snapshot element is invoked
exactly once, without the lock held, is `hSet.dispatch`'s fork/join (Props.C03 / the pinned body).
-/
namespace Props.C04
open Go.HSet Spec.HSet

/-- run a history on the model -/
def runM (ext : Go.UnicodeExt) : HS → List Op → HS
  | hs, [] => hs
  | hs, .add ev h :: ops => runM ext (add ext hs ev h).1 ops
  | hs, .remove k :: ops => runM ext (remove hs k) ops

/-- run it on the Spec; `n` = number of Removers handed out so far (the next id) -/
def runS (ext : Go.UnicodeExt) : S → Nat → List Op → S
  | s, _, [] => s
  | s, n, .add ev h :: ops => runS ext (Spec.HSet.add ext s ev n h) (n + 1) ops
  | s, n, .remove k :: ops => runS ext (Spec.HSet.remove s k) n ops

/-- each Remover is one that was handed out, and is used at most once -/
def Valid : Nat → List Nat → List Op → Prop
  | _, _, [] => True
  | n, used, .add _ _ :: ops => Valid (n + 1) used ops
  | n, used, .remove k :: ops => k < n ∧ k ∉ used ∧ Valid n (k :: used) ops

/-- the refinement invariant (`Go.HSet.Inv`, Proofs/C04) holds along every valid history -/
theorem run_inv (ext : Go.UnicodeExt) (ops : List Op) : ∀ (hs : HS) (s : S) (n : Nat) (used : List Nat),
    Inv hs s n used → Valid n used ops → ∃ n' used', Inv (runM ext hs ops) (runS ext s n ops) n' used' := by
  induction ops with
  | nil => intro hs s n used I _; exact ⟨n, used, I⟩
  | cons op ops ih =>
    intro hs s n used I hv
    cases op with
    | add ev h => exact ih _ _ _ _ (I.add ext ev h) hv
    | remove k => exact ih _ _ _ _ (I.remove k hv.1 hv.2.1) hv.2.2

/-- **refinement**: after any valid history, for every name the snapshot `getHandlers` takes is exactly the
Spec's list for that name (same nodes, registration order), the backward links give its reverse, and the
map holds no empty list -/
theorem hset_refines (ext : Go.UnicodeExt) (ops : List Op) (hv : Valid 0 [] ops) (name : Bytes) :
    let hs := runM ext {} ops
    let s := runS ext [] 0 ops
    getHandlers hs name = ((AL.lookup s name).getD []).map (·.1) ∧
    (match AL.lookup hs.set name with
     | some l => walkBwd hs (hs.nodes.length + 1) l.«end» = (((AL.lookup s name).getD []).map (·.1)).reverse ∧ l.start.isSome ∧ l.«end».isSome
     | none => (AL.lookup s name).getD [] = []) := by
  obtain ⟨n', used', I⟩ := run_inv ext ops {} [] 0 [] Inv.init hv
  exact ⟨I.getHandlers_eq name, I.links name⟩

/-- what an event invokes is exactly the Spec's handlers for its lower-cased name, once each, in order -/
theorem dispatch_exactly (ext : Go.UnicodeExt) (ops : List Op) (hv : Valid 0 [] ops) (cmd : Bytes) :
    dispatchList ext (runM ext {} ops) cmd = handlersFor ext (runS ext [] 0 ops) cmd := by
  obtain ⟨n', used', I⟩ := run_inv ext ops {} [] 0 [] Inv.init hv
  exact I.dispatchList_eq ext cmd

/-- names are compared case-insensitively on both sides: two event names with the same lower-case form
invoke the same handlers -/
theorem case_insensitive (ext : Go.UnicodeExt) (hs : HS) (a b : Bytes) (h : Go.toLower ext a = Go.toLower ext b) :
    dispatchList ext hs a = dispatchList ext hs b := by
  unfold dispatchList; rw [h]

/-- a removed handler is never invoked again, and removing one handler does not disturb the others of any
event: the Spec list only loses that node.

The hypothesis `hk` (each name occurs once in the Spec map) was missing from the first statement, which is
false without it: for `s = [("a", [(0,7)]), ("a", [(1,8)])]`, `k = 0`, the left side is `[(1,8)]` (the first,
emptied entry is dropped and the shadowed second one becomes visible) and the right side is `[]`.  Every
Spec state reachable by `runS` satisfies `hk` (`reachable_keys_nodup`, `remove_only_that_reachable`). -/
theorem remove_only_that (s : S) (hk : (AL.keys s).Nodup) (k : Id) (name : Bytes) :
    ((AL.lookup (Spec.HSet.remove s k) name).getD []) = ((AL.lookup s name).getD []).filter (·.1 != k) :=
  lookup_remove_getD s hk k name

/-- the side condition of `remove_only_that` holds in every Spec state reached by any history (valid or not) -/
theorem reachable_keys_nodup (ext : Go.UnicodeExt) (ops : List Op) : ∀ (s : S) (n : Nat),
    (AL.keys s).Nodup → (AL.keys (runS ext s n ops)).Nodup := by
  induction ops with
  | nil => intro s n h; exact h
  | cons op ops ih =>
    intro s n h
    cases op with
    | add ev hd => exact ih _ _ (AL.nodup_insert h _ _)
    | remove k => exact ih _ _ (keys_remove_nodup s h k)

/-- `remove_only_that` as first stated, for the Spec states that occur -/
theorem remove_only_that_reachable (ext : Go.UnicodeExt) (ops : List Op) (k : Id) (name : Bytes) :
    ((AL.lookup (Spec.HSet.remove (runS ext [] 0 ops) k) name).getD []) =
      ((AL.lookup (runS ext [] 0 ops) name).getD []).filter (·.1 != k) :=
  remove_only_that _ (reachable_keys_nodup ext ops [] 0 (by simp)) k name

/-- operations on a handler set as calls guarded by its lock (`add`/`remove` take `hs.Lock()`, `getHandlers`
takes `hs.RLock()`; treating the read lock as exclusive is sound for this statement because snapshots do not write) -/
inductive LOp
  | add (ev : Bytes) (h : Nat)
  | remove (k : Nat)
  | get (ev : Bytes)

def lstep (ext : Go.UnicodeExt) (hs : HS) : LOp → HS × List Id
  | .add ev h => ((add ext hs ev h).1, [(add ext hs ev h).2])
  | .remove k => (remove hs k, [])
  | .get ev => (hs, getHandlers hs ev)

/-- registrations / removals racing with dispatch from other goroutines: whatever the interleaving, the set is
always what executing the calls one at a time in lock order produces, and every snapshot a dispatch takes is the
one that serial execution gives (instance of `Props.C14.locked_ops_atomic`) -/
theorem hset_serialised (ext : Go.UnicodeExt) {s : Go.Locked.St HS LOp (List Id)}
    (h : Go.Locked.Reach (lstep ext) {} s) :
    Go.Locked.seqRun (lstep ext) {} (s.hist.map (·.2.1)) = (s.obj, s.hist.map (·.2.2)) :=
  Props.C14.locked_ops_atomic (lstep ext) {} h

end Props.C04
