import Goirc.Spec.Tracker
import Goirc.Proofs.TrackerSim
/-!
# C12 — The state tracker behaves as a relational model of nicks and channels

> For every sequence of tracker operations, every query result and every returned snapshot equals
> that of a plain model - a set of nicks and a set of channels with their attributes, plus a
> membership relation carrying per-channel privileges - in which a rename carries the nick's
> memberships and privileges along, removing the client itself from a channel or deleting a
> channel forgets the channel and every other nick that is left sharing no channel, deleting a
> nick removes all its memberships, the client's own nick can never be deleted, and Wipe forgets
> every channel.

`Go.Tracker.step` is the heap-faithful model (ids, two-way maps, shared privilege cells);
`Spec.Tracker.step` is the plain relational model.  Queries are operations too, so quantifying
over all operation sequences covers "every query result ... after any history".
Snapshots carry Go maps; they are compared as finite maps (`List.Perm` of the entry lists).
-/
/-- pointwise relatedness of two lists (the standard definition; core Lean does not ship it) -/
inductive List.Forall₂ {α β : Type _} (R : α → β → Prop) : List α → List β → Prop
  | nil : List.Forall₂ R [] []
  | cons {a b l₁ l₂} : R a b → List.Forall₂ R l₁ l₂ → List.Forall₂ R (a :: l₁) (b :: l₂)

namespace Props.C12
open Go.Tracker

def NickSnapEq (a b : NickSnap) : Prop :=
  a.nick = b.nick ∧ a.ident = b.ident ∧ a.host = b.host ∧ a.name = b.name ∧ a.modes = b.modes ∧
  List.Perm a.channels b.channels

def ChanSnapEq (a b : ChanSnap) : Prop :=
  a.name = b.name ∧ a.topic = b.topic ∧ a.modes = b.modes ∧ List.Perm a.nicks b.nicks

/-- equality of return values, maps compared as finite maps -/
def RetEq : Ret → Ret → Prop
  | .nick none, .nick none => True
  | .nick (some a), .nick (some b) => NickSnapEq a b
  | .chan none, .chan none => True
  | .chan (some a), .chan (some b) => ChanSnapEq a b
  | .privs p ok, .privs q ok' => p = q ∧ ok = ok'
  | .assoc p, .assoc q => p = q
  | .unit, .unit => True
  | _, _ => False

def runM : St → List Op → List Ret
  | _, [] => []
  | s, o :: os => (step s o).2 :: runM (step s o).1 os

def runS : Spec.Tracker.S → List Op → List Ret
  | _, [] => []
  | s, o :: os => (Spec.Tracker.step s o).2 :: runS (Spec.Tracker.step s o).1 os

theorem retEq_of_retSim {a b : Ret} (h : Spec.Tracker.RetSim a b) : RetEq a b := by
  cases a <;> cases b <;>
    first
    | exact h
    | (rename_i x y; cases x <;> cases y <;> exact h)

theorem refines_of_R (ops : List Op) : ∀ (st : St) (S : Spec.Tracker.S), Spec.Tracker.R st S →
    List.Forall₂ RetEq (runM st ops) (runS S ops) := by
  induction ops with
  | nil => intro st S _; exact .nil
  | cons o os ih =>
    intro st S r
    have h := Spec.Tracker.step_sim r o
    exact .cons (retEq_of_retSim h.2) (ih _ _ h.1)

/-- **C12.** For every operation sequence, every return value of the heap-faithful tracker model
equals that of the relational spec (snapshot maps compared as finite maps). -/
theorem tracker_refines (me : Bytes) (ops : List Op) :
    List.Forall₂ RetEq (runM (Go.Tracker.new me) ops) (runS (Spec.Tracker.new me) ops) :=
  refines_of_R ops _ _ (Spec.Tracker.R_new me)

end Props.C12
