import Goirc.Spec.NickScript
import Goirc.Proofs.C17
/-!
# C17 — The client always knows its own current nick

> After any sequence of nick collisions during registration (433 before the welcome), the welcome
> line, and confirmed, refused and server-forced nick changes afterwards, Me() reports the nick the
> server currently uses for the client, with and without state tracking; Me() and Config().Me are
> never nil. A collision is always answered by requesting the nick the configured generator
> derives from the refused one, and the default generator always yields a different nick of the
> same length that differs only in its last character.
-/
namespace Props.C17
open Go Go.Client Spec.NickScript

/-- the default generator: for every non-empty nick, a different nick of the same length that
differs only in its last byte -/
theorem default_gen (old : Bytes) (h : old ≠ []) :
    (defaultNewNick old).length = old.length ∧ defaultNewNick old ≠ old ∧
    (defaultNewNick old).dropLast = old.dropLast :=
  default_gen_spec old h

/-- run a script: the Spec server produces each line, the client model handles it -/
def run (gen : Bytes → Bytes) : Srv → Client → List Ev → Srv × Client
  | s, c, [] => (s, c)
  | s, c, e :: es =>
    match parseLine c.ext (lineOf s e) with
    | some l => run gen (step gen s e) (dispatchInternal c l).c es
    | none => run gen (step gen s e) c es

def Conforming (gen : Bytes → Bytes) : Srv → List Ev → Prop
  | _, [] => True
  | s, e :: es => conforms s e = true ∧ Conforming gen (step gen s e) es

/-- names in the script are sane nick names: non-empty, no white space, no '!' '@' ':' , ASCII -/
def nickName (n : Bytes) : Prop := n ≠ [] ∧ ∀ b ∈ n, 33 < b ∧ b < 127 ∧ b ≠ 58 ∧ b ≠ 64

def evNames : Ev → List Bytes
  | .s433 r => [r] | .s001 n _ => [n] | .sNick n => [n] | .sOther f t => [f, t]

/-- the client starts knowing the nick it asks for; tracking on or off -/
def startClient (nick : Bytes) (gen : Bytes → Bytes) (ext : UnicodeExt) (track : Bool) : Client :=
  let c : Client := { cfg := { meNick := nick, meIdent := lit "id", meName := lit "n" }, newNick := gen, ext := ext }
  if track then enableTracking c else c

/-- **C17**: after any conforming script, Me() reports the nick the server uses (pending nick before
the welcome), and Config().Me is not nil — with and without state tracking, for any generator that
produces sane names -/
theorem me_tracks_server (gen : Bytes → Bytes) (ext : UnicodeExt) (track : Bool) (nick : Bytes) (evs : List Ev)
    (hn : nickName nick) (hg : ∀ n, nickName n → nickName (gen n))
    (hnames : ∀ e ∈ evs, ∀ n ∈ evNames e, nickName n)
    (hc : Conforming gen { nick := nick } evs) :
    let r := run gen { nick := nick } (startClient nick gen ext track) evs
    (refreshMe r.2).cfg.meNick = r.1.nick ∧ r.2.cfg.meNil = false := by
  have key : ∀ (evs : List Ev) (s : Srv) (c : Client), CInv gen ext s.nick c → NickOk s.nick →
      (∀ e ∈ evs, ∀ n ∈ Go.Client.evNames e, NickOk n) → Conforming gen s evs →
      CInv gen ext (run gen s c evs).1.nick (run gen s c evs).2 := by
    intro evs
    induction evs with
    | nil => intro s c h _ _ _; exact h
    | cons e es ih =>
      intro s c h hs hnm hcf
      obtain ⟨l, hl, hinv, hnk⟩ := step_inv gen ext s c e h hs (hnm e (by simp)) hg hcf.1
      have hext : c.ext = ext := h.2.2.1
      simp only [run, hext, hl]
      exact ih _ _ hinv hnk (fun e' he' => hnm e' (by simp [he'])) hcf.2
  have hnames' : ∀ e ∈ evs, ∀ n ∈ Go.Client.evNames e, NickOk n := by
    intro e he n hn'
    refine hnames e he n ?_
    cases e <;> exact hn'
  have := key evs { nick := nick } (startClient nick gen ext track)
    (start_inv nick gen ext track (lit "id") (lit "n")) hn hnames' hc
  exact ⟨this.me, this.1⟩

/-- a collision is always answered by requesting the generator's nick for the refused one -/
theorem collision_reply (c : Client) (l : Line) (refused : Bytes) (h : l.args[1]? = some refused)
    (hme : (refreshMe c).cfg.meNil = false) (hclean : CR ∉ c.newNick refused ∧ LF ∉ c.newNick refused) :
    (h_433 c l).out = [lit "NICK " ++ c.newNick refused] :=
  collision_reply_spec c l refused h hme hclean

end Props.C17
