import Goirc.Model.Life
import Goirc.Proofs.C06
/-!
# C06 — Lifecycle events fire exactly once and agree with Connected()

> Each successful Connect dispatches REGISTER exactly once before it returns, and each
> established connection ends with exactly one DISCONNECTED - whichever of Close, server EOF, a
> read or write error or context cancellation ends it, and however many of them coincide;
> Connected() is false whenever DISCONNECTED handlers run, and true whenever REGISTER or
> CONNECTED handlers run while no disconnect has begun. A Connect that fails or is refused (no
> server configured, dial error, already connected) fires no event and leaves an existing
> connection fully working, and Close on a client that is not connected does nothing.

Quantifier: every reachable state of the Life LTS = any number of API threads calling Connect and
Close at any time, every moment EOF / read error / write error / cancellation can strike, every
coincidence of causes, with and without the ping goroutine, any number of reconnects.
Reading: "Connected() is false whenever DISCONNECTED handlers run" holds until a later Connect has
succeeded (C07 lets the DISCONNECTED handler itself reconnect): a `true` sample implies a newer generation.
"Exactly once" = at most once here (safety) + eventually once (`Props.C07`: teardown terminates).
-/
namespace Props.C06
open Go.Life Proofs.C06

def countP (p : Ev → Bool) (l : List Ev) : Nat := (l.filter p).length

/-- REGISTER is dispatched at most once per established connection, and only for connections that exist -/
theorem register_at_most_once {s : St} (h : Reach s) (g : Gen) :
    countP (fun e => match e with | .register g' _ => g' = g | _ => false) s.log ≤ 1 ∧
    (∀ f, Ev.register g f ∈ s.log → 1 ≤ g ∧ g ≤ s.cur) := by
  have hi := invS_reach h
  refine ⟨?_, fun f hf => hi.regLe g f hf⟩
  have e : (fun e => match e with | .register g' _ => decide (g' = g) | _ => false) = isReg g := by
    funext e; cases e <;> rfl
  exact e ▸ hi.regCnt g

/-- a successful Connect returns only after its REGISTER has been dispatched, and every generation returns at most once -/
theorem register_before_return {s : St} (h : Reach s) (g : Gen) (hg : Ev.connectOk g ∈ s.log) :
    (∃ f, Ev.register g f ∈ s.log) ∧ countP (fun e => e = .connectOk g) s.log = 1 := by
  have hi := invS_reach h
  refine ⟨hi.okReg g hg, ?_⟩
  have e : (fun e => decide (e = .connectOk g)) = isOk g := rfl
  have h1 : cnt (isOk g) s.log ≤ 1 := hi.okCnt g
  have h2 : 1 ≤ cnt (isOk g) s.log := cnt_pos_of_mem hg (by simp [isOk])
  show cnt _ s.log = 1
  rw [e]; omega

/-- every generation that exists gets its REGISTER, or the connecting thread is just about to dispatch it -/
theorem register_exactly_once {s : St} (h : Reach s) (g : Gen) (h1 : 1 ≤ g) (h2 : g ≤ s.cur) :
    (∃ f, Ev.register g f ∈ s.log) ∨ (∃ t, s.thr t = .cRegister g) := by
  exact (invS_reach h).regAll g h1 h2

/-- DISCONNECTED is dispatched at most once per connection, whatever ends it and however many causes coincide -/
theorem disconnected_at_most_once {s : St} (h : Reach s) (g : Gen) :
    countP (fun e => match e with | .disconnected g' _ _ => g' = g | _ => false) s.log ≤ 1 := by
  have hi := invS_reach h
  have e : (fun e => match e with | .disconnected g' _ _ => decide (g' = g) | _ => false) = isDisc g := by
    funext e; cases e <;> rfl
  exact e ▸ hi.discCnt g

/-- a DISCONNECTED handler that samples Connected() = true does so only because a later Connect has already succeeded -/
theorem disconnected_flag {s : St} (h : Reach s) (g c : Gen) (f : Bool) (hd : Ev.disconnected g f c ∈ s.log) :
    g ≤ c ∧ (f = true → g < c) := by
  have := (invS_reach h).discFlag g f c hd
  exact ⟨this.2.1, this.2.2⟩

/-- REGISTER handlers see Connected() = true unless a disconnect of that connection has begun -/
theorem register_flag {s : St} (h : Reach s) (g : Gen) (hr : Ev.register g false ∈ s.log) : Ev.tested g ∈ s.log := by
  exact (invS_reach h).regFlag g hr

/-- a Connect that fails or is refused fires no event and touches nothing but the mutex and its own thread -/
theorem failed_connect_is_noop (s s' : St) (t : Tid) (hs : step s (.cRefuse t) = some s') :
    s'.connected = s.connected ∧ s'.cur = s.cur ∧ s'.g.wg = s.g.wg ∧ s'.g.inQ = s.g.inQ ∧ s'.g.outQ = s.g.outQ ∧
    s'.g.recv = s.g.recv ∧ s'.g.send = s.g.send ∧ s'.g.loop = s.g.loop ∧ s'.g.ping = s.g.ping ∧
    s'.g.sockClosed = s.g.sockClosed ∧ s'.g.cancelled = s.g.cancelled ∧ s'.log = s.log ++ [.connectErr] := by
  simp only [step] at hs
  split at hs <;> simp at hs
  subst hs; simp

/-- while connected, Connect can only be refused -/
theorem connect_while_connected_refused (s : St) (t : Tid) (ping : Option Nat) (hc : s.connected = true) :
    step s (.cSucceed t ping) = none := by
  simp [step, hc]

/-- Close on a client that is not connected does nothing (and a straggler of an older connection does nothing either) -/
theorem close_when_closed_is_noop (s s' : St) (t : Tid) (tg : Option Gen) (ht : s.thr t = .xLocked tg)
    (hc : s.connected = false ∨ (∃ g', tg = some g' ∧ g' ≠ s.cur)) (hs : step s (.xTest t) = some s') :
    s'.connected = s.connected ∧ s'.cur = s.cur ∧ s'.g.wg = s.g.wg ∧ s'.g.sockClosed = s.g.sockClosed ∧
    s'.g.cancelled = s.g.cancelled ∧ s'.log = s.log ++ [.closeNoop tg] := by
  simp only [step, ht] at hs
  rw [if_pos hc] at hs
  simp at hs; subst hs; simp

/-- mutual exclusion and the meaning of `connected`: the holder of `mu` is the unique thread in a locked phase;
while `connected` nobody is draining; at most one closer is ever past the test-and-clear of a generation -/
theorem lock_discipline {s : St} (h : Reach s) :
    (∀ t, s.mu = some t ↔ (s.thr t = .cLocked ∨ (∃ tg, s.thr t = .xLocked tg) ∨ (∃ g, s.thr t = .xDrain g))) ∧
    (s.connected = true → ∀ t g, s.thr t ≠ .xDrain g) ∧
    (∀ t u g g', s.thr t = .xDrain g → s.thr u = .xDrain g' → t = u) := by
  have hi := invS_reach h
  refine ⟨hi.holder, ?_, ?_⟩
  · intro hc t g ht
    have := (hi.drainCur t g ht).2
    simp [hc] at this
  · intro t u g g' ht hu
    have h1 := (hi.holder t).mpr (Or.inr (Or.inr ⟨g, ht⟩))
    have h2 := (hi.holder u).mpr (Or.inr (Or.inr ⟨g', hu⟩))
    rw [h1] at h2; exact Option.some.inj h2

end Props.C06
