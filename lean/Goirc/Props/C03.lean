import Goirc.Spec.Dispatch
import Goirc.Proofs.C03
/-!
# C03 — Foreground handlers see server events one at a time, in wire order
# C05 — State tracking is applied before user handlers observe a line
# C16 — A misbehaving handler cannot stop event delivery

> C03: Lines received from the server are delivered to foreground handlers in exactly the order they
> arrived, and all foreground handlers for one line have finished before any handler for the next
> line starts, however the byte stream is segmented into reads and however long handlers take.
> CONNECTED is delivered after the welcome (001) line has been applied and before any later line;
> DISCONNECTED is delivered only after every foreground handler invocation for that connection's
> lines has finished.
>
> C05: With state tracking enabled, whenever a user handler (foreground or background) runs for a
> server line, the tracker already reflects that line; and while a foreground handler runs, the
> tracker does not yet reflect any later line.
>
> C16: If a handler panics, the panic is handed to the configured recovery function (by default it
> is logged) and the other handlers for that event and all later events are still delivered; if a
> background handler never returns, foreground delivery of later events is not delayed.

Quantifier: every reachable state of the Dispatch LTS = every line sequence, every size of every
handler snapshot, every interleaving of recv, runLoop, handler goroutines and a Close that may
begin at any moment, handlers that take arbitrarily long, panic (recovered = `hLeave`/`intLeave`)
or, for background handlers, never return.
-/
namespace Props.C03
open Go.Dispatch Spec.Dispatch

/-- **C03 + C05**: the observable history of every reachable state satisfies the delivery Spec: foreground
events in wire order and one line at a time, CONNECTED nested after the welcome is applied and before the
welcome line's own foreground handlers and any later line, nothing after DISCONNECTED, and every foreground
handler of line k sees exactly lines 0..k applied (background handlers: at least those) -/
theorem delivery_ok {s : St} (h : Reach s) : Spec.Dispatch.ok s.log = true :=
  Proofs.C03.delivery_ok h

/-- **exactly once** (also C04, C16 "siblings and later events are still delivered"): between the ghost events
`fgStart k n` and `fgDone k`, each of the n snapshot handlers entered exactly once and left exactly once,
whether it returned or panicked; and a handler event for (k, h) never occurs outside such a bracket -/
theorem fg_exactly_once {s : St} (h : Reach s) (k n : Nat)
    (hd : Obs.fgStart k n ∈ s.log) (hdone : Obs.fgDone k ∈ s.log) (i : Nat) (hi : i < n) :
    (s.log.filter fun o => match o with | .fgEnter k' h' _ => k' = k ∧ h' = i | _ => false).length = 1 ∧
    (s.log.filter fun o => match o with | .fgExit k' h' _ => k' = k ∧ h' = i | _ => false).length = 1 := by
  have inv := Proofs.C03.inv2_reach h
  apply inv.complete k ?_ n hd i hi
  intro ⟨hp, hst⟩
  have := inv.cur k hp
  simp only [hst, if_true] at this
  obtain ⟨_, _, _, h3, _⟩ := this
  exact h3 hdone

theorem fg_only_snapshot {s : St} (h : Reach s) (k i a : Nat) (he : Obs.fgEnter k i a ∈ s.log) :
    ∃ n, Obs.fgStart k n ∈ s.log ∧ i < n :=
  (Proofs.C03.inv2_reach h).snap k i a he

/-- the loop is never stuck because of handlers that *returned*: once every outstanding handler of the
current snapshot has left, the join is enabled (no lost wake-up in the model's fork/join) -/
theorem join_enabled (s : St) (k : Nat) (hp : s.phase = .fg k) (hs : s.hs = []) (hst : s.fgStarted = true) :
    (step s .fgJoin).isSome := by
  simp [step, hp, hs, hst]

/-- erase the background records -/
def noBg (s : St) : St := { s with bg := [] }

/-- **C16, background non-interference**: no step of recv, runLoop, the internal / foreground / CONNECTED
handlers or Close looks at the background records — whatever background handlers exist, are running or are
stuck for ever, every other label is enabled in exactly the same states and has the same effect -/
theorem bg_noninterference (s : St) (bg' : List (Nat × Nat × HState)) (l : Label)
    (hl : match l with | .bgEnter _ _ => False | .bgLeave _ _ => False | .spawnBg _ => False | _ => True) :
    (step { s with bg := bg' } l).map noBg = (step s l).map noBg := by
  cases l <;> first | exact False.elim hl | (simp only [step]; (repeat' split) <;> simp_all [noBg])

/-- forget the handlers of other goroutines' dispatches -/
def noOther (s : St) : St := { s with other := 0 }

/-- **dispatches by other goroutines do not interfere**: REGISTER is dispatched by the caller of `Connect` while the event
loop is already at work, on the very same handler sets. However many handlers of such dispatches are running, every step
of recv, runLoop, its handlers and Close is enabled in exactly the same states and has the same effect: each dispatch
joins the handlers it started itself and no others - so "all handlers of one line have finished before those of the next
begin" and "the tracker reflects exactly the lines up to this one" (`delivery_ok`, `fg_sees_exactly_its_line`) hold
whatever else is being dispatched meanwhile -/
theorem other_dispatches_do_not_interfere (s : St) (n : Nat) (l : Label)
    (hl : match l with | .otherSpawn _ => False | .otherLeave => False | _ => True) :
    (step { s with other := n } l).map noOther = (step s l).map noOther := by
  cases l <;> first | exact False.elim hl | (simp only [step]; (repeat' split) <;> simp_all [noOther])

end Props.C03
