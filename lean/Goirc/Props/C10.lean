import Goirc.Proofs.Flood
import Goirc.Spec.Flood
/-!
# C10 — Flood protection follows Hybrid's penalty rule

> With flood protection on (the default) each outgoing line is charged 2 s plus 1/120 s per
> character against a penalty that decays in real time and never drops below zero, and a line is
> held back, for its own charge, before being written exactly when the penalty exceeds 10 s.
> Consequently, for any run of consecutive lines on the wire, their total charge never exceeds
> the wall-clock time between the first and last write by more than 10 s plus two lines' charges.
> With Flood set no line is ever delayed.

Quantifier: every sequence of line lengths and every assignment of clock readings that respects
monotonicity and "a sleep is not cut short" (`Valid`) — i.e. every idle gap and every scheduling
delay.  Reading of "two lines' charges": the charges of the first two lines of the run.
-/
namespace Props.C10
open Go.Flood

/-- the charge: 2 s plus 1/120 s per character (integer nanoseconds, as Go computes it) -/
theorem charge_def (chars : Nat) : charge chars = 2000000000 + (chars : Int) * 1000000000 / 120 := rfl

/-- penalty' = max 0 (penalty + charge − elapsed): decays in real time, floored at zero -/
theorem penalty_step (chars : Nat) (b e : Int) :
    (rate chars b e).1 = max 0 (b + charge chars - e) := by
  rw [rate_fst]; split <;> omega

theorem penalty_nonneg_step (chars : Nat) (b e : Int) : 0 ≤ (rate chars b e).1 := by
  rw [penalty_step]; omega

/-- held back, for its own charge, exactly when the (new) penalty exceeds 10 s -/
theorem held_iff (chars : Nat) (b e : Int) :
    (rate chars b e).2 = if (rate chars b e).1 > 10000000000 then charge chars else 0 := rfl

theorem held_nonzero_iff (chars : Nat) (b e : Int) :
    (rate chars b e).2 ≠ 0 ↔ (rate chars b e).1 > 10000000000 := by
  rw [held_iff]
  have := charge_nonneg chars
  have h2 : charge chars ≠ 0 := by
    unfold charge second
    have : (0:Int) ≤ (chars:Int) * 1000000000 / 120 := Int.ediv_nonneg (by omega) (by omega)
    omega
  split <;> simp_all

/-- in every state reachable from a fresh client the penalty is non-negative, and a penalty above
10 s is covered by time the last line was really held: penalty + lastsent ≤ 10 s + last write -/
theorem penalty_invariant (t0 : Int) (es : List Ev) (hv : Valid (fresh t0) t0 es) :
    0 ≤ (final (fresh t0) es).badness ∧
    (final (fresh t0) es).badness + (final (fresh t0) es).lastsent ≤ 10 * second + lastW t0 es := by
  have := inv_final _ _ es (inv_fresh t0) hv
  exact ⟨this.1, this.2.2⟩

/-- **window bound**, from any state satisfying the invariant: the total charge of the run
`e1 :: more` exceeds the wall-clock time between its first and last write by at most 10 s plus the
charges of its first two lines -/
theorem window_bound_from (s : St) (pw : Int) (hI : Inv s pw) (e1 : Ev) (more : List Ev)
    (hv : Valid s pw (e1 :: more)) :
    totalCharge (e1 :: more) ≤ (lastW e1.w more - e1.w) + 10 * second + charge e1.chars +
      headCharge more := by
  cases more with
  | nil => simp [totalCharge, lastW, second, headCharge]; omega
  | cons e2 rest =>
    obtain ⟨h1, h2, h3, h4, h5, h6, h7⟩ := hv
    have I1 := inv_next s pw e1 hI h1 h2 h3
    have I2 := inv_next _ _ e2 I1 h4 h5 h6
    have hacc := accumulate (next (next s e1) e2) e2.w rest I2.2.1 h7
    have If := inv_final _ _ rest I2 h7
    have hl2 : (next (next s e1) e2).lastsent = e2.l := rfl
    simp only [totalCharge, List.map_cons, List.sum_cons, lastW, headCharge] at hacc ⊢
    have := I2.1
    have := If.2.2
    omega

/-- **C10 window bound**: for any run of consecutive lines anywhere in the history of a fresh client
(`pre` before it, `post` after it) -/
theorem window_bound (t0 : Int) (pre post : List Ev) (e1 : Ev) (more : List Ev)
    (hv : Valid (fresh t0) t0 (pre ++ (e1 :: more) ++ post)) :
    totalCharge (e1 :: more) ≤ (lastW e1.w more - e1.w) + 10 * second + charge e1.chars +
      headCharge more := by
  rw [List.append_assoc, valid_append] at hv
  obtain ⟨hpre, hrest⟩ := hv
  rw [valid_append] at hrest
  exact window_bound_from _ _ (inv_final _ _ pre (inv_fresh t0) hpre) e1 more hrest.1

/-- with Flood set no line is ever delayed (and the penalty is not even touched) -/
theorem flood_never_delays (s : St) (e : Ev) : writeStep true s e = (s, 0) := rfl

/-- with protection on, `write` holds the line for exactly what `rateLimit` returned -/
theorem protected_delay (s : St) (e : Ev) : (writeStep false s e).2 = delay s e := rfl

/-- the model meets the executable per-call Spec that the driver evaluates on the implementation -/
theorem rate_meets_spec (chars : Nat) (b e : Int) (hb : 0 ≤ b) :
    Spec.Flood.okCall chars b e e (rate chars b e).2 (rate chars b e).1 = true := by
  have hc : charge chars = 2 * 1000000000 + (chars : Int) * 1000000000 / 120 := rfl
  unfold Spec.Flood.okCall
  simp only [← hc, rate_snd, rate_fst, second]
  by_cases h1 : b + (charge chars - e) < 0
  · simp [h1]; omega
  · simp only [h1, if_false]
    by_cases h2 : b + (charge chars - e) > 0
    · simp [h2]; omega
    · have : b + (charge chars - e) = 0 := by omega
      simp [this]; omega

/-- non-vacuity: a burst of six empty lines at one instant is a valid run in which the sixth is held -/
example : delay (final (fresh 0) (List.replicate 5 ⟨0, 0, 0, 0⟩)) ⟨0, 0, 0, 0⟩ = 2000000000 := by decide
example : Valid (fresh 0) 0 (List.replicate 5 ⟨0, 0, 0, 0⟩) := by
  simp [Valid, List.replicate, delay, next, fresh, rate, charge, second]

end Props.C10
