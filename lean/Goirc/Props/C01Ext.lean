import Goirc.Props.C01
import Goirc.Proofs.Extra1
/-!
# C01, continued: from the byte stream to the parsed lines (framing of `recv`, then `parse_render` per line)
-/
namespace Props.C01
open Go Spec.Irc

/-- C01, framing: whatever lines (free of CR and LF) the server sends, each followed by CRLF, `recv`'s framing hands
exactly those lines to the parser, in order -/
theorem frames_roundtrip (ls : List Bytes) (h : ∀ l ∈ ls, (13 : UInt8) ∉ l ∧ (10 : UInt8) ∉ l) :
    recvFrames (ls.flatMap fun l => l ++ [13, 10]) = ls := by
  exact Go.Extra.recvFrames_lines ls h

/-- C01, delivery: a stream of well-formed messages (whose rendering contains no CR / LF) is framed and parsed into
exactly the expected lines, in order -/
theorem stream_parses (ext : UnicodeExt) (ms : List Msg) (hwf : ∀ m ∈ ms, m.wf = true)
    (hclean : ∀ m ∈ ms, (13 : UInt8) ∉ render m ∧ (10 : UInt8) ∉ render m) :
    (recvFrames (ms.flatMap fun m => render m ++ [13, 10])).map (parseLine ext) = ms.map fun m => some (expected ext m) := by
  have hfm : (ms.flatMap fun m => render m ++ [13, 10]) = (ms.map render).flatMap fun l => l ++ [13, 10] := by
    rw [List.flatMap_map]
  rw [hfm, frames_roundtrip (ms.map render) (by
    intro l hl
    obtain ⟨m, hm, rfl⟩ := List.mem_map.1 hl
    exact hclean m hm)]
  rw [List.map_map]
  apply List.map_congr_left
  intro m hm
  exact Props.C01.parse_render ext m (hwf m hm)

end Props.C01
