import Goirc.Proofs.Line
import Goirc.Model.LineGo
import Goirc.Proofs.C02
/-!
# C02 — No input from the server can crash the client or stop it processing

> Whatever bytes the server sends, the client process does not panic and the connection keeps
> working: every received line is either rejected or dispatched, and lines that follow it are
> still processed in order. Text, Target and Public never panic on a line the parser produced.

The model of `ParseLine` and of the accessors is a total function with no panic outcome; that the
Go code agrees with it on every input tried — including *whether it panics* — is the
correspondence's job (a Go panic is both a disagreement and a Spec failure).
-/
namespace Props.C02
open Go Spec.Irc Go.LineGo

/-- every line is either rejected (`nil`) or yields a line whose accessors are all defined and
consistent — for every byte string and every behaviour of `ToUpper` on non-ASCII input -/
theorem rejected_or_accessible (ext : UnicodeExt) (s : Bytes) :
    parseLine ext s = none ∨
    ∃ l, parseLine ext s = some l ∧ accessorsOk l l.text l.public l.target = true := by
  cases h : parseLine ext s with
  | none => left; rfl
  | some l => right; exact ⟨l, rfl, Go.accessors_consistent l⟩

/-- the empty line, and a line consisting of a tag section or a source only, are rejected -/
theorem empty_rejected (ext : UnicodeExt) : parseLine ext [] = none := rfl

/-- **ParseLine never panics**: in the literal transcription - where every index and slice expression of the Go
source can fail - no byte string and no behaviour of ToUpper on non-ASCII input reaches a panic, and the result is
the readable model's -/
theorem parseLine_never_panics (ext : UnicodeExt) (s : Bytes) :
    parseLineGo ext s = .ok (parseLine ext s) :=
  parseLineGo_eq ext s

/-- **Text, Target and Public never panic** on any line at all (in particular on every line the parser produces),
and agree with the readable model -/
theorem accessors_never_panic (l : Line) :
    textGo l = .ok l.text ∧ publicGo l = .ok l.public ∧ targetGo l = .ok l.target :=
  ⟨textGo_eq l, publicGo_eq l, targetGo_eq l⟩

end Props.C02

