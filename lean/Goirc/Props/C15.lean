import Goirc.Model.Copy
import Goirc.Proofs.C15
/-!
# C15 — Each handler invocation gets its own copy of the line

> Every handler invocation receives a line equal to the parsed event but sharing no mutable
> storage (arguments, tags) with the line given to any other invocation, concurrent or later, so
> a handler that edits its line cannot change what any other handler observes.

`Go.Copy` is a heap model: a `Line` value holds a reference to the backing array of `Args` and,
when it has tags, a reference to the `Tags` map; `copyLine` is `Line.Copy()` (fresh array, fresh
map); `dispatchCopies` is the loop of `hSet.dispatch`, which evaluates `line.Copy()` once per
handler.  Writing through a reference is the only way to mutate shared storage.
-/
namespace Props.C15
open Go.Copy

/-- every copy holds the same contents as the dispatcher's line -/
theorem copies_equal (h : Heap) (l : LineV) (n : Nat) (hw : WF h l) :
    ∀ c ∈ (dispatchCopies h l n).2, contents (dispatchCopies h l n).1 c = contents h l :=
  (dispatchCopies_spec n h l hw).2.2.2.2.2

/-- the references handed to the n invocations are pairwise distinct, and none of them is a reference of the
dispatcher's own line: no two invocations (of this event, in any of the three handler sets, since each set's
dispatch makes its own copies from the same original) share mutable storage -/
theorem copies_disjoint (h : Heap) (l : LineV) (n : Nat) (hw : WF h l) :
    (((dispatchCopies h l n).2.flatMap refs)).Nodup ∧
    ∀ c ∈ (dispatchCopies h l n).2, ∀ r ∈ refs c, r ∉ refs l := by
  obtain ⟨_, _, _, hrefs, hnd, _⟩ := dispatchCopies_spec n h l hw
  refine ⟨hnd, fun c hc r hr hrl => ?_⟩
  have hge := (hrefs c hc r hr).1
  have hlt : r < h.next := by
    simp only [refs, List.mem_cons, Option.mem_toList] at hrl
    rcases hrl with e | e
    · rw [e]; exact hw.2.1
    · exact (hw.2.2.1 r (by simpa using e)).2.1
  exact Nat.lt_irrefl _ (Nat.lt_of_lt_of_le hlt hge)

/-- a handler that edits its line — any sequence of writes through the references of its own copy — cannot
change what any other invocation, or the dispatcher, observes -/
theorem scribble_invisible (h : Heap) (l : LineV) (n : Nat) (hw : WF h l) (i j : Nat) (hij : i ≠ j)
    (ci cj : LineV) (hi : (dispatchCopies h l n).2[i]? = some ci) (hj : (dispatchCopies h l n).2[j]? = some cj)
    (ws : List Write) (hws : ∀ w ∈ ws, w.ref ∈ refs ci) :
    contents (applyWrites (dispatchCopies h l n).1 ws) cj = contents (dispatchCopies h l n).1 cj ∧
    contents (applyWrites (dispatchCopies h l n).1 ws) l = contents (dispatchCopies h l n).1 l := by
  have hd := copies_disjoint h l n hw
  constructor
  · apply contents_applyWrites
    intro w hw'
    exact disjoint_of_nodup_flatMap refs _ hd.1 i j ci cj hij hi hj w.ref (hws w hw')
  · apply contents_applyWrites
    intro w hw'
    exact hd.2 ci (List.mem_of_getElem? hi) w.ref (hws w hw')

end Props.C15

