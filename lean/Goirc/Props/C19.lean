import Goirc.Spec.Caps
import Goirc.Proofs.C19
/-!
# C19 — Capability negotiation asks only for what both sides support and always ends

> The client requests exactly the capabilities that are both wanted (those configured, plus sasl
> when SASL is configured) and advertised by the server, reports a capability as held exactly when
> the server's latest acknowledgement for it enabled it, and ends negotiation with CAP END after a
> NAK, after an ACK that does not start SASL, on an empty intersection, and after every SASL
> outcome (success, failure, mechanism not supported). SASL data is sent only after the server has
> acknowledged sasl and asked for it, encoded as the mechanism prescribes.

Readings: one `CAP * LS` reply (the client's `supported` set is empty before it); capability names
are non-empty, contain no space and do not start with '-'.
-/
namespace Props.C19
open Go Go.Client Spec.Caps

def capName (n : Bytes) : Prop := n ≠ [] ∧ (32 : UInt8) ∉ n ∧ n.head? ≠ some 45 ∧ CR ∉ n ∧ LF ∉ n

/-- after `CAP * LS :advertised` a fresh client sends END on an empty intersection and otherwise REQ
lines naming exactly wanted ∩ advertised, once each (each line ≤ 450 bytes when every name is short) -/
theorem req_is_intersection (c : Client) (adv : List Bytes)
    (hfresh : c.supported = []) (hw : ∀ n ∈ c.cfg.caps, capName n) (ha : ∀ n ∈ adv, capName n)
    (hshort : ∀ n ∈ c.cfg.caps, n.length ≤ 200) :
    okAfterLS c.cfg.caps c.cfg.sasl.isSome adv (negotiate c adv).out = true := by
  have hp : plain c.cfg.caps := fun n hn => (hw n hn).2.2.1
  have hpa : plain adv := fun n hn => (ha n hn).2.2.1
  obtain ⟨hnd, hmem⟩ := req_keys c adv hp hpa
  rw [negotiate_out c adv hfresh]
  refine lsOut_ok _ _ _ _ hnd hmem ?_
  intro n hn
  have hn' := (List.mem_filter.1 ((hmem n).1 hn)).1
  simp only [wanted, List.mem_append] at hn'
  rcases hn' with hn' | hn'
  · split at hn'
    · simp only [List.mem_singleton] at hn'; subst hn'
      exact ⟨by decide, by decide, by decide, by decide, by decide⟩
    · simp at hn'
  · obtain ⟨h1, h2, _, h4, h5⟩ := hw n hn'
    exact ⟨h1, h2, h4, h5, hshort n hn'⟩

/-- a capability is reported as held exactly when the latest acknowledgement naming it enabled it -/
theorem held_iff_latest_ack (curr0 : List (Bytes × Bool)) (acks : List Bytes) (cap : Bytes)
    (h0 : curr0 = []) (hc : cap.head? ≠ some 45) :
    capHas (capAdd curr0 acks) cap = heldAfter acks cap := by
  subst h0
  rw [capHas_capAdd _ _ _ hc]
  rfl

/-- NAK ends negotiation -/
theorem ends_after_nak (c : Client) (l : Line) (h1 : l.args[1]? = some CAP_NAK) :
    (h_CAP c l).out = [CAPEND] := by
  have e1 : (CAP_NAK == CAP_LS) = false := by decide
  have e2 : (CAP_NAK == CAP_ACK) = false := by decide
  simp [h_CAP, handleCapNak, arg, h1, emit_capEnd, e1, e2]

/-- an ACK ends negotiation unless it starts SASL (sasl configured and acknowledged), in which case the
mechanism name is sent instead -/
theorem ack_ends_or_starts_sasl (c : Client) (acked : List Bytes) (_hn : ∀ n ∈ acked, CR ∉ n ∧ LF ∉ n) :
    okAfterACK c.cfg.sasl acked (handleCapAck c acked).out = true := by
  unfold handleCapAck okAfterACK
  cases hs : c.cfg.sasl with
  | none =>
    have := capAckLoop_none c acked [] false hs
    rcases hl : capAckLoop c acked [] false with ⟨c1, out, got⟩
    rw [hl] at this
    simp only [Prod.mk.injEq] at this
    obtain ⟨rfl, rfl⟩ := this
    simp [emit_capEnd]
  | some s =>
    have := capAckLoop_some c s acked [] false hs
    rcases hl : capAckLoop c acked [] false with ⟨c1, out, got⟩
    rw [hl] at this
    simp only [Prod.mk.injEq, List.nil_append, Bool.false_or] at this
    obtain ⟨rfl, rfl⟩ := this
    by_cases hc : acked.contains saslCap = true
    · simp only [hc, if_true]
      have : (acked.filter (· == saslCap)).length ≠ 0 := by
        simp only [ne_eq, List.length_eq_zero_iff, List.filter_eq_nil_iff]
        simp only [List.contains_iff_mem] at hc
        exact fun hh => hh saslCap hc (by simp)
      simp [authStart, this]
    · simp only [hc]
      simp only [Bool.not_eq_true] at hc
      have : (acked.filter (· == saslCap)) = [] := by
        simp only [List.filter_eq_nil_iff]
        intro a ha hb
        have : a = saslCap := by simpa using hb
        subst this
        have := List.contains_iff_mem.2 ha
        rw [hc] at this
        exact absurd this (by simp)
      simp [this, emit_capEnd]

/-- every SASL outcome ends negotiation: 903, 904, and 908 (which carries the mechanism list) -/
theorem ends_after_903 (c : Client) (l : Line) : (h_903 c l).out = [CAPEND] := emit_capEnd c
theorem ends_after_904 (c : Client) (l : Line) : (h_904 c l).out = [CAPEND] := emit_capEnd c
theorem ends_after_908 (c : Client) (l : Line) (h : (l.args[1]?).isSome) : (h_908 c l).out = [CAPEND] := by
  obtain ⟨a, ha⟩ := Option.isSome_iff_exists.1 h
  simp [h_908, arg, ha, emit_capEnd]

/-- the SASL payload is the mechanism's: sent when the server asks (AUTHENTICATE) after the ACK -/
theorem sasl_payload (c : Client) (s : Sasl) (l : Line) (hs : c.cfg.sasl = some s)
    (hr : c.saslRemaining = some (saslStart s).2) :
    (h_AUTHENTICATE c l).out = [payload s] ∧ (h_AUTHENTICATE c l).c.saslRemaining = none := by
  simp only [h_AUTHENTICATE, hs, hr, emit_authenticate, and_true]
  cases s with
  | plain i u p =>
    simp only [saslStart, payload]
    have : (i ++ [0] ++ u ++ [0] ++ p).length > 0 := by simp; omega
    simp only [this, if_true]
    rw [authLine_clean _ (b64encode_clean _).1 (b64encode_clean _).2]
  | external i =>
    simp only [saslStart, payload]
    cases i with
    | nil => decide
    | cons x i =>
      simp only [List.length_cons, gt_iff_lt, Nat.zero_lt_succ, if_true, List.isEmpty_cons, Bool.false_eq_true, if_false]
      rw [authLine_clean _ (b64encode_clean _).1 (b64encode_clean _).2]

/-- SASL data is sent only when asked: without a pending initial response (set only by an ACK of sasl)
an AUTHENTICATE line from the server produces no output at all -/
theorem sasl_only_when_asked (c : Client) (l : Line) (hr : c.saslRemaining = none) :
    (h_AUTHENTICATE c l).out = [] := by
  simp only [h_AUTHENTICATE, hr]
  split
  · rfl
  · split <;> rfl

/-- the pending initial response is set only by acknowledging sasl with SASL configured: no other
handler output contains an AUTHENTICATE line, and no other handler sets `saslRemaining` -/
theorem sasl_pending_only_after_ack (c : Client) (l : Line) (hr : c.saslRemaining = none)
    (hcmd : toLower c.ext l.cmd ≠ lit "cap") :
    (dispatchInternal c l).c.saslRemaining = none := by
  unfold dispatchInternal
  simp only []
  have h1 : (match intHandler (toLower c.ext l.cmd) with
      | some h => h c l
      | none => ({ c := c } : HR)).c.saslRemaining = none := by
    split
    · rename_i h hh; exact intHandler_sasl_none _ h hh hcmd c l hr
    · exact hr
  split
  · rename_i s h hs hh
    simp only []
    rw [stHandler_keeps _ h hh]; exact h1
  · exact h1


/-- `initialise()` (run by every Connect) leaves no capability advertised or held: the hypothesis `c.supported = []`
of `req_is_intersection` is what the code establishes at the start of EVERY connection, not only of the first
(defect 11: it used not to - a second connection asked its server for what the first server had advertised) -/
theorem connect_forgets_capabilities (c : Client) :
    (wipeOnConnect c).supported = [] ∧ (wipeOnConnect c).curr = [] ∧ (wipeOnConnect c).cfg = c.cfg := by
  refine ⟨rfl, rfl, ?_⟩
  simp only [wipeOnConnect, tk]
  cases c.st <;> rfl

/-- on every connection - the first or a later one of the same client, whatever earlier servers advertised or
acknowledged - the request after `CAP * LS :advertised` names exactly wanted ∩ advertised -/
theorem req_is_intersection_every_connection (c : Client) (adv : List Bytes)
    (hw : ∀ n ∈ c.cfg.caps, capName n) (ha : ∀ n ∈ adv, capName n) (hshort : ∀ n ∈ c.cfg.caps, n.length ≤ 200) :
    okAfterLS c.cfg.caps c.cfg.sasl.isSome adv (negotiate (wipeOnConnect c) adv).out = true := by
  have h := connect_forgets_capabilities c
  have := req_is_intersection (wipeOnConnect c) adv h.1 (by rw [h.2.2]; exact hw) ha (by rw [h.2.2]; exact hshort)
  rw [h.2.2] at this
  exact this


/-- a configured SASL mechanism switches negotiation on, whatever the application left in the flag (`Client()`), so the
client of such a configuration asks for `sasl` as soon as the server advertises it -/
theorem sasl_switches_negotiation_on (cfg : Config) (h : cfg.sasl.isSome) : (clientConfig cfg).capNeg = true := by
  simp [clientConfig, h]

/-- **a refused request changes nothing**: whatever a CAP NAK names - capabilities that are enabled, a `-cap`, unknown ones -
the client is exactly as it was: what it holds is still what the latest acknowledgement said, what the server supports
still what it advertised (and `ends_after_nak`: the reply is CAP END) -/
theorem nak_changes_nothing (c : Client) (l : Line) (h1 : l.args[1]? = some CAP_NAK) :
    (h_CAP c l).c = c ∧ (h_CAP c l).panicked = false := by
  have e1 : (CAP_NAK == CAP_LS) = false := by decide
  have e2 : (CAP_NAK == CAP_ACK) = false := by decide
  simp [h_CAP, handleCapNak, arg, h1, e1, e2]

end Props.C19
