import Goirc.Proofs.Split
/-!
# C11 — Long messages are split losslessly into bounded pieces

> Privmsg, Notice, Ctcp and CtcpReply (and the formatting variants) turn any text longer than
> SplitLen - 450 when SplitLen is unset or below 13 - into a finite sequence of messages to the
> same target whose text pieces are each at most SplitLen bytes long; every piece but the last
> ends in the continuation marker "...", no piece of a split text is empty, and joining the
> pieces without the markers reproduces the text exactly.

Quantifier: every text (any bytes) and every `Int` SplitLen.  No length bound anywhere.
The "same target" half is `C08.exec_shape` / `C11.same_target` over the command model.
-/
namespace Props.C11
open Go Spec.Split

/-- the limit in force is `SplitLen`, or 450 when it is below 13 (`split_default`) -/
theorem split_eq_loop (text : Bytes) (n : Int) :
    ∃ h : 13 ≤ effLen n, splitMessage text n = splitLoop text (effLen n) h := by
  unfold splitMessage effLen
  split
  · exact ⟨by decide, rfl⟩
  · exact ⟨by omega, rfl⟩

theorem split_lossless (text : Bytes) (n : Int) : rejoin (splitMessage text n) = text := by
  obtain ⟨h, e⟩ := split_eq_loop text n; rw [e]; exact splitLoop_lossless _ _ h

theorem split_bounded (text : Bytes) (n : Int) : ∀ p ∈ splitMessage text n, p.length ≤ effLen n := by
  obtain ⟨h, e⟩ := split_eq_loop text n; rw [e]; exact splitLoop_bounded _ _ h

theorem split_marker (text : Bytes) (n : Int) : markersOk (splitMessage text n) = true := by
  obtain ⟨h, e⟩ := split_eq_loop text n; rw [e]; exact splitLoop_markers _ _ h

theorem split_nonempty (text : Bytes) (n : Int) (hs : 1 < (splitMessage text n).length) :
    ∀ p ∈ splitMessage text n, p ≠ [] := by
  obtain ⟨h, e⟩ := split_eq_loop text n
  rw [e] at hs ⊢
  apply splitLoop_nonempty
  intro hm; subst hm
  rw [splitLoop_short [] _ h (by simp)] at hs
  simp at hs

theorem split_short (text : Bytes) (n : Int) (hs : text.length ≤ effLen n) :
    splitMessage text n = [text] := by
  obtain ⟨h, e⟩ := split_eq_loop text n; rw [e]; exact splitLoop_short _ _ h hs

theorem split_long (text : Bytes) (n : Int) (hs : effLen n < text.length) :
    2 ≤ (splitMessage text n).length := by
  obtain ⟨h, e⟩ := split_eq_loop text n; rw [e]; exact splitLoop_long _ _ h hs

/-- **C11, text half, in one statement**: the model's output satisfies the executable Spec
for every text and every SplitLen. -/
theorem split_ok (text : Bytes) (n : Int) : Spec.Split.ok n text (splitMessage text n) = true := by
  have h1 := split_lossless text n
  have h2 := split_bounded text n
  have h3 := split_marker text n
  obtain ⟨h, e⟩ := split_eq_loop text n
  have hne : splitMessage text n ≠ [] := by rw [e]; exact splitLoop_ne_nil _ _ h
  unfold Spec.Split.ok
  simp only [Bool.and_eq_true, Bool.or_eq_true, Bool.not_eq_true', List.isEmpty_eq_false_iff,
    beq_iff_eq, List.all_eq_true, decide_eq_true_eq]
  refine ⟨⟨⟨⟨⟨hne, h1⟩, h2⟩, h3⟩, ?_⟩, ?_⟩
  · by_cases hl : (splitMessage text n).length ≤ 1
    · left; exact hl
    · right; intro p hp
      have := split_nonempty text n (by omega) p hp
      cases p <;> simp_all
  · intro hs; rw [split_short text n hs]; rfl

/-- non-vacuity: a concrete text that really is split -/
example : 2 ≤ (splitMessage (List.replicate 20 65) 13).length :=
  split_long _ _ (by simp [effLen])

end Props.C11
