import Goirc.Props.C11
import Goirc.Proofs.Extra1
/-!
# C11, continued: at the command level - `Privmsg` / `Notice` / `Ctcp` queue exactly one line per piece of `splitMessage`, same target
-/
namespace Props.C11
open Go Spec.Irc

/-- C11 at the command level: for a target and text free of CR / LF, `Privmsg` queues exactly one line per piece of
`splitMessage`, each the fixed prefix `PRIVMSG <t> :` followed by that piece (so: same target, and the pieces obey
`Props.C11.split_ok`) -/
theorem privmsg_lines (ext : UnicodeExt) (cfg : CmdCfg) (t m : Bytes)
    (ht : CR ∉ t ∧ LF ∉ t) (hm : CR ∉ m ∧ LF ∉ m) :
    exec ext cfg (.privmsg t m) = (splitMessage m cfg.splitLen).map fun p => V.PRIVMSG ++ [SP] ++ t ++ [SP, 58] ++ p := by
  show ((splitMessage m cfg.splitLen).map fun p => V.PRIVMSG ++ [SP] ++ t ++ [SP, 58] ++ p).map cutNewLines = _
  apply Go.Extra.map_cutNewLines_clean
  intro p hp
  exact Go.Extra.clean_append (Go.Extra.clean_append (Go.Extra.clean_append (Go.Extra.clean_append
    (by decide) (by decide)) ht) (by decide)) (Go.Extra.splitMessage_clean m _ hm p hp)

theorem notice_lines (ext : UnicodeExt) (cfg : CmdCfg) (t m : Bytes)
    (ht : CR ∉ t ∧ LF ∉ t) (hm : CR ∉ m ∧ LF ∉ m) :
    exec ext cfg (.notice t m) = (splitMessage m cfg.splitLen).map fun p => V.NOTICE ++ [SP] ++ t ++ [SP, 58] ++ p := by
  show ((splitMessage m cfg.splitLen).map fun p => V.NOTICE ++ [SP] ++ t ++ [SP, 58] ++ p).map cutNewLines = _
  apply Go.Extra.map_cutNewLines_clean
  intro p hp
  exact Go.Extra.clean_append (Go.Extra.clean_append (Go.Extra.clean_append (Go.Extra.clean_append
    (by decide) (by decide)) ht) (by decide)) (Go.Extra.splitMessage_clean m _ hm p hp)

/-- `Ctcp` / `CtcpReply` / `Action`: one line per piece of the split of the joined arguments, the piece (if non-empty)
preceded by a space, wrapped in \x01 ... \x01 after the upper-cased CTCP verb -/
theorem ctcp_lines (ext : UnicodeExt) (cfg : CmdCfg) (t c : Bytes) (arg : List Bytes)
    (ht : CR ∉ t ∧ LF ∉ t) (hc : CR ∉ toUpper ext c ∧ LF ∉ toUpper ext c) (ha : CR ∉ join [SP] arg ∧ LF ∉ join [SP] arg) :
    exec ext cfg (.ctcp t c arg) = (splitMessage (join [SP] arg) cfg.splitLen).map fun s =>
      V.PRIVMSG ++ [SP] ++ t ++ [SP, 58, 1] ++ toUpper ext c ++ (if s == [] then [] else [SP] ++ s) ++ [1] := by
  show ((splitMessage (join [SP] arg) cfg.splitLen).map fun s =>
      V.PRIVMSG ++ [SP] ++ t ++ [SP, 58, 1] ++ toUpper ext c ++ (if s == [] then [] else [SP] ++ s) ++ [1]).map
        cutNewLines = _
  apply Go.Extra.map_cutNewLines_clean
  intro p hp
  have hp' := Go.Extra.splitMessage_clean _ _ ha p hp
  have hif : CR ∉ (if p == [] then [] else [SP] ++ p) ∧ LF ∉ (if p == [] then [] else [SP] ++ p) := by
    split
    · exact ⟨by simp, by simp⟩
    · exact Go.Extra.clean_append (by decide) hp'
  exact Go.Extra.clean_append (Go.Extra.clean_append (Go.Extra.clean_append (Go.Extra.clean_append
    (Go.Extra.clean_append (Go.Extra.clean_append (by decide) (by decide)) ht) (by decide)) hc) hif) (by decide)

end Props.C11
