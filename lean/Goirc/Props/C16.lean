import Goirc.Props.C03
/-!
# C16 — A misbehaving handler cannot stop event delivery

> If a handler panics, the panic is handed to the configured recovery function (by default it is
> logged) and the other handlers for that event and all later events are still delivered; if a
> background handler never returns, foreground delivery of later events is not delayed.

In the Dispatch LTS a handler that panics is a handler that leaves: `hNode.Handle` defers the
configured `Recover` before calling the handler (fact `shape_hNode_Handle`), so the goroutine
reaches `wg.Done()` either way; the labels `hLeave` / `intLeave` cover both outcomes.  That the
recovery function is really handed the value, and that the default one logs it, is checked on the
implementation by the correspondence (panics with string / error / nil-deref / struct values).
-/
namespace Props.C16
open Go.Dispatch

/-- siblings are still delivered: whatever some handlers of an event do (return or panic), every handler
of the snapshot is entered exactly once and leaves exactly once before the event is over -/
theorem siblings_delivered {s : St} (h : Reach s) (k n : Nat)
    (hd : Obs.fgStart k n ∈ s.log) (hdone : Obs.fgDone k ∈ s.log) (i : Nat) (hi : i < n) :
    (s.log.filter fun o => match o with | .fgEnter k' h' _ => k' = k ∧ h' = i | _ => false).length = 1 ∧
    (s.log.filter fun o => match o with | .fgExit k' h' _ => k' = k ∧ h' = i | _ => false).length = 1 :=
  Props.C03.fg_exactly_once h k n hd hdone i hi

/-- later events are still delivered: once every handler of the current event has left — returned or
panicked — the event loop's join is enabled and it goes back to take the next line -/
theorem later_events_delivered (s : St) (k : Nat) (hp : s.phase = .fg k) (hs : s.hs = []) (hst : s.fgStarted = true) :
    ∃ s', step s .fgJoin = some s' ∧ s'.phase = .idle := by
  simp [step, hp, hs, hst]

/-- a background handler that never returns delays nothing: every step other than the background handlers'
own is enabled in the same states and has the same effect whatever background invocations are outstanding -/
theorem bg_cannot_delay (s : St) (bg' : List (Nat × Nat × HState)) (l : Label)
    (hl : match l with | .bgEnter _ _ => False | .bgLeave _ _ => False | .spawnBg _ => False | _ => True) :
    (step { s with bg := bg' } l).map Props.C03.noBg = (step s l).map Props.C03.noBg :=
  Props.C03.bg_noninterference s bg' l hl

end Props.C16
