import Goirc.Spec.Register
import Goirc.Proofs.C20
/-!
# C20 — The connection password never reaches the log

> Whatever logger is installed and whatever the password is, no record the library hands to the
> logger contains the connection password in clear; the PASS line is logged only in masked form.

Formalised as non-interference: what `write` logs for the lines REGISTER produces does not depend
on the password's content.  `cfg.Pass` is read only in `h_REGISTER` (fact `pass_read_only_in_register`),
so no other handler's output or log record can depend on it.
-/
namespace Props.C20
open Go Go.Client Spec.Register

/-- the PASS line is logged only in masked form, whatever the password -/
theorem pass_logged_masked (_c : Client) (p : Bytes) : logOf (cutNewLines (lit "PASS " ++ p)) = MASK :=
  logOf_pass p

/-- non-interference: two clients that differ only in the (non-empty) password log the same records for
their registration lines -/
theorem log_indep_of_password (c : Client) (l : Line) (p1 p2 : Bytes) (h1 : p1 ≠ []) (h2 : p2 ≠ []) :
    (h_REGISTER { c with cfg := { c.cfg with pass := p1 } } l).out.map logOf =
    (h_REGISTER { c with cfg := { c.cfg with pass := p2 } } l).out.map logOf :=
  (register_log c l p1 h1).trans (register_log c l p2 h2).symm

/-- no other built-in handler's output depends on the password at all -/
theorem other_handlers_ignore_password (c : Client) (l : Line) (p : Bytes)
    (h : toLower c.ext l.cmd ≠ lit "register") :
    (dispatchInternal { c with cfg := { c.cfg with pass := p } } l).out = (dispatchInternal c l).out := by
  show (dispatchInternal (setPass p c) l).out = _
  rw [dispatchInternal_setPass p c l h]; rfl

end Props.C20
