import Goirc.Spec.Net
import Goirc.Model.Client
import Goirc.Props.C12
import Goirc.Proofs.C13Main
import Goirc.Proofs.C13Safe
/-!
# C13 — Tracked state equals the server's ground truth for the client's channels

> With state tracking enabled, after any protocol-conformant server session - the client and other
> users joining, parting, being kicked, quitting and changing nick, topic and mode changes, with
> the NAMES, WHO and MODE replies a server gives - the tracker holds exactly the channels the
> client is on, exactly the users sharing them with their per-channel privileges as far as the
> protocol reveals them (the highest prefix shown by NAMES, then every MODE change) and their
> user@host details once a WHO reply has arrived, and those channels' topics and modes. Under
> arbitrary non-conformant lines the tracker still never loses the client's own entry, never
> tracks a channel without the client in it, and never keeps a user who shares no channel with it.

`Spec.Net` is the model network: `serverStep` performs an event on the ground truth, returns the
lines a server sends our client, and maintains `view` - what the protocol has disclosed - by its own
rules.  The client model parses each line and runs its built-in handlers over the heap-faithful
tracker model.  "Holds exactly" is stated through the tracker's own query operations, compared
(as finite maps) with the relational Spec's answers on `view`.

Reading added by the proof (the statement without it is false, see `nickHeadOk`): nicknames - the
client's, the other users', and every new nick of a NICK event - do not begin with `#` or with one
of the membership prefixes `~ & @ % +`, as on every real network (RFC 2812 nicknames begin with a
letter or one of `[ ] \ ` _ ^ { | }`).  Counterexamples without it: a user called `+bob` holding
no privilege is listed by NAMES as `+bob`, which the client reads as `bob` with voice; a client
called `#a` on channel `#a` reads its own user-mode change `:#a MODE #a +i` as a channel mode.
-/
namespace Props.C13
open Go Go.Client Go.Tracker Spec.Net

/-- feed server lines to the client model: parse, then the internal handler set -/
def feed (c : Client) : List Bytes → Client
  | [] => c
  | l :: ls => match parseLine c.ext l with
    | some ln => feed (dispatchInternal c ln).c ls
    | none => feed c ls

/-- run a session: the model network performs each conforming event and the client processes what it sends -/
def runNet : Net → Client → List Event → Net × Client
  | n, c, [] => (n, c)
  | n, c, e :: es =>
    if conforms n e then runNet (serverStep n e).1 (feed c (serverStep n e).2) es
    else runNet n c es

/-- (`feed` is restated in the proof files, which this file imports) -/
theorem feed_eq : ∀ ls c, feed c ls = Proofs.C13.feed c ls := by
  intro ls; induction ls with
  | nil => intro c; rfl
  | cons l ls ih =>
    intro c
    cases h : parseLine c.ext l <;> simp only [feed, Proofs.C13.feed, h] <;> exact ih _

theorem runNet_eq : ∀ es n c, runNet n c es = Proofs.C13.runNet n c es := by
  intro es; induction es with
  | nil => intro n c; rfl
  | cons e es ih =>
    intro n c
    by_cases h : conforms n e = true <;> simp only [runNet, Proofs.C13.runNet, feed_eq, h] <;> exact ih _ _

/-- the tracker answers every query exactly as the relational Spec does on the disclosed view -/
def Holds (st : St) (view : Spec.Tracker.S) : Prop :=
  (∀ name, Props.C12.RetEq (step st (.getNick name)).2 (Spec.Tracker.step view (.getNick name)).2) ∧
  (∀ name, Props.C12.RetEq (step st (.getChannel name)).2 (Spec.Tracker.step view (.getChannel name)).2) ∧
  (∀ c n, Props.C12.RetEq (step st (.isOn c n)).2 (Spec.Tracker.step view (.isOn c n)).2) ∧
  Props.C12.RetEq (step st .me).2 (Spec.Tracker.step view .me).2

/-- a nickname does not start with a channel prefix (`#`) or a membership prefix (`~ & @ % +`) -/
def nickHeadOk (s : Bytes) : Bool :=
  match s.head? with
  | some b => !([35, 126, 38, 64, 37, 43].contains b)
  | none => true

/-- sane names for the network: users and the client -/
def userOk (u : Bytes × NUser) : Prop :=
  nameOk u.1 = true ∧ nickHeadOk u.1 = true ∧ nameOk u.2.ident = true ∧ nameOk u.2.host = true ∧ textOk u.2.real = true ∧ u.2.real ≠ []

/-- a NICK event renames to a nickname (`conforms` already asks `nameOk` of it) -/
def eventOk : Event → Prop
  | .nick _ nw => nickHeadOk nw = true
  | _ => True

/-- the client after `EnableStateTracking` and the welcome line that tells it its ident and host -/
def startClient (me ident host real : Bytes) (ext : UnicodeExt) : Client :=
  let c : Client := { cfg := { meNick := me, meIdent := ident, meName := real }, newNick := defaultNewNick, ext := ext }
  feed (enableTracking c) [lit ":irc.test 001 " ++ me ++ lit " :Welcome " ++ me ++ [33] ++ ident ++ [64] ++ host]

/-- **C13, first sentence**: after any session of the model network, the tracker holds exactly what has been
disclosed: channels the client is on, the users sharing them with the disclosed privileges, their user@host
once known, topics and modes -/
theorem session_sim (me ident host real : Bytes) (others : List (Bytes × NUser)) (ext : UnicodeExt) (evs : List Event)
    (hme : userOk (me, ⟨ident, host, real⟩)) (hothers : ∀ u ∈ others, userOk u)
    (hdistinct : (me :: others.map (·.1)).Nodup) (hevs : ∀ e ∈ evs, eventOk e) :
    let r := runNet (start me ident host real others) (startClient me ident host real ext) evs
    ∃ st, r.2.st = some st ∧ Holds st r.1.view := by
  have _ := hdistinct   -- not needed: every lookup takes the first entry
  have hstart : startClient me ident host real ext = Proofs.C13.startClient me ident host real ext := feed_eq _ _
  have hu : ∀ u, userOk u → Proofs.C13.nickOk u.1 = true ∧ nameOk u.2.ident = true ∧ nameOk u.2.host = true ∧ textOk u.2.real = true :=
    fun u h => ⟨by simp only [Proofs.C13.nickOk, Bool.and_eq_true]; exact ⟨h.1, h.2.1⟩, h.2.2.1, h.2.2.2.1, h.2.2.2.2.1⟩
  have hev : ∀ e ∈ evs, Proofs.C13.evOk e := fun e he => by
    have := hevs e he; cases e <;> first | exact this | trivial
  simp only [runNet_eq, hstart]
  exact Proofs.C13.session_core me ident host real others ext evs (hu _ hme) (fun u h => hu u (hothers u h)) hev

/-- what "safe" means on a tracker state, through its own queries: the client's entry exists; every tracked
channel has the client in it; every other tracked nick is on some tracked channel -/
def Safe (st : St) : Prop :=
  (∃ n, (step st .me).2 = .nick (some n) ∧ ∃ m, (step st (.getNick n.nick)).2 = .nick (some m)) ∧
  (∀ c cs, (step st (.getChannel c)).2 = .chan (some cs) →
     ∃ n, (step st .me).2 = .nick (some n) ∧ ∃ p, (step st (.isOn c n.nick)).2 = .privs p true) ∧
  (∀ u us, (step st (.getNick u)).2 = .nick (some us) →
     (∃ n, (step st .me).2 = .nick (some n) ∧ n.nick = u) ∨ us.channels ≠ [])

/-- **C13, second sentence**: whatever lines arrive - any byte strings at all - the tracker stays safe -/
theorem safety_any_lines (me ident real : Bytes) (ext : UnicodeExt) (lines : List Bytes) (hme : me ≠ []) :
    let c0 : Client := { cfg := { meNick := me, meIdent := ident, meName := real }, newNick := defaultNewNick, ext := ext }
    ∃ st, (feed (enableTracking c0) lines).st = some st ∧ Safe st := by
  have _ := hme   -- not needed
  simp only [feed_eq]
  exact Proofs.C13.safety_core me ident real ext lines

/-- **a QUIT is a QUIT, with or without a message**: what the tracker does with it depends on who quit and on nothing else
of the line - not on the parameters (RFC 2812 3.1.7: the quit message is optional), the tags or the raw text -/
theorem quit_whatever_its_parameters (c : Go.Client.Client) (l l' : Go.Line) (h : l.nick = l'.nick) :
    Go.Client.h_QUIT c l = Go.Client.h_QUIT c l' := by
  simp [Go.Client.h_QUIT, h]

end Props.C13
