import Goirc.Proofs.Line
import Goirc.Proofs.ParseRender
/-!
# C01 — Well-formed IRC messages parse to exactly the components that were sent

> For every message that is well-formed per RFC 2812 section 2.3.1, optionally preceded by an
> IRCv3 message-tags section, the parsed line exposes exactly the sent components: the tags with
> all five escapes undone (and no tag map at all when no tag section was sent), the source split
> into nick, ident and host when it has the nick!user@host form and otherwise kept whole as the
> host, the verb in upper case, the middle parameters followed by the trailing parameter, and
> the raw text unchanged. A PRIVMSG or NOTICE whose text is \x01VERB text\x01 is delivered
> instead as ACTION (target, text) or as CTCP / CTCPREPLY (VERB, target, text). Text, Target and
> Public answer consistently with those components, and a handler registered for the verb
> receives an equal line when the message arrives over a connection.

`Spec.Irc.Msg` / `render` / `Msg.wf` / `expected` formalise "well-formed message", "sent" and
"exactly the sent components" without mentioning the parser.
-/
namespace Props.C01
open Go Spec.Irc

/-- all five IRCv3 escapes are undone: for every tag value, unescaping its escaped form gives it back -/
theorem unescape_escape (v : Bytes) : unescapeTag (escapeTag v) = v := Go.unescape_escape v

/-- Text, Target and Public answer consistently with the components of *any* line (in particular
every line the parser produces): Text is the last parameter or "", Public says whether the target
parameter starts with one of `#&+!`, Target is that parameter when public and the sender's nick
otherwise (for PRIVMSG/NOTICE/ACTION/CTCP/CTCPREPLY), and the first parameter for other verbs. -/
theorem accessors_consistent (l : Line) : accessorsOk l l.text l.public l.target = true :=
  Go.accessors_consistent l

/-- the copy handed to each handler is field-wise equal to the parsed line -/
theorem copy_equal (l : Line) : l.copy = l := by
  cases l with
  | mk tags nick ident host src cmd raw args =>
    simp only [Line.copy, List.map_id_fun, id_eq, Line.mk.injEq, and_true, true_and]
    cases tags <;> simp

/-- the raw text is kept unchanged on every accepted line -/
theorem raw_unchanged (ext : UnicodeExt) (s : Bytes) (l : Line) (h : parseLine ext s = some l) : l.raw = s := by
  have hrest : ∀ (l0 : Line) (t : Bytes) (l : Line), parseRest ext l0 t = some l → l.raw = l0.raw := by
    intro l0 t l h
    unfold parseRest at h
    split at h
    · simp at h
    · simp only [Option.some.injEq] at h
      subst h; rfl
  have hws : ∀ (l0 : Line) (src : Bytes), (withSource l0 src).raw = l0.raw := by
    intro l0 src; unfold withSource; split <;> rfl
  have hsrc : ∀ (l0 : Line) (t : Bytes) (l : Line), parseSource ext l0 t = some l → l.raw = l0.raw := by
    intro l0 t l h
    unfold parseSource at h
    split at h
    · simp at h
    · split at h
      · rw [hrest _ _ _ h, hws]
      · simp at h
    · exact hrest _ _ _ h
  unfold parseLine at h
  split at h
  · simp at h
  · split at h
    · exact hsrc _ _ _ h
    · simp at h
  · exact hsrc _ _ _ h

/-- the round trip: every well-formed message, put on the wire by `render`, is accepted by the
parser, and the parsed line is *exactly* the line `expected` describes — tags unescaped (and no tag
map when no tag section was sent; the association lists are equal on the nose, not merely as finite
maps), source split or kept whole as host, verb upper-cased, middles followed by the trailing, raw
text unchanged, and the CTCP / ACTION rewriting applied — for every behaviour of `ToUpper` on
non-ASCII input. -/
theorem parse_render (ext : UnicodeExt) (m : Msg) (h : m.wf = true) :
    parseLine ext (render m) = some (expected ext m) :=
  Go.parse_render_eq ext m h

/-- non-vacuity of `Msg.wf`: a tagged CTCP message, a numeric with 14 middles -/
example : (Msg.mk (some [(lit "a", some (lit "b; c")), (lit "k", none)]) (some (.user (lit "n") (lit "u") (lit "h")))
    (lit "privmsg") [(0, lit "#c")] (some (0, [1] ++ lit "ACTION waves" ++ [1]))).wf = true := by decide
example : (Msg.mk none (some (.server (lit "irc.example.net"))) (lit "005")
    (List.replicate 14 (1, lit "x:y")) (some (2, lit "are supported :by this server"))).wf = true := by decide

end Props.C01
