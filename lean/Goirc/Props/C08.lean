import Goirc.Proofs.Commands
/-!
# C08 — Each API call writes only whole, single IRC commands of its own verb

> For every command method and every argument string - including ones with embedded CR or LF -
> the bytes put on the wire consist solely of CRLF-terminated lines with no CR or LF inside
> them, each beginning with the verb of the method that was called, so caller-supplied text can
> never start a second command.

Quantifier: every constructor of `Go.Cmd` (one per exported command method; `Privmsgln` and
`Privmsgf` are `privmsg` of the formatted string), every byte string in every argument position,
every `SplitLen`, every behaviour of `strings.ToUpper` on non-ASCII input (`ext`).
Reading: `Raw` has no verb of its own (`verbOf (.raw _) = []`), so only the single-line half
applies to it.
-/
namespace Props.C08
open Go Spec.Wire

/-- every line a call puts on the outgoing queue is free of CR/LF and begins with the call's verb -/
theorem wire_lines_clean (ext : UnicodeExt) (cfg : CmdCfg) (c : Cmd) :
    Spec.Wire.ok (verbOf c) (exec ext cfg c) = true := by
  unfold Spec.Wire.ok exec
  simp only [List.all_eq_true, List.mem_map]
  rintro l ⟨r, hr, rfl⟩
  exact lineOk_cut _ _ (verbOf_clean c).1 (verbOf_clean c).2 (rawArgs_prefix ext cfg c r hr)

/-- the bytes `write` emits for the call are exactly those lines, each followed by one CRLF, and
re-splitting the byte stream at CRLF gives back exactly those lines (nothing else, nothing merged) -/
theorem wire_bytes_ok (ext : UnicodeExt) (cfg : CmdCfg) (c : Cmd) :
    Spec.Wire.bytesOk (verbOf c) (wireBytes (exec ext cfg c)) = true := by
  have hclean := wire_lines_clean ext cfg c
  unfold Spec.Wire.ok at hclean
  have hcr : ∀ l ∈ exec ext cfg c, (13 : UInt8) ∉ l := by
    intro l hl
    have := (List.all_eq_true.1 hclean) l hl
    unfold lineOk at this
    simp at this
    exact this.1.1
  unfold bytesOk
  rw [splitCRLF_wire _ hcr]
  simp only [List.reverse_append, List.reverse_cons, List.reverse_nil, List.nil_append,
    List.singleton_append, List.isEmpty_nil, Bool.true_and, List.all_reverse]
  exact hclean

/-- `cutNewLines` keeps exactly the longest prefix free of CR and LF -/
theorem cutNewLines_spec (s : Bytes) :
    ∃ t, s = cutNewLines s ++ t ∧ CR ∉ cutNewLines s ∧ LF ∉ cutNewLines s ∧
      (t = [] ∨ ∃ t', t = CR :: t' ∨ t = LF :: t') := by
  obtain ⟨t1, h1, c1⟩ := beforeByte_spec CR s
  obtain ⟨t2, h2, c2⟩ := beforeByte_spec LF (beforeByte CR s)
  refine ⟨t2 ++ t1, ?_, cutNewLines_no_cr s, cutNewLines_no_lf s, ?_⟩
  · unfold cutNewLines; rw [← List.append_assoc, ← h2, ← h1]
  · rcases c2 with rfl | ⟨t', rfl⟩
    · rcases c1 with rfl | ⟨t', rfl⟩
      · left; rfl
      · right; exact ⟨t', Or.inl rfl⟩
    · right; exact ⟨t' ++ t1, Or.inr rfl⟩

/-- `Raw` puts exactly one line on the queue -/
theorem raw_single (ext : UnicodeExt) (cfg : CmdCfg) (s : Bytes) :
    exec ext cfg (.raw s) = [cutNewLines s] := rfl

/-- C11's "to the same target": each PRIVMSG line is the fixed prefix followed by one piece of the split -/
theorem privmsg_same_target (ext : UnicodeExt) (cfg : CmdCfg) (t m : Bytes) :
    exec ext cfg (.privmsg t m) =
      (splitMessage m cfg.splitLen).map fun p => cutNewLines (V.PRIVMSG ++ [SP] ++ t ++ [SP, 58] ++ p) := by
  simp [exec, rawArgs]

theorem notice_same_target (ext : UnicodeExt) (cfg : CmdCfg) (t m : Bytes) :
    exec ext cfg (.notice t m) =
      (splitMessage m cfg.splitLen).map fun p => cutNewLines (V.NOTICE ++ [SP] ++ t ++ [SP, 58] ++ p) := by
  simp [exec, rawArgs]

/-- non-vacuity: an injection attempt through Nick is cut, not forwarded -/
example : exec ⟨id, id⟩ ⟨450, []⟩ (.nick (lit "evil\r\nQUIT")) = [lit "NICK evil"] := by decide

end Props.C08
