import Goirc.Spec.Send
import Goirc.Proofs.C09
/-!
# C09 — Outgoing lines reach the server in order, once each

> While the connection stays up, every line handed to the client is written to the server exactly
> once, byte for byte, and lines issued by the same goroutine appear on the wire in the order they
> were issued, for any number of concurrent senders (handlers and user goroutines).

Quantifier: every reachable state of the Send LTS = every number of senders, every interleaving
of `Raw` completions with the send goroutine's dequeues and writes, every queue capacity ≥ 0.
-/
namespace Props.C09
open Go.Send Spec.Send Proofs.C09

/-- the pipeline invariant: for every sender, what is on the wire, in flight and queued is exactly
the lines it has issued, once each, in issue order -/
theorem pipeline_invariant {cap st} (h : Reach cap st) (s : Sender) :
    seqsOf s (pipeline st) = List.range (st.issued s) := by
  exact inv_reach h s

/-- on the wire each sender's lines appear at most once, in order, as a prefix of what it issued -/
theorem wire_per_sender_prefix {cap st} (h : Reach cap st) (s : Sender) :
    seqsOf s st.wire <+: List.range (st.issued s) := by
  exact wire_prefix h s

/-- the executable Spec holds of every reachable wire, for any list of senders that covers the wire -/
theorem wire_ok {cap st} (h : Reach cap st) (senders : List Sender) (hc : ∀ i ∈ st.wire, i.sender ∈ senders) :
    okPrefix senders st.wire = true := by
  simp only [okPrefix, Bool.and_eq_true, List.all_eq_true]
  refine ⟨fun s _ => isRange_of_prefix_range (wire_prefix h s), fun i hi => ?_⟩
  simpa using hc i hi

/-- nothing is lost while the connection is up: a line that has been issued and is not yet on the
wire is still in flight or queued (so it will be written: `deq`/`write` stay enabled, see `progress`) -/
theorem nothing_lost {cap st} (h : Reach cap st) (s : Sender) (k : Nat) (hk : k < st.issued s) :
    (⟨s, k⟩ : Item) ∈ pipeline st := by
  apply mem_of_seq_mem
  rw [inv_reach h s]
  exact List.mem_range.mpr hk

/-- while up, the send goroutine is never stuck with work pending: if something is queued or in
flight, `deq` or `write` is enabled -/
theorem progress {cap st} (h : Reach cap st) (hup : st.up = true) (hw : st.inflight.isSome ∨ st.q ≠ []) :
    (step st .write).isSome ∨ (step st .deq).isSome := by
  have _ := h -- holds in every state, reachable or not
  cases hi : st.inflight with
  | some x => left; simp [step, hup, hi]
  | none =>
    right
    cases hq : st.q with
    | nil => simp [hi, hq] at hw
    | cons y ys => simp [step, hup, hi, hq]

/-- and each such step shrinks the unwritten part of the pipeline: pending work is bounded by
`inflight + queue` length, so under weak fairness of the send goroutine every issued line is written -/
theorem write_decreases {cap st st'} (h : Reach cap st) (hs : step st .write = some st') :
    (pipeline st').length = (pipeline st).length ∧ st'.wire.length = st.wire.length + 1 := by
  have _ := h -- holds in every state, reachable or not
  simp only [step] at hs
  split at hs
  · split at hs <;> simp at hs
    subst hs
    rename_i x hi
    simp [pipeline, hi]
  · simp at hs

end Props.C09
