import Goirc.Props.C03
/-!
# C05 — State tracking is applied before user handlers observe a line

> With state tracking enabled, whenever a user handler (foreground or background) runs for a
> server line, the tracker already reflects that line; and while a foreground handler runs, the
> tracker does not yet reflect any later line.

In the Dispatch LTS `applied` counts the lines whose internal phase — which contains every state
handler (fact `table_stHandlers` + pinned `addSTHandlers`: they are registered in the internal
set) — has completed; handler events carry the value of `applied` they observe.
-/
namespace Props.C05
open Go.Dispatch Spec.Dispatch

theorem ok_parts (l : List Obs) (h : Spec.Dispatch.ok l = true) :
    serial l none = true ∧ connAfterWelcome l [] = true ∧ nothingAfterDisc l false = true ∧ trackerTiming l = true := by
  unfold Spec.Dispatch.ok at h
  simp only [Bool.and_eq_true] at h
  exact ⟨h.1.1.1, h.1.1.2, h.1.2, h.2⟩

/-- in every reachable state's history: a foreground handler of line k observed exactly lines 0..k applied, at
entry and at exit (so the tracker reflects its line and no later one), and a background handler observed at
least those -/
theorem tracker_reflects_line {s : St} (h : Reach s) : trackerTiming s.log = true :=
  (ok_parts _ (Props.C03.delivery_ok h)).2.2.2

/-- spelled out for one event -/
theorem fg_sees_exactly_its_line {s : St} (h : Reach s) (k i a : Nat) (he : Obs.fgEnter k i a ∈ s.log) : a = k + 1 := by
  have ht := tracker_reflects_line h
  generalize s.log = l at he ht
  induction l with
  | nil => cases he
  | cons o rest ih =>
    cases o <;> simp only [trackerTiming, Bool.and_eq_true, beq_iff_eq, decide_eq_true_eq] at ht
    all_goals (
      rcases List.mem_cons.1 he with e | e
      · first
        | (injection e with e1 e2 e3; subst e1 e2 e3; exact ht.1)
        | cases e
      · first
        | exact ih e ht.2
        | exact ih e ht)

end Props.C05
