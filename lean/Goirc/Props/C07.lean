import Goirc.Model.Life
import Goirc.Proofs.C07
/-!
# C07 — Disconnect always completes, leaks nothing, and the client can reconnect

> Every disconnect finishes in bounded time - Close returns and DISCONNECTED is delivered - no
> matter how many received lines are still unprocessed, how many outgoing lines are queued or
> being rate-limited, or whether handlers are in the middle of sending. Afterwards none of the
> connection's goroutines remain, and the same client can connect again any number of times -
> from another goroutine or from inside the DISCONNECTED handler - each time getting a fresh
> connection that is unaffected by the teardown of the previous one: it stays up until something
> ends it, registration is sent, and the tracker, if enabled, is reset to just the client itself.

"Bounded time" = the teardown steps are always enabled until the teardown is over and they cannot
go on for ever (a well-founded measure decreases with every one of them), for every backlog of
unread lines, every queue content and every finite amount of sending that handlers and the ping
goroutine still do.  Wall-clock time is observed by the correspondence only.
-/
namespace Props.C07
open Go.Life

/-- **no deadlock in teardown**: as long as some closer is draining, some teardown step is enabled -/
theorem teardown_progress {s : St} (h : Reach s) (hd : Draining s) :
    ∃ l s', isTeardown l = true ∧ step s l = some s' := by
  exact Proofs.C07.teardown_progress h hd

/-- one teardown step: a step of a teardown label taken while somebody is draining -/
def TStep (s' s : St) : Prop := Reach s ∧ Draining s ∧ ∃ l, isTeardown l = true ∧ step s l = some s'

/-- **teardown terminates**: teardown steps cannot go on for ever - whatever the backlog of unread lines, the
queue contents, and the (finite, arbitrary) amount of sending handlers and the ping goroutine still do -/
theorem teardown_terminates : ∀ s, Acc TStep s := by
  exact Proofs.C07.acc_of TStep (fun _ _ h => h)

/-- when DISCONNECTED is dispatched for a connection that is still the current one, none of its goroutines
remain: the wait group is empty and send, recv, runLoop and ping have all left -/
theorem no_goroutine_left {s s' : St} (h : Reach s) (t : Tid) (g : Gen) (ht : s.thr t = .xDrain g)
    (hs : step s (.xFinish t) = some s') :
    s.g.wg = 0 ∧ s.g.recv = .gone ∧ s.g.send = .gone ∧ s.g.loop = .gone ∧ (s.g.ping = .gone ∨ s.g.ping = .absent) := by
  exact Proofs.C07.no_goroutine_left h ht hs

/-- the wait group counts exactly the goroutines that have not left -/
theorem wg_counts_live {s : St} (h : Reach s) :
    s.g.wg = (if s.g.recv = .gone then 0 else 1) + (if s.g.send = .gone then 0 else 1) + (if s.g.loop = .gone then 0 else 1) +
             (if s.g.ping = .gone ∨ s.g.ping = .absent then 0 else 1) := by
  exact (Proofs.C07.reach_inv h).wg

/-- **a fresh connection is unaffected by the teardown of the previous one**: whatever a straggler of an older
generation does, the current connection's flag, socket, context, queues and goroutines are untouched -/
theorem reconnect_fresh {s s' : St} (t : Tid) (g' : Gen) (ht : s.thr t = .xLocked (some g')) (hne : g' ≠ s.cur)
    (hs : step s (.xTest t) = some s') :
    s'.connected = s.connected ∧ s'.cur = s.cur ∧ s'.g.sockClosed = s.g.sockClosed ∧ s'.g.cancelled = s.g.cancelled ∧
    s'.g.wg = s.g.wg ∧ s'.g.inQ = s.g.inQ ∧ s'.g.outQ = s.g.outQ ∧
    s'.g.recv = s.g.recv ∧ s'.g.send = s.g.send ∧ s'.g.loop = s.g.loop ∧ s'.g.ping = s.g.ping := by
  exact Proofs.C07.reconnect_fresh ht hne hs

/-- only a thread that targets the current generation (or the public Close) can begin a disconnect -/
theorem only_own_generation_closes {s : St} (h : Reach s) (t : Tid) (g : Gen) (ht : s.thr t = .xDrain g) : g = s.cur := by
  exact ((Proofs.C07.reach_inv h).drain t g ht).1

/-- after a teardown the client can connect again: once nobody holds the mutex and the flag is clear, Connect succeeds,
creating a new generation with empty queues and all goroutines live -/
theorem can_reconnect (s : St) (t : Tid) (ping : Option Nat) (ht : s.thr t = .cLocked) (hc : s.connected = false) :
    ∃ s', step s (.cSucceed t ping) = some s' ∧ s'.cur = s.cur + 1 ∧ s'.connected = true ∧ s'.g.inQ = 0 ∧ s'.g.outQ = 0 ∧
      s'.g.recv = .reading ∧ s'.g.send = .idle ∧ s'.g.loop = .select ∧ s'.g.sockClosed = false ∧ s'.g.cancelled = false := by
  exact Proofs.C07.can_reconnect ht hc

end Props.C07
