import Goirc.Model.Life
import Goirc.Proofs.C07
import Goirc.Proofs.C07Cancel
import Goirc.Proofs.C07Live
/-!
# C07 — Disconnect always completes, leaks nothing, and the client can reconnect

> Every disconnect finishes in bounded time - Close returns and DISCONNECTED is delivered - no
> matter how many received lines are still unprocessed, how many outgoing lines are queued or
> being rate-limited, or whether handlers are in the middle of sending. Afterwards none of the
> connection's goroutines remain, and the same client can connect again any number of times -
> from another goroutine or from inside the DISCONNECTED handler - each time getting a fresh
> connection that is unaffected by the teardown of the previous one: it stays up until something
> ends it, registration is sent, and the tracker, if enabled, is reset to just the client itself.

"Bounded time" = the teardown steps are always enabled until the teardown is over and they cannot
go on for ever (a well-founded measure decreases with every one of them), for every backlog of
unread lines, every queue content and every finite amount of sending that handlers and the ping
goroutine still do.  Wall-clock time is observed by the correspondence only.
-/
namespace Props.C07
open Go.Life

/-- **no deadlock in teardown**: as long as some closer is draining, some teardown step is enabled -/
theorem teardown_progress {s : St} (h : Reach s) (hd : Draining s) :
    ∃ l s', isTeardown l = true ∧ step s l = some s' := by
  exact Proofs.C07.teardown_progress h hd

/-- one teardown step: a step of a teardown label taken while somebody is draining -/
def TStep (s' s : St) : Prop := Reach s ∧ Draining s ∧ ∃ l, isTeardown l = true ∧ step s l = some s'

/-- **teardown terminates**: teardown steps cannot go on for ever - whatever the backlog of unread lines, the
queue contents, and the (finite, arbitrary) amount of sending handlers and the ping goroutine still do -/
theorem teardown_terminates : ∀ s, Acc TStep s := by
  exact Proofs.C07.acc_of TStep (fun _ _ h => h)

/-- when DISCONNECTED is dispatched for a connection that is still the current one, none of its goroutines
remain: the wait group is empty and send, recv, runLoop and ping have all left -/
theorem no_goroutine_left {s s' : St} (h : Reach s) (t : Tid) (g : Gen) (ht : s.thr t = .xDrain g)
    (hs : step s (.xFinish t) = some s') :
    s.g.wg = 0 ∧ s.g.recv = .gone ∧ s.g.send = .gone ∧ s.g.loop = .gone ∧ (s.g.ping = .gone ∨ s.g.ping = .absent) := by
  exact Proofs.C07.no_goroutine_left h ht hs

/-- the wait group counts exactly the goroutines that have not left -/
theorem wg_counts_live {s : St} (h : Reach s) :
    s.g.wg = (if s.g.recv = .gone then 0 else 1) + (if s.g.send = .gone then 0 else 1) + (if s.g.loop = .gone then 0 else 1) +
             (if s.g.ping = .gone ∨ s.g.ping = .absent then 0 else 1) := by
  exact (Proofs.C07.reach_inv h).wg

/-- **a fresh connection is unaffected by the teardown of the previous one**: whatever a straggler of an older
generation does, the current connection's flag, socket, context, queues and goroutines are untouched -/
theorem reconnect_fresh {s s' : St} (t : Tid) (g' : Gen) (ht : s.thr t = .xLocked (some g')) (hne : g' ≠ s.cur)
    (hs : step s (.xTest t) = some s') :
    s'.connected = s.connected ∧ s'.cur = s.cur ∧ s'.g.sockClosed = s.g.sockClosed ∧ s'.g.cancelled = s.g.cancelled ∧
    s'.g.wg = s.g.wg ∧ s'.g.inQ = s.g.inQ ∧ s'.g.outQ = s.g.outQ ∧
    s'.g.recv = s.g.recv ∧ s'.g.send = s.g.send ∧ s'.g.loop = s.g.loop ∧ s'.g.ping = s.g.ping := by
  exact Proofs.C07.reconnect_fresh ht hne hs

/-- only a thread that targets the current generation (or the public Close) can begin a disconnect -/
theorem only_own_generation_closes {s : St} (h : Reach s) (t : Tid) (g : Gen) (ht : s.thr t = .xDrain g) : g = s.cur := by
  exact ((Proofs.C07.reach_inv h).drain t g ht).1

/-- after a teardown the client can connect again: once nobody holds the mutex and the flag is clear, Connect succeeds,
creating a new generation with empty queues and all goroutines live -/
theorem can_reconnect (s : St) (t : Tid) (ping : Option Nat) (ht : s.thr t = .cLocked) (hc : s.connected = false) :
    ∃ s', step s (.cSucceed t ping) = some s' ∧ s'.cur = s.cur + 1 ∧ s'.connected = true ∧ s'.g.inQ = 0 ∧ s'.g.outQ = 0 ∧
      s'.g.recv = .reading ∧ s'.g.send = .idle ∧ s'.g.loop = .select ∧ s'.g.sockClosed = false ∧ s'.g.cancelled = false := by
  exact Proofs.C07.can_reconnect ht hc

/-- **no connection is made while a teardown is draining**: the drainer keeps `conn.mu` until the wait group is empty,
so a `Connect` cannot get to `postConnect` in between - which is why the queues, the wait group and the socket of the
old connection are never shared with a new one (a reconnect that overlapped the drain would have its lines eaten by it) -/
theorem no_connect_while_draining {s : St} (h : Reach s) (hd : Draining s) (t : Tid) (ping : Option Nat) :
    step s (.cSucceed t ping) = none := by
  obtain ⟨t', g, ht'⟩ := hd
  have inv := Proofs.C07.reach_inv h
  have hm := inv.holder t' (by simp [ht', Proofs.C07.holds])
  by_cases hc : s.thr t = .cLocked
  · have hm2 := inv.holder t (by simp [hc, Proofs.C07.holds])
    rw [hm] at hm2
    have : t' = t := Option.some.inj hm2
    subst this
    rw [ht'] at hc
    cases hc
  · simp [step, hc]

/-! ### a disconnect that is asked for does begin (defect 12, fix 9105b13)

The theorems above are about a teardown once some closer has passed the test-and-clear. These are about getting there
after the user's context is cancelled, whatever the connection's goroutines are doing - in particular with `send` inside
a write to a peer that has stopped reading (`peerStall`), `recv` inside a read and `runLoop` inside a handler that waits
for room in the output queue, when none of them is looking at `ctx.Done()`. -/

open Proofs.C07Cancel in
/-- **a cancelled context is never ignored**: while the connection is up and its context is cancelled, one of the steps
that lead to the teardown is enabled - the watchdog fires, a closer for this connection takes the free mutex or does
its test-and-clear, or whoever holds the mutex gets out of the way -/
theorem cancel_progress {s : St} (h : Reach s) (hc : s.connected = true) (hx : s.g.cancelled = true) :
    ∃ l s', isCloser l = true ∧ step s l = some s' := by
  exact Proofs.C07Cancel.cancel_progress h hc hx

open Proofs.C07Cancel in
/-- **and the teardown is at most four such steps away**, in every reachable state: (the mutex holder lets go,) (the
watchdog fires,) a closer for this connection locks and tests - after which the flag is clear and `teardown_progress` /
`teardown_terminates` take over. No step of `send`, `recv`, `runLoop`, `ping` or of the peer is needed. -/
theorem cancel_reaches_teardown {s : St} (h : Reach s) (hc : s.connected = true) (hx : s.g.cancelled = true) :
    ∃ ls s', run s ls = some s' ∧ ls.length ≤ 4 ∧ (∀ l ∈ ls, isCloser l = true) ∧ s'.connected = false ∧ Draining s' := by
  exact Proofs.C07Cancel.cancel_reaches_teardown h hc hx

open Proofs.C07Cancel in
/-- **the watchdog is what does it** (defect 12 as a state of the model): the history `stuckHistory` - one handler
emitting 34 lines, the peer stops reading, the context is cancelled - reaches a state with the connection up and the
context cancelled in which NOTHING the connection does on its own is enabled except the watchdog. Without it (the tree
before 9105b13) that state is a deadlock: no DISCONNECTED, `Connected()` true for ever. -/
theorem watchdog_is_needed :
    Reach stuck ∧ stuck.connected = true ∧ stuck.g.cancelled = true ∧
    ∀ l s', step stuck l = some s' → isOwn l = true → ∃ t, l = .watchFire t := by
  exact ⟨stuck_reach, by decide, by decide, stuck_only_watchdog⟩

/-- `P` holds now, or some step of kind `k` is enabled and `P` is inevitable after every enabled step of kind `k`:
"on every maximal run of `k`-steps, `P` comes to hold" (no fairness assumption; other kinds of steps quiet) -/
abbrev Inevitable := @Proofs.C07Live.Inevitable

open Proofs.C07Cancel in
/-- **after a cancellation the teardown begins on every maximal run of the connection's own steps** - its goroutines,
the watchdog, threads inside Connect / Close - whatever they do and in whatever order: `cancel_progress` says they
cannot all be stuck before the test-and-clear, and they cannot go on for ever (a well-founded measure over queue
contents, handler and ping fuel, program counters and the finitely many non-idle threads decreases) -/
theorem cancel_inevitable {s : St} (h : Reach s) (hc : s.connected = true) (hx : s.g.cancelled = true) :
    Inevitable isOwn (fun s => s.connected = false ∧ Draining s) s := by
  exact Proofs.C07Live.cancel_inevitable h hc hx

/-- **and a teardown that has begun is finished on every maximal run of teardown steps** (`teardown_progress` and
`teardown_terminates` combined): the drainer gets to `xFinish`, after which nobody is draining -/
theorem teardown_inevitable {s : St} (h : Reach s) (hd : Draining s) :
    Inevitable isTeardown (fun s => ¬ Draining s) s := by
  exact Proofs.C07Live.teardown_inevitable h hd

/-- non-vacuity: `stuck` meets the hypotheses of `cancel_progress` and `cancel_reaches_teardown` -/
example : ∃ s, Reach s ∧ s.connected = true ∧ s.g.cancelled = true :=
  ⟨Proofs.C07Cancel.stuck, watchdog_is_needed.1, watchdog_is_needed.2.1, watchdog_is_needed.2.2.1⟩

/-- a peer that has stopped reading cannot hold up a teardown that has begun: `teardown_progress` and
`teardown_terminates` above are proved with `peerStall` in the model (the socket is closed by then, so the write fails) -/
theorem stalled_write_fails_once_closed (s : St) (t : Tid) (hw : s.g.send = .writing) (hcl : s.g.sockClosed = true)
    (hi : s.thr t = .idle) : (step s (.sendFail t)).isSome = true := by
  simp [step, hw, hcl, hi]

end Props.C07
