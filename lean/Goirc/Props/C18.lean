import Goirc.Spec.Register
import Goirc.Model.Life
import Goirc.Spec.Irc
import Goirc.Proofs.ParseRender
import Goirc.Proofs.C18
/-!
# C18 — Registration and keep-alive follow the protocol

> On every successful connect the client sends, once each and in this relative order, CAP LS (only
> if capability negotiation is enabled), PASS (only if a password is set), NICK with its current
> nick and USER with its ident and real name, after dialling the configured address with port
> 6667 - 6697 with SSL - added only when none was given. It answers every server PING that
> carries a token with a PONG carrying the same token, and it sends PINGs of its own periodically
> exactly when PingFreq is positive.

The periodic-ping half is a fact about `postConnect` (FactsCheck) and an observation of the
correspondence; it is runtime behaviour.
-/
namespace Props.C18
open Go Go.Client Spec.Register

def clean (s : Bytes) : Prop := CR ∉ s ∧ LF ∉ s

/-- REGISTER puts exactly CAP LS?, PASS?, NICK, USER on the queue, once each, in this order -/
theorem register_order (c : Client) (l : Line) (hme : c.cfg.meNil = false)
    (h1 : clean c.cfg.pass) (h2 : clean c.cfg.meNick) (h3 : clean c.cfg.meIdent) (h4 : clean c.cfg.meName) :
    (h_REGISTER c l).out = expected c.cfg.capNeg c.cfg.pass c.cfg.meNick c.cfg.meIdent c.cfg.meName ∧
    (h_REGISTER c l).panicked = false := by
  have hq : (h_REGISTER c l).panicked = false := by simp [h_REGISTER, hme]
  refine ⟨?_, hq⟩
  simp only [h_REGISTER, hme, expected, Bool.false_eq_true, if_false, Client.emit, CAP_LS, exec_cap_ls,
    exec_pass _ _ _ h1, exec_nick _ _ _ h2, exec_user _ _ _ _ h3 h4]
  cases c.cfg.capNeg <;> by_cases hp : c.cfg.pass = [] <;> simp [hp]

/-- **"NICK with its current nick", across a reconnect**: a client (no state tracking) whose nick was refused during
registration goes by the generator's next nick from then on, and that - not the nick it was configured with - is what the
next REGISTER (the next connection) asks for; everything else of the registration is as configured -/
theorem register_after_collision (c : Client) (l lr : Line) (hst : c.st = none) (hme : c.cfg.meNil = false)
    (h : l.args[1]? = some c.cfg.meNick)
    (h1 : clean c.cfg.pass) (h2 : clean (c.newNick c.cfg.meNick)) (h3 : clean c.cfg.meIdent) (h4 : clean c.cfg.meName) :
    (h_REGISTER (h_433 c l).c lr).out =
      expected c.cfg.capNeg c.cfg.pass (c.newNick c.cfg.meNick) c.cfg.meIdent c.cfg.meName := by
  have hc : (h_433 c l).c = { c with cfg := { c.cfg with meNick := c.newNick c.cfg.meNick } } := by
    simp [h_433, refreshMe, hst, hme, arg, h]
  rw [hc]
  exact (register_order _ lr (by simpa using hme) (by simpa using h1) (by simpa using h2) (by simpa using h3) (by simpa using h4)).1

/-- the model's `hasPort` (Go int comparison with -1) is the Spec's "has an explicit port" -/
theorem hasPort_iff (s : Bytes) : hasPort s = hasExplicitPort s := by
  cases h58 : lastIndexByte s 58 <;> cases h93 : lastIndexByte s 93 <;>
    simp [hasPort, hasExplicitPort, h58, h93] <;> omega

/-- a server name with no port (no ':' and no '%' in it) gets :6667, or :6697 with SSL;
one with an explicit port is dialled unchanged; and the computation is idempotent (reconnects) -/
theorem dial_addr (ssl : Bool) (server : Bytes) (h1 : (58 : UInt8) ∉ server) (h2 : (37 : UInt8) ∉ server) :
    dialAddr ssl server = server ++ [58] ++ (if ssl then lit "6697" else lit "6667") ∧
    dialAddr ssl (dialAddr ssl server) = dialAddr ssl server := by
  have hp : hasPort server = false := by
    rw [hasPort_iff]; simp [hasExplicitPort, lastIndexByte_not_mem 58 server h1]
  have e : dialAddr ssl server = server ++ [58] ++ (if ssl then lit "6697" else lit "6667") := by
    simp [dialAddr, hp, joinHostPort, h1, h2]
  refine ⟨e, ?_⟩
  rw [e]
  generalize hport : (if ssl then lit "6697" else lit "6667") = port
  have hp58 : (58 : UInt8) ∉ port := by subst hport; cases ssl <;> decide
  have hp93 : (93 : UInt8) ∉ port := by subst hport; cases ssl <;> decide
  have h2' : hasPort (server ++ [58] ++ port) = true := by
    rw [hasPort_iff]
    have a : lastIndexByte (server ++ [58] ++ port) 58 = some server.length := by
      rw [List.append_assoc]; exact lastIndexByte_append_cons 58 server port hp58
    have b : lastIndexByte (server ++ [58] ++ port) 93 = lastIndexByte server 93 := by
      rw [List.append_assoc, lastIndexByte_append_not_mem 93 server ([58] ++ port) (by simp [hp93])]
    simp only [hasExplicitPort, a, b]
    cases h : lastIndexByte server 93 with
    | none => rfl
    | some j => simpa using lastIndexByte_lt 93 server j h
  unfold dialAddr
  rw [hport, h2']; rfl

theorem dial_addr_explicit (ssl : Bool) (server : Bytes) (h : hasExplicitPort server = true) :
    dialAddr ssl server = server := by
  simp [dialAddr, hasPort_iff, h]

theorem dial_addr_spec (ssl : Bool) (server : Bytes) (h : hasExplicitPort server = true ∨ ((58 : UInt8) ∉ server ∧ (37 : UInt8) ∉ server)) :
    dialAddr ssl server = expectedAddr ssl server := by
  rcases h with h | ⟨h1, h2⟩
  · rw [dial_addr_explicit ssl server h]; simp [expectedAddr, h]
  · rw [(dial_addr ssl server h1 h2).1]
    simp [expectedAddr, hasExplicitPort, lastIndexByte_not_mem 58 server h1]

/-- every PING carrying a token (any bytes but CR/LF; empty, with spaces, with colons) is answered by
exactly one line, `PONG :token`, and parsing that line gives the same token back -/
theorem pong_same_token (c : Client) (tok : Bytes) (h : clean tok) :
    ∃ l, parseLine c.ext (lit "PING :" ++ tok) = some l ∧
      (dispatchInternal c l).out = [lit "PONG :" ++ tok] ∧
      ∃ l', parseLine c.ext (lit "PONG :" ++ tok) = some l' ∧ l'.args = [tok] :=
  ⟨_, parse_ping c.ext tok, dispatch_ping c _ tok h, _, parse_pong c.ext tok, rfl⟩

/-- every shape RFC 2812 3.7.2 allows (`PING tok`, `PING tok server2`, `:src PING tok :text` …): whatever the source and
whatever follows, a PING event whose FIRST parameter is `tok` is answered by exactly one line, `PONG :tok` (round 4:
a change that echoed the last parameter instead passed every single-parameter test) -/
theorem pong_first_parameter (c : Client) (l : Line) (tok : Bytes) (rest : List Bytes)
    (hcmd : l.cmd = lit "PING") (hargs : l.args = tok :: rest) (h : clean tok) :
    (dispatchInternal c l).out = [lit "PONG :" ++ tok] := by
  have hev : toLower c.ext (lit "PING") = lit "ping" := rfl
  have hi : Go.Client.intHandler (lit "ping") = some Go.Client.h_PING := rfl
  have hs : Go.Client.stHandler (lit "ping") = none := rfl
  have hclean : cutNewLines (lit "PONG :" ++ tok) = lit "PONG :" ++ tok :=
    cutNewLines_append_clean _ _ (by decide) h
  have hraw : V.PONG ++ [SP, 58] ++ tok = lit "PONG :" ++ tok := rfl
  simp only [dispatchInternal, hcmd, hev, hi, hs]
  split
  · rename_i h'; simp at h'
  · simp [Go.Client.h_PING, Go.Client.arg, hargs, Go.Client.emit, exec, rawArgs, hraw, hclean]

/-- the ping goroutine exists exactly when the connection was made with client pings on (`PingFreq > 0`, the
`some` case of `postConnect`'s branch; fact `shape_Conn_postConnect`), and the wait group counts it -/
theorem ping_goroutine_iff (s s' : Go.Life.St) (t : Go.Life.Tid) (ping : Option Nat)
    (hs : Go.Life.step s (.cSucceed t ping) = some s') :
    (s'.g.ping ≠ .absent ↔ ping.isSome) ∧ s'.g.wg = (if ping.isSome then 4 else 3) := by
  simp only [Go.Life.step] at hs
  split at hs
  · simp only [Option.some.injEq] at hs
    subst hs
    cases ping <;> simp
  · simp at hs

end Props.C18
