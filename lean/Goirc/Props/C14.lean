import Goirc.Model.Snapshot
import Goirc.Model.Locked
import Goirc.Model.Tracker
import Goirc.Proofs.C14
/-!
# C14 — Tracker answers are private snapshots, and the tracker is safe to share

> Values returned by the tracker are copies: changing them never alters tracker state, and later
> tracker changes never alter a value returned earlier. Calls made concurrently from any number
> of goroutines are free of data races and behave as if executed one at a time in an order
> consistent with real time.

First half: heap model of `Nick()` / `Channel()` / `Copy()`; every exported method returns only
`nil` or the result of one of those (fact `trackerReturns`).  Second half: every exported method is
`Lock; defer Unlock; body` (fact `trackerLockDiscipline`), so the generic mutex LTS applies with
`f := Go.Tracker.step`; by C12 the sequential behaviour is the relational Spec's.  Data-race freedom
proper is a property of the Go memory model: it is argued from the lock discipline (every access to
shared state happens while holding the mutex - `access_only_by_holder`) and checked with the race
detector by the correspondence.
-/
namespace Props.C14
open Go.Snapshot

/-- every reference reachable from a returned snapshot was allocated by the call that returned it -/
theorem snapshot_fresh (h : Heap) (x : Internal) (hb : Bounded h) :
    ∀ r ∈ reach (snapshot h x).1 (snapshot h x).2, h.next ≤ r ∧ r < (snapshot h x).1.next := by
  obtain ⟨_, hnext, _, _, hmodes, hmem, _, es, hes, hrefs, _⟩ := snapshot_spec h x hb
  intro r hr
  simp only [reach, hes, List.mem_cons, List.mem_map] at hr
  rw [hnext]
  rcases hr with e | e | ⟨e, he, rfl⟩
  · rw [e, hmodes]; unfold Ref at *; omega
  · rw [e, hmem]; unfold Ref at *; omega
  · have := hrefs e he; unfold Ref at *; omega

/-- the snapshot shows exactly what the tracker held at that moment -/
theorem snapshot_equal (h : Heap) (x : Internal) (hb : Bounded h)
    (hm : ∃ f, read h x.modes = some (.record f)) (hc : ∀ e ∈ x.cells, ∃ f, read h e.2 = some (.record f)) :
    view (snapshot h x).1 (snapshot h x).2 = viewInternal h x := by
  obtain ⟨_, _, _, hsc, _, _, hrm, es, hes, _, hcont⟩ := snapshot_spec h x hb
  obtain ⟨fm, hfm⟩ := hm
  simp only [view, viewInternal, hes, hsc, hrm]
  rw [copyObj_of_record hfm, hcont (fun e he => by obtain ⟨f, hf⟩ := hc e he; exact lt_next_of_read hb hf)]
  congr 2
  apply List.map_congr_left
  intro e he
  obtain ⟨f, hf⟩ := hc e he
  rw [copyObj_of_record hf]

/-- taking a snapshot changes nothing the tracker owns -/
theorem snapshot_preserves (h : Heap) (x : Internal) (hb : Bounded h) (r : Ref) (hr : r < h.next) :
    read (snapshot h x).1 r = read h r := by
  exact (snapshot_spec h x hb).2.2.1 r hr

/-- changing a returned value never alters tracker state: writes through references reachable from the
snapshot leave every object that existed before the call untouched -/
theorem caller_writes_invisible (h : Heap) (x : Internal) (hb : Bounded h) (ws : List (Ref × Obj))
    (hws : ∀ w ∈ ws, w.1 ∈ reach (snapshot h x).1 (snapshot h x).2) (r : Ref) (hr : r < h.next) :
    read (applyWrites (snapshot h x).1 ws) r = read h r := by
  rw [read_applyWrites, snapshot_preserves h x hb r hr]
  intro w hw e
  have := (snapshot_fresh h x hb w.1 (hws w hw)).1
  rw [e] at this
  exact Nat.lt_irrefl _ (Nat.lt_of_lt_of_le hr this)

/-- later tracker changes never alter a value returned earlier: any writes to objects that existed before
the call (everything the tracker owns) or to objects allocated after it leave the snapshot's view unchanged -/
theorem tracker_writes_invisible (h : Heap) (x : Internal) (hb : Bounded h) (ws : List (Ref × Obj))
    (hws : ∀ w ∈ ws, w.1 < h.next ∨ (snapshot h x).1.next ≤ w.1) :
    view (applyWrites (snapshot h x).1 ws) (snapshot h x).2 = view (snapshot h x).1 (snapshot h x).2 := by
  have hfresh := snapshot_fresh h x hb
  have hkeep : ∀ r ∈ reach (snapshot h x).1 (snapshot h x).2,
      read (applyWrites (snapshot h x).1 ws) r = read (snapshot h x).1 r := by
    intro r hr
    apply read_applyWrites
    intro w hw e
    have h1 := hfresh r hr
    have h2 := hws w hw
    rw [e] at h2
    unfold Ref at *
    omega
  have hmodes := hkeep (snapshot h x).2.modes (by simp [reach])
  have hmem := hkeep (snapshot h x).2.members (by simp [reach])
  simp only [view, hmodes, hmem]
  congr 2
  cases hr : read (snapshot h x).1 (snapshot h x).2.members with
  | none => rfl
  | some o =>
    cases o with
    | record f => rfl
    | map es =>
      simp only
      apply List.map_congr_left
      intro e he
      rw [hkeep e.2 (by simp only [reach, hr, List.mem_cons, List.mem_map]; exact Or.inr (Or.inr ⟨e, he, rfl⟩))]

section locked
open Go.Locked
variable {σ Op Ret : Type}

/-- **atomicity**: in every reachable state the object is what running the operations one at a time, in
lock-acquisition order, produces, and every recorded return value is the sequential one -/
theorem locked_ops_atomic (f : σ → Op → σ × Ret) (x : σ) {s : St σ Op Ret} (h : Reach f x s) :
    seqRun f x (s.hist.map (·.2.1)) = (s.obj, s.hist.map (·.2.2)) := by
  exact atomic f x h

/-- the shared object is read or written only by the thread that holds the mutex -/
theorem access_only_by_holder (f : σ → Op → σ × Ret) (x : σ) {s s' : St σ Op Ret} (h : Reach f x s)
    (t : Tid) (hs : step f s (.body t) = some s') : s.mu = some t := by
  obtain ⟨o, hp, _⟩ := step_body hs
  exact muInv f x h t (Or.inl ⟨o, hp⟩)

/-- **consistent with real time**: if operation A returned before operation B was called (in the real-time
log), then A comes before B in the serial order.

B's place in the serial order is the last entry `(tb, ob, _)` of `hist`.  Hypothesis `hdone` (B's body has run:
thread `tb` is not still waiting for, or holding, the mutex on behalf of `ob`) was missing from the first
version of this statement, which is false without it: `tb` runs `ob` to completion, then A runs to
completion, then `tb` calls `ob` again and is still waiting - the only `(tb, ob, _)` entry of `hist` is the
one of the first call, and it precedes A.  `order_respects_real_time_nth` below pins down B's entry exactly. -/
theorem order_respects_real_time (f : σ → Op → σ × Ret) (x : σ) {s : St σ Op Ret} (h : Reach f x s)
    (i j : Nat) (ta tb : Tid) (oa ob : Op) (ra : Ret)
    (hi : s.log[i]? = some (.ret ta oa ra)) (hj : s.log[j]? = some (.call tb ob)) (hij : i < j)
    (hdone : s.pc tb ≠ .waiting ob ∧ s.pc tb ≠ .holding ob)
    (rb : Ret) (kb : Nat) (hkb : s.hist[kb]? = some (tb, ob, rb))
    (hlast : ∀ k', kb < k' → ∀ r', s.hist[k']? ≠ some (tb, ob, r')) :
    ∃ ka, ka < kb ∧ s.hist[ka]? = some (ta, oa, ra) := by
  obtain ⟨st, I⟩ := inv f x h
  rcases I.call j tb ob hj with (h1 | h1) | ⟨k, r, n, h1, h2, h3⟩
  · exact absurd h1 hdone.1
  · exact absurd h1 hdone.2
  · have hk : k ≤ kb := by
      rcases Nat.lt_or_ge kb k with h' | h'
      · exact absurd h1 (hlast k h' r)
      · exact h'
    have hlen : kb < st.length := by rw [I.len]; exact lt_length_of_getElem? hkb
    have hst : st[kb]? = some st[kb] := List.getElem?_eq_getElem hlen
    have := I.mono k kb n st[kb] hk h2 hst
    exact I.before hi hij hst (by omega)

/-- the same, with B's entry identified exactly: each thread runs its operations one after the other, so the
n-th call event of thread `tb` in the log belongs to the n-th entry of thread `tb` in `hist`.  If A returned
before B's call event (position `j`), and `kb` is the entry of that very call, then A's entry comes first. -/
theorem order_respects_real_time_nth (f : σ → Op → σ × Ret) (x : σ) {s : St σ Op Ret} (h : Reach f x s)
    (i j : Nat) (ta tb : Tid) (oa ob ob' : Op) (ra : Ret)
    (hi : s.log[i]? = some (.ret ta oa ra)) (hj : s.log[j]? = some (.call tb ob')) (hij : i < j)
    (rb : Ret) (kb : Nat) (hkb : s.hist[kb]? = some (tb, ob, rb))
    (hnth : (s.hist.take (kb + 1)).countP (fun e => e.1 == tb) =
      (s.log.take (j + 1)).countP (fun e => match e with | .call t _ => t == tb | _ => false)) :
    ∃ ka, ka < kb ∧ s.hist[ka]? = some (ta, oa, ra) := by
  obtain ⟨st, I⟩ := inv f x h
  have hlen : kb < st.length := by rw [I.len]; exact lt_length_of_getElem? hkb
  have hst : st[kb]? = some st[kb] := List.getElem?_eq_getElem hlen
  have hp : (fun e : Ev Op Ret => match e with | .call t _ => t == tb | _ => false) = isCallBy tb := by
    funext e; cases e <;> rfl
  rw [hp] at hnth
  exact I.before hi hij hst (I.stamp_after hj hkb hnth hst)

/-- every return in the log is the return value the serial order gives that operation -/
theorem returns_are_serial (f : σ → Op → σ × Ret) (x : σ) {s : St σ Op Ret} (h : Reach f x s)
    (t : Tid) (o : Op) (r : Ret) (hr : Ev.ret t o r ∈ s.log) : (t, o, r) ∈ s.hist := by
  obtain ⟨st, I⟩ := inv f x h
  obtain ⟨i, hi⟩ := List.getElem?_of_mem hr
  obtain ⟨k, _, hk, _⟩ := I.ret i t o r hi
  exact List.mem_of_getElem? hk

end locked

/-- instantiation: concurrent use of the tracker behaves as the sequential tracker model (and hence, by
Props.C12.tracker_refines, as the relational Spec) on the operations in lock order -/
theorem tracker_linearizable (me : Bytes) {s : Go.Locked.St Go.Tracker.St Go.Tracker.Op Go.Tracker.Ret}
    (h : Go.Locked.Reach Go.Tracker.step (Go.Tracker.new me) s) :
    Go.Locked.seqRun Go.Tracker.step (Go.Tracker.new me) (s.hist.map (·.2.1)) = (s.obj, s.hist.map (·.2.2)) := by
  exact locked_ops_atomic Go.Tracker.step (Go.Tracker.new me) h

end Props.C14
