import Goirc.Gen.Pure
/-!
# Sanity checks of the generated definitions on concrete inputs

Expected values were produced by running the real Go code (`go run -tags verif` of a scratch driver
over `client.VerifSplitMessage`, `client.ParseLine`, …; see REPORT.md, "Differential test": 5030 cases,
of which these are a hand-picked few).  `lit "…"` is the ASCII literal as bytes.  Every check is
`by decide`: the kernel evaluates the generated `do`-blocks, fuel loops included.
-/
open Go Go.Rt
namespace Gen.Smoke

/-- the tests keep everything that reaches `strings.ToUpper` ASCII, so the extension is never consulted -/
def ext : UnicodeExt := ⟨id, id⟩

/-! ## the prelude panics exactly where Go does -/
-- "hello"[5]: index out of range [5] with length 5;  "hello"[-1]
example : Rt.idx (lit "hello") 5 = .error (.index 5 5) := by decide
example : Rt.idx (lit "hello") (-1) = .error (.index (-1) 5) := by decide
example : Rt.idx (lit "hello") 1 = .ok 101 := by decide
-- "hello"[4:2], "hello"[:6], "hello"[6:], "hello"[1:3], "hello"[5:]
example : Rt.slice (lit "hello") 4 2 = .error (.slice 4 2 5) := by decide
example : Rt.sliceTo (lit "hello") 6 = .error (.slice 0 6 5) := by decide
example : Rt.sliceFrom (lit "hello") 6 = .error (.slice 6 5 5) := by decide
example : Rt.slice (lit "hello") 1 3 = .ok (lit "el") := by decide
example : Rt.sliceFrom (lit "hello") 5 = .ok [] := by decide
-- []string{"a","b","c"}[3] = "Z";  var m map[string]string; m["a"] = "b"
example : Rt.setIdx [lit "a", lit "b", lit "c"] 3 (lit "Z") = .error (.index 3 3) := by decide
example : Rt.mapSet none (lit "a") (lit "b") = .error .nilMap := by decide
example : Rt.mapSet (some [(lit "a", lit "x")]) (lit "a") (lit "b") = .ok (some [(lit "a", lit "b")]) := by decide
-- strings.NewReplacer("a","1","ab","2").Replace("ab") = "1b": argument order wins, not length
example : Rt.replace [(lit "a", lit "1"), (lit "ab", lit "2")] (lit "ab") = lit "1b" := by decide
example : Rt.replace tagsReplacer (lit "a\\sb\\\\s\\:\\x\\") = lit "a b\\s;\\x\\" := by decide
example : Rt.splitN (lit "a b c") (lit " ") 2 = [lit "a", lit "b c"] := by decide
example : Rt.splitN (lit "a b c") (lit " ") 0 = [] := by decide
example : Rt.split (lit ";a;;b") (lit ";") = [[], lit "a", [], lit "b"] := by decide
example : Rt.lastIndex (lit "a. b. c") (lit ". ") = 4 := by decide
example : Rt.lastIndex (lit "abc") [] = 3 := by decide

/-! ## client/commands.go -/
example : cutNewLines (lit "PRIVMSG #c :hi\r\nQUIT") = .ok (lit "PRIVMSG #c :hi") := by decide
example : cutNewLines (lit "a\nb\rc") = .ok (lit "a") := by decide
example : cutNewLines [] = .ok [] := by decide

example : indexFragment (lit "x. y: z") = .ok 6 := by decide
example : indexFragment (lit "foo ") = .ok 4 := by decide
example : indexFragment (lit ". ") = .ok 2 := by decide      -- max = 0 is not > 0; the lone-space rule gives 1+1
example : indexFragment (lit " a") = .ok (-1) := by decide   -- a space at index 0 does not count
example : indexFragment (lit "abc") = .ok (-1) := by decide

-- splitMessage("foo.'  foo. b' .\" a.  . \r\"  \n: ..", 16)
example : splitMessage (lit "foo.'  foo. b' .\" a.  . \r\"  \n: ..") 16
    = .ok [lit "foo.'  foo. ...", lit "b' .\" a.  . ...", lit "\r\"  \n: .."] := by decide
-- splitLen < 13 means 450: nothing to split
example : splitMessage (lit "foo' . ? barb\" ") (-5) = .ok [lit "foo' . ? barb\" "] := by decide
-- no space at all: cut at splitLen-3
example : splitMessage (lit "xxxxxxxxxxxxxxxxxxxxxxxxx") 13
    = .ok [lit "xxxxxxxxxx...", lit "xxxxxxxxxx...", lit "xxxxx"] := by decide

example : splitArgs [lit "x", lit "x", lit "ax"] 8 = .ok [lit "x x ax"] := by decide
example : splitArgs [lit "a", [], lit "aa", lit "x", []] 3 = .ok [lit "a ", lit "aa", lit "x "] := by decide
example : splitArgs [] 10 = .ok [] := by decide
example : splitArgs [lit "bcx"] (-1) = .ok [lit "bcx"] := by decide

/-! ## client/connection.go -/
example : hasPort (lit "host:6667") = .ok true := by decide
example : hasPort (lit "[::1]") = .ok false := by decide
example : hasPort (lit "[::1]:6667") = .ok true := by decide
example : hasPort [] = .ok false := by decide

/-! ## client/line.go -/
example : parseUserHost (lit "nick!user@host") = .ok (lit "nick", lit "user", lit "host", true) := by decide
example : parseUserHost (lit "nick@host!user") = .ok ([], [], [], false) := by decide
example : parseUserHost (lit " n!u@h ") = .ok (lit "n", lit "u", lit "h", true) := by decide
example : parseUserHost (lit "!!@@") = .ok ([], lit "!", lit "@", true) := by decide
example : parseUserHost (lit "a!b") = .ok ([], [], [], false) := by decide

example : ParseLine ext [] = .ok none := by decide
example : ParseLine ext (lit "@a=b") = .ok none := by decide
example : ParseLine ext (lit ":a") = .ok none := by decide
example : ParseLine ext (lit "  ") = .ok none := by decide
example : ParseLine ext (lit "ping :x") = .ok (some { Raw := lit "ping :x", Cmd := lit "PING", Args := [lit "x"] }) := by decide
example : ParseLine ext (lit ":n!u@h PRIVMSG #c :hi there")
    = .ok (some { Raw := lit ":n!u@h PRIVMSG #c :hi there", Src := lit "n!u@h", Nick := lit "n", Ident := lit "u", Host := lit "h",
                  Cmd := lit "PRIVMSG", Args := [lit "#c", lit "hi there"] }) := by decide
-- CTCP ACTION becomes its own command; the verb is upper-cased; Args[1] is rewritten in place
example : ParseLine ext (lit ":n!u@h PRIVMSG #c :\x01action waves\x01")
    = .ok (some { Raw := lit ":n!u@h PRIVMSG #c :\x01action waves\x01", Src := lit "n!u@h", Nick := lit "n", Ident := lit "u", Host := lit "h",
                  Cmd := lit "ACTION", Args := [lit "#c", lit "waves"] }) := by decide
-- other CTCPs: the verb is prepended to Args
example : ParseLine ext (lit ":n!u@h NOTICE me :\x01VERSION x y\x01")
    = .ok (some { Raw := lit ":n!u@h NOTICE me :\x01VERSION x y\x01", Src := lit "n!u@h", Nick := lit "n", Ident := lit "u", Host := lit "h",
                  Cmd := lit "CTCPREPLY", Args := [lit "VERSION", lit "me", lit "x y"] }) := by decide
example : ParseLine ext (lit ":n!u@h PRIVMSG me :\x01\x01\x01")
    = .ok (some { Raw := lit ":n!u@h PRIVMSG me :\x01\x01\x01", Src := lit "n!u@h", Nick := lit "n", Ident := lit "u", Host := lit "h",
                  Cmd := lit "CTCP", Args := [[], lit "me", lit "\x01\x01\x01"] }) := by decide
-- tags: escapes, key-only tags, a repeated key keeps its first position and takes the last value
example : ParseLine ext (lit "@a=b;c;d=\\s\\:e;;a=z :srv 001 me :hi")
    = .ok (some { Raw := lit "@a=b;c;d=\\s\\:e;;a=z :srv 001 me :hi", Src := lit "srv", Host := lit "srv", Cmd := lit "001",
                  Tags := some [(lit "a", lit "z"), (lit "c", []), (lit "d", lit " ;e")], Args := [lit "me", lit "hi"] }) := by decide

example : Line_Text { Cmd := lit "PRIVMSG", Args := [lit "#c", lit "x"] } = .ok (lit "x") := by decide
example : Line_Text { Cmd := lit "PRIVMSG" } = .ok [] := by decide
example : Line_Public { Cmd := lit "PRIVMSG", Args := [lit "#c"] } = .ok true := by decide
example : Line_Public { Cmd := lit "PRIVMSG", Args := [[]] } = .ok false := by decide
example : Line_Public { Cmd := lit "CTCP", Args := [lit "X", lit "+c", lit "t"] } = .ok true := by decide
example : Line_Public { Cmd := lit "CTCP", Args := [lit "#c"] } = .ok false := by decide
example : Line_Public { Cmd := lit "JOIN", Args := [lit "#c"] } = .ok false := by decide
example : Line_Target { Cmd := lit "PRIVMSG", Nick := lit "nk", Args := [lit "&c", lit "x"] } = .ok (lit "&c") := by decide
example : Line_Target { Cmd := lit "PRIVMSG", Nick := lit "nk", Args := [lit "me"] } = .ok (lit "nk") := by decide
example : Line_Target { Cmd := lit "CTCP", Nick := lit "nk", Args := [lit "X", lit "#c"] } = .ok (lit "#c") := by decide
example : Line_Target { Cmd := lit "CTCP", Nick := lit "nk", Args := [lit "X"] } = .ok (lit "nk") := by decide
example : Line_Target { Cmd := lit "JOIN", Nick := lit "nk", Args := [lit "a", lit "b"] } = .ok (lit "a") := by decide
example : Line_Target { Cmd := [], Nick := lit "nk" } = .ok [] := by decide

/-! ## v2: command methods of `*Conn` (client/commands.go)

The expected queues are what `client.VerifCapture(conn, func(){ conn.Join("#c", "k") })` returned for a
`client.Client(cfg)` with the given `SplitLen` and the default `QuitMessage` ("GoBye!"); the text below was
printed by a Go program (scratch/smokego2), not typed.  The result is the whole new `Conn`: config untouched, the
lines appended to `out`. -/
def c0 : Conn := { cfg := { SplitLen := 450, QuitMessage := lit "GoBye!" } }
def c20 : Conn := { cfg := { SplitLen := 20, QuitMessage := lit "GoBye!" } }
def c5 : Conn := { cfg := { SplitLen := 5, QuitMessage := lit "GoBye!" } }   -- < 13: splitMessage uses 450

example : Conn_Raw c0 (lit "PRIVMSG #c :hi\x0d\x0aQUIT :injected") = .ok { c0 with out := [lit "PRIVMSG #c :hi"] } := by decide
example : Conn_Raw c0 [] = .ok { c0 with out := [[]] } := by decide
example : Conn_Pass c0 (lit "secret") = .ok { c0 with out := [lit "PASS secret"] } := by decide
example : Conn_Nick c0 (lit "me\x0aOPER x y") = .ok { c0 with out := [lit "NICK me"] } := by decide
example : Conn_User c0 (lit "id") (lit "Real Name") = .ok { c0 with out := [lit "USER id 12 * :Real Name"] } := by decide
example : Conn_Join c0 (lit "#c") [] = .ok { c0 with out := [lit "JOIN #c"] } := by decide
example : Conn_Join c0 (lit "#c") [lit "k"] = .ok { c0 with out := [lit "JOIN #c k"] } := by decide
example : Conn_Join c0 (lit "#c") [lit "k", lit "ignored"] = .ok { c0 with out := [lit "JOIN #c k"] } := by decide
example : Conn_Part c0 (lit "#c") [] = .ok { c0 with out := [lit "PART #c"] } := by decide
example : Conn_Part c0 (lit "#c") [lit "bye", lit "now"] = .ok { c0 with out := [lit "PART #c :bye now"] } := by decide
example : Conn_Kick c0 (lit "#c") (lit "bob") [] = .ok { c0 with out := [lit "KICK #c bob"] } := by decide
example : Conn_Kick c0 (lit "#c") (lit "bob") [lit "go", lit "away"] = .ok { c0 with out := [lit "KICK #c bob :go away"] } := by decide
example : Conn_Quit c0 [] = .ok { c0 with out := [lit "QUIT :GoBye!"] } := by decide
example : Conn_Quit c0 [lit "so", lit "long"] = .ok { c0 with out := [lit "QUIT :so long"] } := by decide
example : Conn_Quit c0 [[]] = .ok { c0 with out := [lit "QUIT :GoBye!"] } := by decide
example : Conn_Whois c0 (lit "bob") = .ok { c0 with out := [lit "WHOIS bob"] } := by decide
example : Conn_Who c0 (lit "bob") = .ok { c0 with out := [lit "WHO bob"] } := by decide
example : Conn_Privmsg c0 (lit "#c") (lit "hello there") = .ok { c0 with out := [lit "PRIVMSG #c :hello there"] } := by decide
example : Conn_Privmsg c20 (lit "#c") (lit "one two. three four five six") = .ok { c20 with out := [lit "PRIVMSG #c :one two. ...", lit "PRIVMSG #c :three four five six"] } := by decide
example : Conn_Privmsg c5 (lit "#c") (lit "one two. three four five six") = .ok { c5 with out := [lit "PRIVMSG #c :one two. three four five six"] } := by decide
example : Conn_Notice c20 (lit "bob") (lit "aaaaaaaaaaaaaaaaaaaaaaaaa") = .ok { c20 with out := [lit "NOTICE bob :aaaaaaaaaaaaaaaaa...", lit "NOTICE bob :aaaaaaaa"] } := by decide
example : Conn_Notice c0 (lit "bob") [] = .ok { c0 with out := [lit "NOTICE bob :"] } := by decide
example : Conn_Ctcp ext c0 (lit "bob") (lit "ping") [lit "1", lit "2"] = .ok { c0 with out := [lit "PRIVMSG bob :\x01PING 1 2\x01"] } := by decide
example : Conn_Ctcp ext c0 (lit "bob") (lit "time") [] = .ok { c0 with out := [lit "PRIVMSG bob :\x01TIME\x01"] } := by decide
example : Conn_Ctcp ext c20 (lit "bob") (lit "x") [lit "one two. three four five six"] = .ok { c20 with out := [lit "PRIVMSG bob :\x01X one two. ...\x01", lit "PRIVMSG bob :\x01X three four five six\x01"] } := by decide
example : Conn_CtcpReply ext c0 (lit "bob") (lit "version") [lit "goirc"] = .ok { c0 with out := [lit "NOTICE bob :\x01VERSION goirc\x01"] } := by decide
example : Conn_Version ext c0 (lit "bob") = .ok { c0 with out := [lit "PRIVMSG bob :\x01VERSION\x01"] } := by decide
example : Conn_Action ext c0 (lit "#c") (lit "waves") = .ok { c0 with out := [lit "PRIVMSG #c :\x01ACTION waves\x01"] } := by decide
example : Conn_Action ext c0 (lit "#c") [] = .ok { c0 with out := [lit "PRIVMSG #c :\x01ACTION\x01"] } := by decide
example : Conn_Topic c0 (lit "#c") [] = .ok { c0 with out := [lit "TOPIC #c"] } := by decide
example : Conn_Topic c0 (lit "#c") [lit "new", lit "topic"] = .ok { c0 with out := [lit "TOPIC #c :new topic"] } := by decide
example : Conn_Mode c0 (lit "#c") [] = .ok { c0 with out := [lit "MODE #c"] } := by decide
example : Conn_Mode c0 (lit "#c") [lit "+nsk", lit "key"] = .ok { c0 with out := [lit "MODE #c +nsk key"] } := by decide
example : Conn_Away c0 [] = .ok { c0 with out := [lit "AWAY"] } := by decide
example : Conn_Away c0 [lit "gone", lit "fishing"] = .ok { c0 with out := [lit "AWAY :gone fishing"] } := by decide
example : Conn_Invite c0 (lit "bob") (lit "#c") = .ok { c0 with out := [lit "INVITE bob #c"] } := by decide
example : Conn_Oper c0 (lit "u") (lit "p") = .ok { c0 with out := [lit "OPER u p"] } := by decide
example : Conn_VHost c0 (lit "u") (lit "p") = .ok { c0 with out := [lit "VHOST u p"] } := by decide
example : Conn_Ping c0 (lit "123") = .ok { c0 with out := [lit "PING :123"] } := by decide
example : Conn_Pong c0 (lit "123") = .ok { c0 with out := [lit "PONG :123"] } := by decide
example : Conn_Cap c0 (lit "LS") [] = .ok { c0 with out := [lit "CAP LS"] } := by decide
example : Conn_Cap c0 (lit "REQ") [lit "sasl", lit "multi-prefix"] = .ok { c0 with out := [lit "CAP REQ :sasl multi-prefix"] } := by decide
-- 120 capabilities do not fit into one 450-byte line: splitArgs cuts after the 73rd
set_option maxRecDepth 20000 in
example : Conn_Cap c0 (lit "REQ") (List.replicate 120 (lit "capab")) = .ok { c0 with out := [lit "CAP REQ :" ++ join (lit " ") (List.replicate 73 (lit "capab")), lit "CAP REQ :" ++ join (lit " ") (List.replicate 47 (lit "capab"))] } := by decide
example : Conn_Authenticate c0 (lit "+") = .ok { c0 with out := [lit "AUTHENTICATE +"] } := by decide

-- the queue is FIFO across calls: conn.Nick("a"); conn.Join("#c"); conn.Quit()
example : (do let c ← Conn_Nick c0 (lit "a"); let c ← Conn_Join c (lit "#c") []; Conn_Quit c [])
    = .ok { c0 with out := [lit "NICK a", lit "JOIN #c", lit "QUIT :GoBye!"] } := by decide

/-! ## v2: `DefaultNewNick` (client/connection.go) -/
example : DefaultNewNick [] = .ok (lit "_") := by decide
example : DefaultNewNick (lit "nick") = .ok (lit "nicl") := by decide
example : DefaultNewNick (lit "nick9") = .ok (lit "nick0") := by decide
example : DefaultNewNick (lit "nick0") = .ok (lit "nick1") := by decide
example : DefaultNewNick (lit "nickZ") = .ok (lit "nick[") := by decide
example : DefaultNewNick (lit "nick}") = .ok (lit "nickA") := by decide
example : DefaultNewNick (lit "nick|") = .ok (lit "nick}") := by decide
example : DefaultNewNick (lit "nick~") = .ok (lit "nick_") := by decide
example : DefaultNewNick (lit "n!") = .ok (lit "n_") := by decide
example : DefaultNewNick (lit "\xc3\xa9") = .ok (lit "\xc3_") := by decide
-- string(b) for a byte is the UTF-8 encoding of code point b: string(rune(0xe9)) = "\xc3\xa9"
example : Rt.byteString 0x41 = [0x41] := by decide
example : Rt.byteString 0xe9 = [0xc3, 0xa9] := by decide
example : Rt.byteString 0x80 = [0xc2, 0x80] := by decide

/-! ## v2: `capSet` (client/handlers.go); the receiver is threaded through `Add` / `Clear`
Go (hook added to a scratch copy of the repo): c := capabilitySet(); c.Add("sasl", "-away", "x");
Has("sasl"), Has("away"), Has("nope"), Size() = true, false, false, 3; c.Add("-sasl"); Has("sasl"), Size() = false, 3;
c.Clear(); Size() = 0.  `(&capSet{}).Add("x")` panics: assignment to entry in nil map. -/
def caps1 : capSet := { caps := some [(lit "sasl", true), (lit "away", false), (lit "x", true)] }
example : capSet_Add { caps := some [] } [lit "sasl", lit "-away", lit "x"] = .ok caps1 := by decide
example : capSet_Has caps1 (lit "sasl") = .ok true := by decide
example : capSet_Has caps1 (lit "away") = .ok false := by decide
example : capSet_Has caps1 (lit "nope") = .ok false := by decide
example : capSet_Size caps1 = .ok 3 := by decide
example : capSet_Add caps1 [lit "-sasl"] = .ok { caps := some [(lit "sasl", false), (lit "away", false), (lit "x", true)] } := by decide
example : capSet_Clear caps1 = .ok { caps := some [] } := by decide
example : capSet_Size { caps := some [] } = .ok 0 := by decide
example : capSet_Add {} [lit "x"] = .error .nilMap := by decide
example : capSet_Add {} [] = .ok {} := by decide
example : capSet_Has {} (lit "x") = .ok false := by decide

/-! ## v2.5: the simple built-in handlers (client/handlers.go) and `(*Line).argslen`

Expected values: `client.VerifCapture(conn, func(){ client.VerifDispatchInternal(conn, line) })` on
`client.Client(client.NewConfig("me", "id", "Real Name"))` — the real dispatcher, which for these commands runs exactly the
one handler — with a `cfg.Recover` that records the panic (printed by scratch/smokego3, not typed).  A Go panic in the
handler is the `.error` of the generated def. -/
def hcfg : Config := { Me := { Nick := lit "me", Ident := lit "id", Name := lit "Real Name" }, Version := lit "Powered by GoIRC", QuitMessage := lit "GoBye!", SplitLen := 450 }
def hc0 : Conn := { cfg := hcfg }
def hc1 : Conn := { cfg := { hcfg with EnableCapabilityNegotiation := true, Pass := lit "secret" } }
def hc20 : Conn := { cfg := { hcfg with SplitLen := 20 } }

example : Conn_h_PING hc0 { Cmd := lit "PING", Nick := [], Args := [lit "12345"] } = .ok { hc0 with out := [lit "PONG :12345"] } := by decide
example : Conn_h_PING hc0 { Cmd := lit "PING", Nick := [], Args := [lit "a\x0d\x0ab", lit "ignored"] } = .ok { hc0 with out := [lit "PONG :a"] } := by decide
-- Go: runtime error: index out of range [0] with length 0
example : Conn_h_PING hc0 { Cmd := lit "PING", Nick := [], Args := [] } = .error (.index 0 0) := by decide
example : Conn_h_REGISTER hc0 { Cmd := lit "REGISTER", Nick := [], Args := [] } = .ok { hc0 with out := [lit "NICK me", lit "USER id 12 * :Real Name"] } := by decide
example : Conn_h_REGISTER hc1 { Cmd := lit "REGISTER", Nick := [], Args := [] } = .ok { hc1 with out := [lit "CAP LS", lit "PASS secret", lit "NICK me", lit "USER id 12 * :Real Name"] } := by decide
example : Conn_h_410 hc0 { Cmd := lit "410", Nick := [], Args := [lit "me", lit "FOO", lit "Invalid CAP command"] } = .ok { hc0 with out := [] } := by decide
-- Go: runtime error: index out of range [1] with length 1
example : Conn_h_410 hc0 { Cmd := lit "410", Nick := [], Args := [lit "me"] } = .error (.index 1 1) := by decide
example : Conn_h_903 hc0 { Cmd := lit "903", Nick := [], Args := [lit "me", lit "SASL authentication successful"] } = .ok { hc0 with out := [lit "CAP END"] } := by decide
example : Conn_h_903 hc0 { Cmd := lit "903", Nick := [], Args := [] } = .ok { hc0 with out := [lit "CAP END"] } := by decide
example : Conn_h_904 hc0 { Cmd := lit "904", Nick := [], Args := [] } = .ok { hc0 with out := [lit "CAP END"] } := by decide
example : Conn_h_908 hc0 { Cmd := lit "908", Nick := [], Args := [lit "me", lit "PLAIN,EXTERNAL", lit "are available"] } = .ok { hc0 with out := [lit "CAP END"] } := by decide
-- Go: runtime error: index out of range [1] with length 1
example : Conn_h_908 hc0 { Cmd := lit "908", Nick := [], Args := [lit "me"] } = .error (.index 1 1) := by decide
-- Go: runtime error: index out of range [1] with length 0
example : Conn_h_908 hc0 { Cmd := lit "908", Nick := [], Args := [] } = .error (.index 1 0) := by decide
example : Conn_h_CTCP ext hc0 { Cmd := lit "CTCP", Nick := lit "bob", Args := [lit "VERSION", lit "me"] } = .ok { hc0 with out := [lit "NOTICE bob :\x01VERSION Powered by GoIRC\x01"] } := by decide
example : Conn_h_CTCP ext hc0 { Cmd := lit "CTCP", Nick := lit "bob", Args := [lit "PING", lit "me", lit "1234 5678"] } = .ok { hc0 with out := [lit "NOTICE bob :\x01PING 1234 5678\x01"] } := by decide
example : Conn_h_CTCP ext hc0 { Cmd := lit "CTCP", Nick := lit "bob", Args := [lit "PING", lit "me"] } = .ok { hc0 with out := [] } := by decide
example : Conn_h_CTCP ext hc0 { Cmd := lit "CTCP", Nick := lit "bob", Args := [lit "PING"] } = .ok { hc0 with out := [] } := by decide
example : Conn_h_CTCP ext hc0 { Cmd := lit "CTCP", Nick := lit "bob", Args := [lit "TIME", lit "me", lit "x"] } = .ok { hc0 with out := [] } := by decide
example : Conn_h_CTCP ext hc0 { Cmd := lit "CTCP", Nick := lit "bob", Args := [lit "ping", lit "me", lit "x"] } = .ok { hc0 with out := [] } := by decide
-- Go: runtime error: index out of range [0] with length 0
example : Conn_h_CTCP ext hc0 { Cmd := lit "CTCP", Nick := lit "bob", Args := [] } = .error (.index 0 0) := by decide
example : Conn_h_CTCP ext hc20 { Cmd := lit "CTCP", Nick := lit "bob", Args := [lit "PING", lit "me", lit "one two. three four five six"] } = .ok { hc20 with out := [lit "NOTICE bob :\x01PING one two. ...\x01", lit "NOTICE bob :\x01PING three four five six\x01"] } := by decide

-- argslen(n) is len(Args) > n; the logging / runtime calls in it are dropped
example : Line_argslen { Args := [] } 0 = .ok false := by decide
example : Line_argslen { Args := [lit "a"] } 0 = .ok true := by decide
example : Line_argslen { Args := [lit "a", lit "b"] } 2 = .ok false := by decide
example : Line_argslen { Args := [lit "a", lit "b", lit "c"] } 2 = .ok true := by decide
example : Line_argslen { Args := [lit "a"] } (-1) = .ok true := by decide

/-! No input makes the CURRENT Go source of these functions panic (all indexing is guarded), so there is
no `.error` example on a generated def here.  REPORT.md lists the edited variants of the source
(guards removed, statements swapped) on which Go panics and the regenerated defs give the same `.error`. -/

end Gen.Smoke
