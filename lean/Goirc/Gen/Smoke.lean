import Goirc.Gen.Pure
/-!
# Sanity checks of the generated definitions on concrete inputs

Expected values were produced by running the real Go code (`go run -tags verif` of a scratch driver
over `client.VerifSplitMessage`, `client.ParseLine`, …; see REPORT.md, "Differential test": 5030 cases,
of which these are a hand-picked few).  `lit "…"` is the ASCII literal as bytes.  Every check is
`by decide`: the kernel evaluates the generated `do`-blocks, fuel loops included.
-/
open Go Go.Rt
namespace Gen.Smoke

/-- the tests keep everything that reaches `strings.ToUpper` ASCII, so the extension is never consulted -/
def ext : UnicodeExt := ⟨id, id⟩

/-! ## the prelude panics exactly where Go does -/
-- "hello"[5]: index out of range [5] with length 5;  "hello"[-1]
example : Rt.idx (lit "hello") 5 = .error (.index 5 5) := by decide
example : Rt.idx (lit "hello") (-1) = .error (.index (-1) 5) := by decide
example : Rt.idx (lit "hello") 1 = .ok 101 := by decide
-- "hello"[4:2], "hello"[:6], "hello"[6:], "hello"[1:3], "hello"[5:]
example : Rt.slice (lit "hello") 4 2 = .error (.slice 4 2 5) := by decide
example : Rt.sliceTo (lit "hello") 6 = .error (.slice 0 6 5) := by decide
example : Rt.sliceFrom (lit "hello") 6 = .error (.slice 6 5 5) := by decide
example : Rt.slice (lit "hello") 1 3 = .ok (lit "el") := by decide
example : Rt.sliceFrom (lit "hello") 5 = .ok [] := by decide
-- []string{"a","b","c"}[3] = "Z";  var m map[string]string; m["a"] = "b"
example : Rt.setIdx [lit "a", lit "b", lit "c"] 3 (lit "Z") = .error (.index 3 3) := by decide
example : Rt.mapSet none (lit "a") (lit "b") = .error .nilMap := by decide
example : Rt.mapSet (some [(lit "a", lit "x")]) (lit "a") (lit "b") = .ok (some [(lit "a", lit "b")]) := by decide
-- strings.NewReplacer("a","1","ab","2").Replace("ab") = "1b": argument order wins, not length
example : Rt.replace [(lit "a", lit "1"), (lit "ab", lit "2")] (lit "ab") = lit "1b" := by decide
example : Rt.replace tagsReplacer (lit "a\\sb\\\\s\\:\\x\\") = lit "a b\\s;\\x\\" := by decide
example : Rt.splitN (lit "a b c") (lit " ") 2 = [lit "a", lit "b c"] := by decide
example : Rt.splitN (lit "a b c") (lit " ") 0 = [] := by decide
example : Rt.split (lit ";a;;b") (lit ";") = [[], lit "a", [], lit "b"] := by decide
example : Rt.lastIndex (lit "a. b. c") (lit ". ") = 4 := by decide
example : Rt.lastIndex (lit "abc") [] = 3 := by decide

/-! ## client/commands.go -/
example : cutNewLines (lit "PRIVMSG #c :hi\r\nQUIT") = .ok (lit "PRIVMSG #c :hi") := by decide
example : cutNewLines (lit "a\nb\rc") = .ok (lit "a") := by decide
example : cutNewLines [] = .ok [] := by decide

example : indexFragment (lit "x. y: z") = .ok 6 := by decide
example : indexFragment (lit "foo ") = .ok 4 := by decide
example : indexFragment (lit ". ") = .ok 2 := by decide      -- max = 0 is not > 0; the lone-space rule gives 1+1
example : indexFragment (lit " a") = .ok (-1) := by decide   -- a space at index 0 does not count
example : indexFragment (lit "abc") = .ok (-1) := by decide

-- splitMessage("foo.'  foo. b' .\" a.  . \r\"  \n: ..", 16)
example : splitMessage (lit "foo.'  foo. b' .\" a.  . \r\"  \n: ..") 16
    = .ok [lit "foo.'  foo. ...", lit "b' .\" a.  . ...", lit "\r\"  \n: .."] := by decide
-- splitLen < 13 means 450: nothing to split
example : splitMessage (lit "foo' . ? barb\" ") (-5) = .ok [lit "foo' . ? barb\" "] := by decide
-- no space at all: cut at splitLen-3
example : splitMessage (lit "xxxxxxxxxxxxxxxxxxxxxxxxx") 13
    = .ok [lit "xxxxxxxxxx...", lit "xxxxxxxxxx...", lit "xxxxx"] := by decide

example : splitArgs [lit "x", lit "x", lit "ax"] 8 = .ok [lit "x x ax"] := by decide
example : splitArgs [lit "a", [], lit "aa", lit "x", []] 3 = .ok [lit "a ", lit "aa", lit "x "] := by decide
example : splitArgs [] 10 = .ok [] := by decide
example : splitArgs [lit "bcx"] (-1) = .ok [lit "bcx"] := by decide

/-! ## client/connection.go -/
example : hasPort (lit "host:6667") = .ok true := by decide
example : hasPort (lit "[::1]") = .ok false := by decide
example : hasPort (lit "[::1]:6667") = .ok true := by decide
example : hasPort [] = .ok false := by decide

/-! ## client/line.go -/
example : parseUserHost (lit "nick!user@host") = .ok (lit "nick", lit "user", lit "host", true) := by decide
example : parseUserHost (lit "nick@host!user") = .ok ([], [], [], false) := by decide
example : parseUserHost (lit " n!u@h ") = .ok (lit "n", lit "u", lit "h", true) := by decide
example : parseUserHost (lit "!!@@") = .ok ([], lit "!", lit "@", true) := by decide
example : parseUserHost (lit "a!b") = .ok ([], [], [], false) := by decide

example : ParseLine ext [] = .ok none := by decide
example : ParseLine ext (lit "@a=b") = .ok none := by decide
example : ParseLine ext (lit ":a") = .ok none := by decide
example : ParseLine ext (lit "  ") = .ok none := by decide
example : ParseLine ext (lit "ping :x") = .ok (some { Raw := lit "ping :x", Cmd := lit "PING", Args := [lit "x"] }) := by decide
example : ParseLine ext (lit ":n!u@h PRIVMSG #c :hi there")
    = .ok (some { Raw := lit ":n!u@h PRIVMSG #c :hi there", Src := lit "n!u@h", Nick := lit "n", Ident := lit "u", Host := lit "h",
                  Cmd := lit "PRIVMSG", Args := [lit "#c", lit "hi there"] }) := by decide
-- CTCP ACTION becomes its own command; the verb is upper-cased; Args[1] is rewritten in place
example : ParseLine ext (lit ":n!u@h PRIVMSG #c :\x01action waves\x01")
    = .ok (some { Raw := lit ":n!u@h PRIVMSG #c :\x01action waves\x01", Src := lit "n!u@h", Nick := lit "n", Ident := lit "u", Host := lit "h",
                  Cmd := lit "ACTION", Args := [lit "#c", lit "waves"] }) := by decide
-- other CTCPs: the verb is prepended to Args
example : ParseLine ext (lit ":n!u@h NOTICE me :\x01VERSION x y\x01")
    = .ok (some { Raw := lit ":n!u@h NOTICE me :\x01VERSION x y\x01", Src := lit "n!u@h", Nick := lit "n", Ident := lit "u", Host := lit "h",
                  Cmd := lit "CTCPREPLY", Args := [lit "VERSION", lit "me", lit "x y"] }) := by decide
example : ParseLine ext (lit ":n!u@h PRIVMSG me :\x01\x01\x01")
    = .ok (some { Raw := lit ":n!u@h PRIVMSG me :\x01\x01\x01", Src := lit "n!u@h", Nick := lit "n", Ident := lit "u", Host := lit "h",
                  Cmd := lit "CTCP", Args := [[], lit "me", lit "\x01\x01\x01"] }) := by decide
-- tags: escapes, key-only tags, a repeated key keeps its first position and takes the last value
example : ParseLine ext (lit "@a=b;c;d=\\s\\:e;;a=z :srv 001 me :hi")
    = .ok (some { Raw := lit "@a=b;c;d=\\s\\:e;;a=z :srv 001 me :hi", Src := lit "srv", Host := lit "srv", Cmd := lit "001",
                  Tags := some [(lit "a", lit "z"), (lit "c", []), (lit "d", lit " ;e")], Args := [lit "me", lit "hi"] }) := by decide

example : Line_Text { Cmd := lit "PRIVMSG", Args := [lit "#c", lit "x"] } = .ok (lit "x") := by decide
example : Line_Text { Cmd := lit "PRIVMSG" } = .ok [] := by decide
example : Line_Public { Cmd := lit "PRIVMSG", Args := [lit "#c"] } = .ok true := by decide
example : Line_Public { Cmd := lit "PRIVMSG", Args := [[]] } = .ok false := by decide
example : Line_Public { Cmd := lit "CTCP", Args := [lit "X", lit "+c", lit "t"] } = .ok true := by decide
example : Line_Public { Cmd := lit "CTCP", Args := [lit "#c"] } = .ok false := by decide
example : Line_Public { Cmd := lit "JOIN", Args := [lit "#c"] } = .ok false := by decide
example : Line_Target { Cmd := lit "PRIVMSG", Nick := lit "nk", Args := [lit "&c", lit "x"] } = .ok (lit "&c") := by decide
example : Line_Target { Cmd := lit "PRIVMSG", Nick := lit "nk", Args := [lit "me"] } = .ok (lit "nk") := by decide
example : Line_Target { Cmd := lit "CTCP", Nick := lit "nk", Args := [lit "X", lit "#c"] } = .ok (lit "#c") := by decide
example : Line_Target { Cmd := lit "CTCP", Nick := lit "nk", Args := [lit "X"] } = .ok (lit "nk") := by decide
example : Line_Target { Cmd := lit "JOIN", Nick := lit "nk", Args := [lit "a", lit "b"] } = .ok (lit "a") := by decide
example : Line_Target { Cmd := [], Nick := lit "nk" } = .ok [] := by decide

/-! No input makes the CURRENT Go source of these functions panic (all indexing is guarded), so there is
no `.error` example on a generated def here.  REPORT.md lists the edited variants of the source
(guards removed, statements swapped) on which Go panics and the regenerated defs give the same `.error`. -/

end Gen.Smoke
