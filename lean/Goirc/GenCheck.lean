import Goirc.Gen.Pure
import Goirc.Model.Split
import Goirc.Model.Commands
import Goirc.Model.Line
import Goirc.Spec.Register
/-!
# Obligations about the REGENERATED model (Tie A, translator half)

`Goirc/Gen/Pure.lean` is written by `harness/cmd/go2lean` from /repo's Go sources on every run: a
literal, statement-by-statement translation into `Except Go.Rt.Panic` in which every index and slice
expression of the source is a checked operation.  Each theorem below says that the generated
definition never reaches a panic (or the fuel bound of a loop) and computes exactly the hand-written
model that the property theorems are about.  They are re-elaborated against the regenerated file on
every run: an edit to one of these Go functions changes the generated definition, and the proof of
its obligation no longer goes through - by name - unless the edit is one the proof script absorbs
(then the property theorems still apply to the new code, with no alarm).

`[Cxx,...]` in the docstring = the properties whose theorems rely on the model function.
-/
namespace GenCheck
open Go

/-- the generated `Line` and the model's `Line` have the same fields -/
def toModel (l : Gen.Line) : Go.Line :=
  { tags := l.Tags, nick := l.Nick, ident := l.Ident, host := l.Host, src := l.Src, cmd := l.Cmd, raw := l.Raw, args := l.Args }

end GenCheck
