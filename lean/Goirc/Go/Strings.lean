import Goirc.Go.Bytes
/-!
# More of Go's `strings` package, byte-exact

`fields` and `trimSpace` are Unicode-aware in Go.  They are modelled with `spaceWidth`, which
recognises the UTF-8 encodings of the runes in `unicode.IsSpace` (U+0009–000D, 0020, 0085, 00A0,
1680, 2000–200A, 2028, 2029, 202F, 205F, 3000).  This is exact because Go decodes sequentially with
"invalid byte ⇒ width-1 RuneError", every lead byte of those encodings is ≥ 0xC2, and a byte
≥ 0xC0 is never consumed as a continuation byte: so a space encoding is seen as a space rune at
whatever position it occurs, whatever precedes it (validated against Go on invalid UTF-8 too).
-/
namespace Go

/-- width of the `unicode.IsSpace` rune encoded at the head of `s`, or 0 if none starts here -/
def spaceWidth : Bytes → Nat
  | [] => 0
  | b :: rest =>
    if b == 32 || (9 ≤ b && b ≤ 13) then 1
    else if b == 0xC2 then
      match rest with
      | c :: _ => if c == 0x85 || c == 0xA0 then 2 else 0
      | [] => 0
    else if b == 0xE1 then
      match rest with
      | c :: d :: _ => if c == 0x9A && d == 0x80 then 3 else 0
      | _ => 0
    else if b == 0xE2 then
      match rest with
      | c :: d :: _ =>
        if c == 0x80 && ((0x80 ≤ d && d ≤ 0x8A) || d == 0xA8 || d == 0xA9 || d == 0xAF) then 3
        else if c == 0x81 && d == 0x9F then 3 else 0
      | _ => 0
    else if b == 0xE3 then
      match rest with
      | c :: d :: _ => if c == 0x80 && d == 0x80 then 3 else 0
      | _ => 0
    else 0

theorem spaceWidth_le (s : Bytes) : spaceWidth s ≤ s.length := by
  unfold spaceWidth
  split
  · simp
  · rename_i b rest
    split
    · simp
    · split
      · split
        · split <;> simp
        · simp
      · split
        · split
          · split <;> simp
          · simp
        · split
          · split
            · split
              · simp
              · split <;> simp
            · simp
          · split
            · split
              · split <;> simp
              · simp
            · simp

/-- `strings.Fields` core: `cur` is the field being accumulated (reversed) -/
def fieldsAux (fuel : Nat) (s : Bytes) (cur : Bytes) : List Bytes :=
  match fuel with
  | 0 => if cur.isEmpty then [] else [cur.reverse]
  | fuel + 1 =>
    match s with
    | [] => if cur.isEmpty then [] else [cur.reverse]
    | b :: rest =>
      if spaceWidth (b :: rest) == 0 then fieldsAux fuel rest (b :: cur)
      else
        let tail := fieldsAux fuel ((b :: rest).drop (spaceWidth (b :: rest))) []
        if cur.isEmpty then tail else cur.reverse :: tail

/-- `strings.Fields(s)` -/
def fields (s : Bytes) : List Bytes := fieldsAux (s.length + 1) s []

/-- strip leading space runes -/
def trimLeftSpace (fuel : Nat) (s : Bytes) : Bytes :=
  match fuel with
  | 0 => s
  | fuel + 1 => if spaceWidth s == 0 then s else trimLeftSpace fuel (s.drop (spaceWidth s))

/-- does a space rune end exactly at the end of `s`?  returns its width (0 if none).
Go's `DecodeLastRune` looks back over continuation bytes to the nearest start byte. -/
def lastSpaceWidth (s : Bytes) : Nat :=
  let n := s.length
  if n ≥ 1 && spaceWidth (s.drop (n - 1)) == 1 then 1
  else if n ≥ 2 && spaceWidth (s.drop (n - 2)) == 2 then 2
  else if n ≥ 3 && spaceWidth (s.drop (n - 3)) == 3 then 3
  else 0

def trimRightSpace (fuel : Nat) (s : Bytes) : Bytes :=
  match fuel with
  | 0 => s
  | fuel + 1 => if lastSpaceWidth s == 0 then s else trimRightSpace fuel (s.take (s.length - lastSpaceWidth s))

/-- `strings.TrimSpace(s)` -/
def trimSpace (s : Bytes) : Bytes :=
  let t := trimLeftSpace (s.length + 1) s
  trimRightSpace (t.length + 1) t

/-- `strings.Trim(s, cutset)` for a one-byte ASCII cutset -/
def trimByte (c : UInt8) (s : Bytes) : Bytes :=
  ((s.dropWhile (· == c)).reverse.dropWhile (· == c)).reverse

/-- `strings.Trim(s, "\r\n")` -/
def trimCRLF (s : Bytes) : Bytes :=
  ((s.dropWhile (fun b => b == 13 || b == 10)).reverse.dropWhile (fun b => b == 13 || b == 10)).reverse

/-- `strings.Split(s, [c])` for a one-byte separator -/
def splitByte (c : UInt8) : Bytes → Bytes → List Bytes
  | acc, [] => [acc.reverse]
  | acc, b :: rest => if b == c then acc.reverse :: splitByte c [] rest else splitByte c (b :: acc) rest

/-- `strings.SplitN(s, sep, 2)` as (before, some after) or (s, none) -/
def cut (s sep : Bytes) : Bytes × Option Bytes :=
  match index s sep with
  | some i => (s.take i, some (s.drop (i + sep.length)))
  | none => (s, none)

/-- `strings.LastIndex(s, [c])` as `Option Nat` -/
def lastIndexByte (s : Bytes) (c : UInt8) : Option Nat :=
  let rec go : Bytes → Nat → Option Nat → Option Nat
    | [], _, acc => acc
    | b :: rest, i, acc => go rest (i + 1) (if b == c then some i else acc)
  go s 0 none

end Go
