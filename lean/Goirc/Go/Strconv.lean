import Goirc.Go.Bytes
/-!
# `strconv.Atoi`, value part only (the tracker ignores the error)

Optional sign, then one or more decimal digits, nothing else.  Syntax error ⇒ 0.  Out of int64
range ⇒ clamped to ±(2⁶³−1 / 2⁶³).  (Base-10 `ParseInt` accepts no underscores.)
-/
namespace Go

def digitsVal : Bytes → Nat → Option Nat
  | [], acc => some acc
  | b :: rest, acc => if 48 ≤ b ∧ b ≤ 57 then digitsVal rest (acc * 10 + (b.toNat - 48)) else none

def atoi (s : Bytes) : Int :=
  let (neg, body) := match s with
    | 43 :: r => (false, r)
    | 45 :: r => (true, r)
    | _ => (false, s)
  if body.isEmpty then 0 else
  match digitsVal body 0 with
  | none => 0
  | some n =>
    if neg then (if n > 9223372036854775808 then -9223372036854775808 else -(n : Int))
    else (if n > 9223372036854775807 then 9223372036854775807 else (n : Int))

end Go
