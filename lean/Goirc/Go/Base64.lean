import Goirc.Go.Bytes
/-! `base64.StdEncoding.EncodeToString` (RFC 4648 alphabet, `=` padding). -/
namespace Go

def b64char (n : Nat) : UInt8 :=
  if n < 26 then (65 + n).toUInt8
  else if n < 52 then (97 + (n - 26)).toUInt8
  else if n < 62 then (48 + (n - 52)).toUInt8
  else if n == 62 then 43 else 47

def b64encode : Bytes → Bytes
  | [] => []
  | [a] =>
    let n := a.toNat
    [b64char (n / 4), b64char ((n % 4) * 16), 61, 61]
  | [a, b] =>
    let n := a.toNat; let m := b.toNat
    [b64char (n / 4), b64char ((n % 4) * 16 + m / 16), b64char ((m % 16) * 4), 61]
  | a :: b :: c :: rest =>
    let n := a.toNat; let m := b.toNat; let k := c.toNat
    b64char (n / 4) :: b64char ((n % 4) * 16 + m / 16) :: b64char ((m % 16) * 4 + k / 64) :: b64char (k % 64) :: b64encode rest

end Go
