/-!
# Go strings as byte lists

`abbrev Bytes := List UInt8`.  Every `strings.*` function used by the modelled
goirc code gets an exact byte-level definition here.  Go strings are byte
sequences; indices are byte indices.  Functions that can panic in Go (index,
slice) are *not* here: they live in `Goirc.Go.Panic` as checked operations.
-/

abbrev Bytes := List UInt8

namespace Go

/-- `strings.HasPrefix(s, p)` -/
def hasPrefix : Bytes → Bytes → Bool
  | _, [] => true
  | [], _ :: _ => false
  | x :: s, y :: p => x == y && hasPrefix s p

/-- `strings.HasSuffix(s, p)` -/
def hasSuffix (s p : Bytes) : Bool := hasPrefix s.reverse p.reverse

/-- `strings.Index(s, sep)` as an `Option Nat` (`none` = -1).  `sep` non-empty in all uses;
for the empty separator Go returns 0 and so does this. -/
def indexFrom (sep : Bytes) : Bytes → Nat → Option Nat
  | [], i => if sep.isEmpty then some i else none
  | x :: s, i => if hasPrefix (x :: s) sep then some i else indexFrom sep s (i + 1)

def index (s sep : Bytes) : Option Nat := indexFrom sep s 0

/-- `strings.IndexByte`-style search for a single byte. -/
def indexByteFrom (c : UInt8) : Bytes → Nat → Option Nat
  | [], _ => none
  | x :: s, i => if x == c then some i else indexByteFrom c s (i + 1)

def indexByte (s : Bytes) (c : UInt8) : Option Nat := indexByteFrom c s 0

/-- `strings.LastIndex(s, [a, b])` for a two-byte separator, as Go's `int` (-1 when absent). -/
def lastIndex2 (a b : UInt8) : Bytes → Nat → Int → Int
  | x :: y :: rest, i, acc => lastIndex2 a b (y :: rest) (i+1) (if x == a && y == b then (i : Int) else acc)
  | _, _, acc => acc

/-- `strings.LastIndex(s, [a])`, as Go's `int` (-1 when absent). -/
def lastIndex1 (a : UInt8) : Bytes → Nat → Int → Int
  | x :: rest, i, acc => lastIndex1 a rest (i+1) (if x == a then (i : Int) else acc)
  | [], _, acc => acc

/-- `strings.Join(parts, sep)` -/
def join (sep : Bytes) : List Bytes → Bytes
  | [] => []
  | [p] => p
  | p :: ps => p ++ sep ++ join sep ps

/-- the part of `s` before the first occurrence of byte `c` (all of `s` if none):
`strings.SplitN(s, c, 2)[0]` for a one-byte separator. -/
def beforeByte (c : UInt8) : Bytes → Bytes
  | [] => []
  | x :: s => if x == c then [] else x :: beforeByte c s

/-- ASCII upper-casing of one byte. -/
def upperByte (b : UInt8) : UInt8 := if 97 ≤ b ∧ b ≤ 122 then b - 32 else b
/-- ASCII lower-casing of one byte. -/
def lowerByte (b : UInt8) : UInt8 := if 65 ≤ b ∧ b ≤ 90 then b + 32 else b

def isAscii (s : Bytes) : Bool := s.all (· < 128)

/-- `strings.ToUpper` on all-ASCII input (Go's own fast path).  For input containing a byte
≥ 0x80 the Unicode tables are not modelled: see `UnicodeExt`. -/
def toUpperAscii (s : Bytes) : Bytes := s.map upperByte
def toLowerAscii (s : Bytes) : Bytes := s.map lowerByte

/-- What the model assumes about Go's Unicode case mapping on non-ASCII input: nothing.
It is a parameter; theorems quantify over it. -/
structure UnicodeExt where
  upper : Bytes → Bytes
  lower : Bytes → Bytes

def toUpper (ext : UnicodeExt) (s : Bytes) : Bytes :=
  if isAscii s then toUpperAscii s else ext.upper s
def toLower (ext : UnicodeExt) (s : Bytes) : Bytes :=
  if isAscii s then toLowerAscii s else ext.lower s

/-- ASCII string literal to bytes (used only on ASCII literals; reduces under `decide`/`rfl`) -/
def lit (s : String) : Bytes := s.toList.map (fun c => c.toNat.toUInt8)

theorem join_nil (sep : Bytes) : join sep [] = [] := rfl

end Go
