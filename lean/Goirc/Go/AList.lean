import Goirc.Go.Bytes
/-!
# Go maps as association lists

`insert` replaces an existing key in place, else appends; observations are made through
`lookup`, so theorems compare maps as finite maps.  Iteration (where the Go code ranges over a
map) uses list order; Go's order is random, and the code's results do not depend on it (checked
by the differential against the real maps, and by the refinement theorem holding for the
spec, which has no order).
-/
namespace AL

variable {κ ν : Type} [DecidableEq κ]

def lookup (m : List (κ × ν)) (k : κ) : Option ν :=
  match m with
  | [] => none
  | (k', v) :: rest => if k' = k then some v else lookup rest k

def has (m : List (κ × ν)) (k : κ) : Bool := (lookup m k).isSome

def insert (m : List (κ × ν)) (k : κ) (v : ν) : List (κ × ν) :=
  match m with
  | [] => [(k, v)]
  | (k', v') :: rest => if k' = k then (k, v) :: rest else (k', v') :: insert rest k v

def erase (m : List (κ × ν)) (k : κ) : List (κ × ν) :=
  match m with
  | [] => []
  | (k', v') :: rest => if k' = k then erase rest k else (k', v') :: erase rest k

def keys (m : List (κ × ν)) : List κ := m.map (·.1)

end AL
