import Goirc.Facts
import Goirc.Model.Split
import Goirc.Model.Commands
import Goirc.Model.Line
import Goirc.Model.Client
/-!
# Tie A obligations: what was extracted from /repo now vs what the model assumes

Each theorem is tagged `[Cxx,…]` with the properties whose models rely on it; the check script
reads those tags.  `Facts.lean` is regenerated from the working tree on every run, so a source
edit that moves a fact breaks the obligation *by name*.  `shape_*` facts are fingerprints of a
function's normalised body (comments and logging calls removed); the normalised text is printed
next to each fingerprint in `Facts.lean` and the pinned text is in `Facts.golden`.
-/
namespace FactsCheck
open Go

/-- [C11] SplitLen default -/
theorem defaultSplit_is_450 : Facts.defaultSplit = some 450 := by decide

/-- [C11] the eight sentence separators `indexFragment` looks for are the model's `seps`, each followed by a space -/
theorem fragSeps_eq_model : Facts.fragSeps = some (Go.seps.map fun c => [c, 32]) := by decide

/-- [C11] `indexFragment` is the function `Go.indexFragment` transcribes -/
theorem shape_indexFragment : Facts.shape_indexFragment = some "gen" := by decide

/-- [C11] `splitMessage` is the function `Go.splitMessage` transcribes -/
theorem shape_splitMessage : Facts.shape_splitMessage = some "gen" := by decide

/-- [C08,C09] the only statement that sends on `conn.out` is in `Raw` -/
theorem only_Raw_sends : Facts.sendersOnOut = some ["Conn.Raw"] := by decide

/-- [C08,C09] `write` (WriteString + Flush on the socket's buffered writer) is called by the send goroutine only:
no handler and no API method writes to the socket behind the queue's back -/
theorem only_send_writes : Facts.callersOfWrite = some ["Conn.send"] := by decide

/-- [C09] `conn.out` is received from by `send` (the consumer) and by the drain loop of `closeFor` only -/
theorem only_send_receives : Facts.receiversOnOut = some ["Conn.closeFor", "Conn.send"] := by decide

/-- [C08,C09] the functions that touch `conn.sock` / `conn.io` at all: connection set-up and teardown, the reader, `write` -/
theorem socket_users : Facts.socketUsers = some ["Conn.closeFor", "Conn.initialise", "Conn.internalConnect",
    "Conn.postConnect", "Conn.recvFor", "Conn.write"] := by decide

/-- [C06,C07] the `*Conn` methods that take `conn.mu` -/
theorem mu_lockers : Facts.muLockers = some ["Conn.DisableStateTracking", "Conn.EnableStateTracking",
    "Conn.closeFor", "Conn.internalConnect"] := by decide

/-- [C06,C07,C16] `closeFor` waits, holding `conn.mu`, for the goroutines ping / recvFor / runLoop / send: by direct
method calls none of them reaches a method that takes `conn.mu`, except `closeFor` itself (which each calls only
after its `wg.Done()`: see the shape facts) - so the wait cannot be a lock cycle through the library's own code -/
theorem conn_goroutines_take_no_mu : Facts.muReachableFromConnGoroutines =
    some ["ping->", "recvFor->closeFor", "runLoop->closeFor", "send->closeFor"] := by decide

/-- [C08] the exported `*Conn` methods from which `Raw` is reachable are exactly the modelled command
methods (`Go.Cmd`, with Privmsgln/Privmsgf) plus the Connect family (through the ping goroutine) -/
theorem api_methods : Facts.exportedReachingRaw = some ["Action", "Authenticate", "Away", "Cap", "Connect",
    "ConnectContext", "ConnectTo", "ConnectToContext", "Ctcp", "CtcpReply", "Invite", "Join", "Kick", "Mode", "Nick",
    "Notice", "Oper", "Part", "Pass", "Ping", "Pong", "Privmsg", "Privmsgf", "Privmsgln", "Quit", "Raw", "Topic",
    "User", "VHost", "Version", "Who", "Whois"] := by decide

/-- [C08] verb constants equal the model's -/
theorem verbs_eq_model :
    [Facts.const_PASS, Facts.const_NICK, Facts.const_USER, Facts.const_JOIN, Facts.const_PART, Facts.const_KICK,
     Facts.const_QUIT, Facts.const_WHOIS, Facts.const_WHO, Facts.const_PRIVMSG, Facts.const_NOTICE, Facts.const_VERSION,
     Facts.const_ACTION, Facts.const_TOPIC, Facts.const_MODE, Facts.const_AWAY, Facts.const_INVITE, Facts.const_OPER,
     Facts.const_VHOST, Facts.const_PING, Facts.const_PONG, Facts.const_CAP, Facts.const_AUTHENTICATE] =
    [V.PASS, V.NICK, V.USER, V.JOIN, V.PART, V.KICK, V.QUIT, V.WHOIS, V.WHO, V.PRIVMSG, V.NOTICE, V.VERSION, V.ACTION,
     V.TOPIC, V.MODE, V.AWAY, V.INVITE, V.OPER, V.VHOST, V.PING, V.PONG, V.CAP, V.AUTHENTICATE].map some := by decide

/-- [C08] `cutNewLines` is the body the model transcribes -/
theorem shape_cutNewLines : Facts.shape_cutNewLines = some "gen" := by decide

/-- [C08] `splitArgs` is the body the model transcribes -/
theorem shape_splitArgs : Facts.shape_splitArgs = some "gen" := by decide

/-- [C08] `Conn.Raw` is the body the model transcribes -/
theorem shape_Conn_Raw : Facts.shape_Conn_Raw = some "gen" := by decide

/-- [C08,C09,C10,C20] `Conn.write` is the body the model transcribes: rate limit (sleep for exactly what `rateLimit` returns,
whatever the line says), then the line and CRLF in one buffered write, flushed; PASS lines masked in the debug record -/
theorem shape_Conn_write : Facts.shape_Conn_write = some "40794eb131cbea91" := by decide

/-- [C08] `Conn.Pass` is the body the model transcribes -/
theorem shape_Conn_Pass : Facts.shape_Conn_Pass = some "gen" := by decide

/-- [C08] `Conn.Nick` is the body the model transcribes -/
theorem shape_Conn_Nick : Facts.shape_Conn_Nick = some "gen" := by decide

/-- [C08] `Conn.User` is the body the model transcribes -/
theorem shape_Conn_User : Facts.shape_Conn_User = some "gen" := by decide

/-- [C08] `Conn.Join` is the body the model transcribes -/
theorem shape_Conn_Join : Facts.shape_Conn_Join = some "gen" := by decide

/-- [C08] `Conn.Part` is the body the model transcribes -/
theorem shape_Conn_Part : Facts.shape_Conn_Part = some "gen" := by decide

/-- [C08] `Conn.Kick` is the body the model transcribes -/
theorem shape_Conn_Kick : Facts.shape_Conn_Kick = some "gen" := by decide

/-- [C08] `Conn.Quit` is the body the model transcribes -/
theorem shape_Conn_Quit : Facts.shape_Conn_Quit = some "gen" := by decide

/-- [C08] `Conn.Whois` is the body the model transcribes -/
theorem shape_Conn_Whois : Facts.shape_Conn_Whois = some "gen" := by decide

/-- [C08] `Conn.Who` is the body the model transcribes -/
theorem shape_Conn_Who : Facts.shape_Conn_Who = some "gen" := by decide

/-- [C08,C11] `Conn.Privmsg` is the body the model transcribes -/
theorem shape_Conn_Privmsg : Facts.shape_Conn_Privmsg = some "gen" := by decide

/-- [C08,C11] `Conn.Privmsgln` is the body the model transcribes -/
theorem shape_Conn_Privmsgln : Facts.shape_Conn_Privmsgln = some "961d863c5ba3c2ab" := by decide

/-- [C08,C11] `Conn.Privmsgf` is the body the model transcribes -/
theorem shape_Conn_Privmsgf : Facts.shape_Conn_Privmsgf = some "4b0c782d335e5f60" := by decide

/-- [C08,C11] `Conn.Notice` is the body the model transcribes -/
theorem shape_Conn_Notice : Facts.shape_Conn_Notice = some "gen" := by decide

/-- [C08,C11] `Conn.Ctcp` is the body the model transcribes -/
theorem shape_Conn_Ctcp : Facts.shape_Conn_Ctcp = some "gen" := by decide

/-- [C08,C11] `Conn.CtcpReply` is the body the model transcribes -/
theorem shape_Conn_CtcpReply : Facts.shape_Conn_CtcpReply = some "gen" := by decide

/-- [C08] `Conn.Version` is the body the model transcribes -/
theorem shape_Conn_Version : Facts.shape_Conn_Version = some "gen" := by decide

/-- [C08,C11] `Conn.Action` is the body the model transcribes -/
theorem shape_Conn_Action : Facts.shape_Conn_Action = some "gen" := by decide

/-- [C08] `Conn.Topic` is the body the model transcribes -/
theorem shape_Conn_Topic : Facts.shape_Conn_Topic = some "gen" := by decide

/-- [C08] `Conn.Mode` is the body the model transcribes -/
theorem shape_Conn_Mode : Facts.shape_Conn_Mode = some "gen" := by decide

/-- [C08] `Conn.Away` is the body the model transcribes -/
theorem shape_Conn_Away : Facts.shape_Conn_Away = some "gen" := by decide

/-- [C08] `Conn.Invite` is the body the model transcribes -/
theorem shape_Conn_Invite : Facts.shape_Conn_Invite = some "gen" := by decide

/-- [C08] `Conn.Oper` is the body the model transcribes -/
theorem shape_Conn_Oper : Facts.shape_Conn_Oper = some "gen" := by decide

/-- [C08] `Conn.VHost` is the body the model transcribes -/
theorem shape_Conn_VHost : Facts.shape_Conn_VHost = some "gen" := by decide

/-- [C08] `Conn.Ping` is the body the model transcribes -/
theorem shape_Conn_Ping : Facts.shape_Conn_Ping = some "gen" := by decide

/-- [C08] `Conn.Pong` is the body the model transcribes -/
theorem shape_Conn_Pong : Facts.shape_Conn_Pong = some "gen" := by decide

/-- [C08] `Conn.Cap` is the body the model transcribes -/
theorem shape_Conn_Cap : Facts.shape_Conn_Cap = some "gen" := by decide

/-- [C08] `Conn.Authenticate` is the body the model transcribes -/
theorem shape_Conn_Authenticate : Facts.shape_Conn_Authenticate = some "gen" := by decide

/-- [C10] `Conn.rateLimit` is the body the model transcribes -/
theorem shape_Conn_rateLimit : Facts.shape_Conn_rateLimit = some "304b797776fb4789" := by decide


/-- [C01] the pairs handed to `strings.NewReplacer` for tag values are the five IRCv3 escapes
`unesc1` knows: `\\:`→`;` `\\s`→space `\\\\`→`\\` `\\r`→CR `\\n`→LF -/
theorem tagsReplacer_pairs : Facts.tagsReplacerArgs =
    some [[92, 58], [59], [92, 115], [32], [92, 92], [92], [92, 114], [13], [92, 110], [10]] := by decide

/-- [C01] each pair of the replacer is undone exactly as the model's `unesc1` says -/
theorem tagsReplacer_matches_model :
    [(58, 59), (115, 32), (92, 92), (114, 13), (110, 10)].all (fun p : UInt8 × UInt8 => unesc1 p.1 == some p.2) = true := by decide

/-- [C01,C02] `ParseLine` is the body the model transcribes -/
theorem shape_ParseLine : Facts.shape_ParseLine = some "gen" := by decide

/-- [C01,C02] `parseUserHost` is the body the model transcribes -/
theorem shape_parseUserHost : Facts.shape_parseUserHost = some "gen" := by decide

/-- [C01,C02] `Line.Text` is the body the model transcribes -/
theorem shape_Line_Text : Facts.shape_Line_Text = some "gen" := by decide

/-- [C01,C02] `Line.Target` is the body the model transcribes -/
theorem shape_Line_Target : Facts.shape_Line_Target = some "gen" := by decide

/-- [C01,C02] `Line.Public` is the body the model transcribes -/
theorem shape_Line_Public : Facts.shape_Line_Public = some "gen" := by decide

/-- [C01,C15] `Line.Copy` is the body the model transcribes -/
theorem shape_Line_Copy : Facts.shape_Line_Copy = some "4bc3e325131cb205" := by decide

/-- [C02] `Line.argslen` is the body the model transcribes -/
theorem shape_Line_argslen : Facts.shape_Line_argslen = some "gen" := by decide


/-- [C02,C05,C13,C17,C18,C19] the internal handler table is the one `Go.Client.intHandler` transcribes -/
theorem table_intHandlers : Facts.table_intHandlers = some ["001=(*Conn).h_001", "410=(*Conn).h_410", "433=(*Conn).h_433",
    "903=(*Conn).h_903", "904=(*Conn).h_904", "908=(*Conn).h_908", "AUTHENTICATE=(*Conn).h_AUTHENTICATE", "CAP=(*Conn).h_CAP",
    "CTCP=(*Conn).h_CTCP", "NICK=(*Conn).h_NICK", "PING=(*Conn).h_PING", "REGISTER=(*Conn).h_REGISTER"] := by decide

/-- [C05,C13,C17] the state-handler table is the one `Go.Client.stHandler` transcribes; all of them are added to the
internal set by `addSTHandlers` (shape pinned below) -/
theorem table_stHandlers : Facts.table_stHandlers = some ["311=(*Conn).h_311", "324=(*Conn).h_324", "332=(*Conn).h_332",
    "352=(*Conn).h_352", "353=(*Conn).h_353", "671=(*Conn).h_671", "JOIN=(*Conn).h_JOIN", "KICK=(*Conn).h_KICK", "MODE=(*Conn).h_MODE",
    "NICK=(*Conn).h_STNICK", "PART=(*Conn).h_PART", "QUIT=(*Conn).h_QUIT", "TOPIC=(*Conn).h_TOPIC"] := by decide

/-- [C17] `Conn.h.001` is the body the model transcribes -/
theorem shape_Conn_h_001 : Facts.shape_Conn_h_001 = some "9920fd2dd12b0c96" := by decide

/-- [C17] `Conn.h.433` is the body the model transcribes -/
theorem shape_Conn_h_433 : Facts.shape_Conn_h_433 = some "75c67a2eea59a0f5" := by decide

/-- [C17] `Conn.h.NICK` is the body the model transcribes -/
theorem shape_Conn_h_NICK : Facts.shape_Conn_h_NICK = some "42afd7d95ea7c46a" := by decide

/-- [C17] `Conn.h.STNICK` is the body the model transcribes -/
theorem shape_Conn_h_STNICK : Facts.shape_Conn_h_STNICK = some "f2f480938a7979fe" := by decide

/-- [C17] `Conn.Me` is the body the model transcribes -/
theorem shape_Conn_Me : Facts.shape_Conn_Me = some "5755dec09382bb87" := by decide

/-- [C17] `DefaultNewNick` is the body the model transcribes -/
theorem shape_DefaultNewNick : Facts.shape_DefaultNewNick = some "gen" := by decide

/-- [C17] `Conn.EnableStateTracking` is the body the model transcribes -/
theorem shape_Conn_EnableStateTracking : Facts.shape_Conn_EnableStateTracking = some "a0a16c9811ebe237" := by decide


/-- [C19] capability sub-command constants and the sasl capability name -/
theorem cap_consts : [Facts.const_CAP_LS, Facts.const_CAP_REQ, Facts.const_CAP_ACK, Facts.const_CAP_NAK, Facts.const_CAP_END, Facts.const_saslCap] =
    [Go.Client.CAP_LS, Go.Client.CAP_REQ, Go.Client.CAP_ACK, Go.Client.CAP_NAK, Go.Client.CAP_END, Go.Client.saslCap].map some := by decide

/-- [C19] `Conn.getRequestCapabilities` is the body the model transcribes -/
theorem shape_Conn_getRequestCapabilities : Facts.shape_Conn_getRequestCapabilities = some "42248ffdc22caf4f" := by decide

/-- [C19] `Conn.negotiateCapabilities` is the body the model transcribes -/
theorem shape_Conn_negotiateCapabilities : Facts.shape_Conn_negotiateCapabilities = some "09eb82be607f4965" := by decide

/-- [C19] `Conn.handleCapAck` is the body the model transcribes -/
theorem shape_Conn_handleCapAck : Facts.shape_Conn_handleCapAck = some "e53e59b0c12a4ad5" := by decide

/-- [C19] `Conn.handleCapNak` is the body the model transcribes -/
theorem shape_Conn_handleCapNak : Facts.shape_Conn_handleCapNak = some "gen" := by decide

/-- [C19] `Conn.h.CAP` is the body the model transcribes -/
theorem shape_Conn_h_CAP : Facts.shape_Conn_h_CAP = some "bd8988bc5e924a43" := by decide

/-- [C19] `Conn.h.410` is the body the model transcribes -/
theorem shape_Conn_h_410 : Facts.shape_Conn_h_410 = some "gen" := by decide

/-- [C19] `Conn.h.AUTHENTICATE` is the body the model transcribes -/
theorem shape_Conn_h_AUTHENTICATE : Facts.shape_Conn_h_AUTHENTICATE = some "6fcf2b777941f2ba" := by decide

/-- [C19] `Conn.h.903` is the body the model transcribes -/
theorem shape_Conn_h_903 : Facts.shape_Conn_h_903 = some "gen" := by decide

/-- [C19] `Conn.h.904` is the body the model transcribes -/
theorem shape_Conn_h_904 : Facts.shape_Conn_h_904 = some "gen" := by decide

/-- [C19] `Conn.h.908` is the body the model transcribes -/
theorem shape_Conn_h_908 : Facts.shape_Conn_h_908 = some "gen" := by decide

/-- [C19] `capSet.Clear` (run by `initialise` at every connect) empties the set -/
theorem shape_capSet_Clear : Facts.shape_capSet_Clear = some "d5a27384d80355f8" := by decide

/-- [C19] `capSet.Add` is the body the model transcribes -/
theorem shape_capSet_Add : Facts.shape_capSet_Add = some "fdcbdb638fc9d349" := by decide

/-- [C19] `capSet.Has` is the body the model transcribes -/
theorem shape_capSet_Has : Facts.shape_capSet_Has = some "6d7afb0af0112d9e" := by decide

/-- [C19] `capSet.Intersect` is the body the model transcribes -/
theorem shape_capSet_Intersect : Facts.shape_capSet_Intersect = some "744f4dda468b91f1" := by decide

/-- [C19] `capSet.Slice` is the body the model transcribes -/
theorem shape_capSet_Slice : Facts.shape_capSet_Slice = some "359693340f0d0456" := by decide

/-- [C19] `capSet.Size` is the body the model transcribes -/
theorem shape_capSet_Size : Facts.shape_capSet_Size = some "c8e15fe017984bd6" := by decide


/-- [C20] `cfg.Pass` is mentioned only where it is set from ConnectTo's argument and in `h_REGISTER` -/
theorem pass_read_only_in_register : Facts.cfgPassUsers = some ["ConnectToContext", "h_REGISTER"] := by decide

/-- [C18,C20] `Conn.h.REGISTER` is the body the model transcribes -/
theorem shape_Conn_h_REGISTER : Facts.shape_Conn_h_REGISTER = some "gen" := by decide

/-- [C18] `Conn.h.PING` is the body the model transcribes -/
theorem shape_Conn_h_PING : Facts.shape_Conn_h_PING = some "gen" := by decide

/-- [C18] `hasPort` is the body the model transcribes -/
theorem shape_hasPort : Facts.shape_hasPort = some "gen" := by decide

/-- [C06,C07,C18] `Conn.internalConnect` is the body the model transcribes -/
theorem shape_Conn_internalConnect : Facts.shape_Conn_internalConnect = some "bcb465179f058fe4" := by decide

/-- [C18] `Conn.dialProxy` is the body the model transcribes -/
theorem shape_Conn_dialProxy : Facts.shape_Conn_dialProxy = some "d7fcd714c9fb39d2" := by decide

/-- [C06,C07,C18] `Conn.postConnect` is the body the model transcribes -/
theorem shape_Conn_postConnect : Facts.shape_Conn_postConnect = some "d98c22de238a1327" := by decide

/-- [C06,C07,C18] `Conn.ping` is the body the model transcribes -/
theorem shape_Conn_ping : Facts.shape_Conn_ping = some "fb69317c11dce15c" := by decide

/-- [C12,C13,C14] `st.stateTracker.Wipe` is the body the model transcribes -/
theorem shape_st_stateTracker_Wipe : Facts.shape_st_stateTracker_Wipe = some "64ea5e0b342d25a2" := by decide

/-- [C12,C13,C14] `st.stateTracker.NewNick` is the body the model transcribes -/
theorem shape_st_stateTracker_NewNick : Facts.shape_st_stateTracker_NewNick = some "af2f468b9b8333ea" := by decide

/-- [C12,C13,C14] `st.stateTracker.GetNick` is the body the model transcribes -/
theorem shape_st_stateTracker_GetNick : Facts.shape_st_stateTracker_GetNick = some "6fbe1e12dd4a6890" := by decide

/-- [C12,C13,C14] `st.stateTracker.ReNick` is the body the model transcribes -/
theorem shape_st_stateTracker_ReNick : Facts.shape_st_stateTracker_ReNick = some "008ba22318962de3" := by decide

/-- [C12,C13,C14] `st.stateTracker.DelNick` is the body the model transcribes -/
theorem shape_st_stateTracker_DelNick : Facts.shape_st_stateTracker_DelNick = some "6222b110e717453b" := by decide

/-- [C12,C13,C14] `st.stateTracker.delNick` is the body the model transcribes -/
theorem shape_st_stateTracker_delNick : Facts.shape_st_stateTracker_delNick = some "8297738136f9442e" := by decide

/-- [C12,C13,C14] `st.stateTracker.NickInfo` is the body the model transcribes -/
theorem shape_st_stateTracker_NickInfo : Facts.shape_st_stateTracker_NickInfo = some "f803083d6380a605" := by decide

/-- [C12,C13,C14] `st.stateTracker.NickModes` is the body the model transcribes -/
theorem shape_st_stateTracker_NickModes : Facts.shape_st_stateTracker_NickModes = some "224f2098afdffb91" := by decide

/-- [C12,C13,C14] `st.stateTracker.NewChannel` is the body the model transcribes -/
theorem shape_st_stateTracker_NewChannel : Facts.shape_st_stateTracker_NewChannel = some "f2527c521c2f0b40" := by decide

/-- [C12,C13,C14] `st.stateTracker.GetChannel` is the body the model transcribes -/
theorem shape_st_stateTracker_GetChannel : Facts.shape_st_stateTracker_GetChannel = some "f43ccfb47acc8843" := by decide

/-- [C12,C13,C14] `st.stateTracker.DelChannel` is the body the model transcribes -/
theorem shape_st_stateTracker_DelChannel : Facts.shape_st_stateTracker_DelChannel = some "1fffe2f8566f3c49" := by decide

/-- [C12,C13,C14] `st.stateTracker.delChannel` is the body the model transcribes -/
theorem shape_st_stateTracker_delChannel : Facts.shape_st_stateTracker_delChannel = some "5c1648070a13d6f9" := by decide

/-- [C12,C13,C14] `st.stateTracker.Topic` is the body the model transcribes -/
theorem shape_st_stateTracker_Topic : Facts.shape_st_stateTracker_Topic = some "9e87b6135814fc11" := by decide

/-- [C12,C13,C14] `st.stateTracker.ChannelModes` is the body the model transcribes -/
theorem shape_st_stateTracker_ChannelModes : Facts.shape_st_stateTracker_ChannelModes = some "5283427d954b8b5a" := by decide

/-- [C12,C13,C14] `st.stateTracker.Me` is the body the model transcribes -/
theorem shape_st_stateTracker_Me : Facts.shape_st_stateTracker_Me = some "18c4088165de5583" := by decide

/-- [C12,C13,C14] `st.stateTracker.IsOn` is the body the model transcribes -/
theorem shape_st_stateTracker_IsOn : Facts.shape_st_stateTracker_IsOn = some "a6d8d270ab2d682f" := by decide

/-- [C12,C13,C14] `st.stateTracker.Associate` is the body the model transcribes -/
theorem shape_st_stateTracker_Associate : Facts.shape_st_stateTracker_Associate = some "f6953efccf743f07" := by decide

/-- [C12,C13,C14] `st.stateTracker.Dissociate` is the body the model transcribes -/
theorem shape_st_stateTracker_Dissociate : Facts.shape_st_stateTracker_Dissociate = some "b98aab7f8c5563f8" := by decide

/-- [C12,C13,C14] `st.NewTracker` is the body the model transcribes -/
theorem shape_st_NewTracker : Facts.shape_st_NewTracker = some "db6dc8934491c583" := by decide

/-- [C12,C13,C14] `st.nick.Nick` is the body the model transcribes -/
theorem shape_st_nick_Nick : Facts.shape_st_nick_Nick = some "7f0da9d87c35f498" := by decide

/-- [C12,C13,C14] `st.nick.isOn` is the body the model transcribes -/
theorem shape_st_nick_isOn : Facts.shape_st_nick_isOn = some "6b6c2592ccdb2bda" := by decide

/-- [C12,C13,C14] `st.nick.addChannel` is the body the model transcribes -/
theorem shape_st_nick_addChannel : Facts.shape_st_nick_addChannel = some "23e167dad0d541ef" := by decide

/-- [C12,C13,C14] `st.nick.delChannel` is the body the model transcribes -/
theorem shape_st_nick_delChannel : Facts.shape_st_nick_delChannel = some "fb9f0b1e375e6d29" := by decide

/-- [C12,C13,C14] `st.nick.parseModes` is the body the model transcribes -/
theorem shape_st_nick_parseModes : Facts.shape_st_nick_parseModes = some "af02e94a03ddcf8d" := by decide

/-- [C12,C13,C14] `st.channel.Channel` is the body the model transcribes -/
theorem shape_st_channel_Channel : Facts.shape_st_channel_Channel = some "6a1d0ab3683cda07" := by decide

/-- [C12,C13,C14] `st.channel.isOn` is the body the model transcribes -/
theorem shape_st_channel_isOn : Facts.shape_st_channel_isOn = some "dd618f0fec45e54a" := by decide

/-- [C12,C13,C14] `st.channel.addNick` is the body the model transcribes -/
theorem shape_st_channel_addNick : Facts.shape_st_channel_addNick = some "169fe40cecb252b1" := by decide

/-- [C12,C13,C14] `st.channel.delNick` is the body the model transcribes -/
theorem shape_st_channel_delNick : Facts.shape_st_channel_delNick = some "4f158403311f95bf" := by decide

/-- [C12,C13,C14] `st.channel.parseModes` is the body the model transcribes -/
theorem shape_st_channel_parseModes : Facts.shape_st_channel_parseModes = some "34ebc36c483b0dcf" := by decide

/-- [C12,C13,C14] `st.NickMode.Copy` is the body the model transcribes -/
theorem shape_st_NickMode_Copy : Facts.shape_st_NickMode_Copy = some "71af84033dcb74d0" := by decide

/-- [C12,C13,C14] `st.ChanMode.Copy` is the body the model transcribes -/
theorem shape_st_ChanMode_Copy : Facts.shape_st_ChanMode_Copy = some "6494cbd9c1df5f20" := by decide

/-- [C12,C13,C14] `st.ChanPrivs.Copy` is the body the model transcribes -/
theorem shape_st_ChanPrivs_Copy : Facts.shape_st_ChanPrivs_Copy = some "57cbab7c218b67d0" := by decide

/-- [C12,C13,C14] `st.newNick` is the body the model transcribes -/
theorem shape_st_newNick : Facts.shape_st_newNick = some "db7033187a769df5" := by decide

/-- [C12,C13,C14] `st.newChannel` is the body the model transcribes -/
theorem shape_st_newChannel : Facts.shape_st_newChannel = some "362560a59c5095b8" := by decide

/-- [C03,C06,C07,C09] `Conn.send` is the body the model transcribes -/
theorem shape_Conn_send : Facts.shape_Conn_send = some "682b1bb52ac0ab80" := by decide

/-- [C03,C05,C16] `Conn.dispatch` is the body the model transcribes -/
theorem shape_Conn_dispatch : Facts.shape_Conn_dispatch = some "3d33b8cc2bacfd5b" := by decide

/-- [C03,C05,C16] `hSet.dispatch` is the body the model transcribes -/
theorem shape_hSet_dispatch : Facts.shape_hSet_dispatch = some "b159c1b6e35eedc0" := by decide

/-- [C03,C05,C06,C07,C16] `Conn.runLoop` is the body the model transcribes -/
theorem shape_Conn_runLoop : Facts.shape_Conn_runLoop = some "3e135fe163f79108" := by decide

/-- [C01,C02,C03] `Conn.recv` is the body the model transcribes -/
theorem shape_Conn_recv : Facts.shape_Conn_recv = some "109b701370dc7bfc" := by decide

/-- [C04] `hSet.add` is the body the model transcribes -/
theorem shape_hSet_add : Facts.shape_hSet_add = some "272dbafe1838442e" := by decide

/-- [C04] `hSet.remove` is the body the model transcribes -/
theorem shape_hSet_remove : Facts.shape_hSet_remove = some "15610089a1680600" := by decide

/-- [C04] `hSet.getHandlers` is the body the model transcribes -/
theorem shape_hSet_getHandlers : Facts.shape_hSet_getHandlers = some "9637d3dbb010d405" := by decide

/-- [C04] `hNode.Remove` is the body the model transcribes -/
theorem shape_hNode_Remove : Facts.shape_hNode_Remove = some "115aec96975afd3e" := by decide

/-- [C04] `handlerSet` is the body the model transcribes -/
theorem shape_handlerSet : Facts.shape_handlerSet = some "67befe3fc45d790c" := by decide

/-- [C04] `Conn.Handle` is the body the model transcribes -/
theorem shape_Conn_Handle : Facts.shape_Conn_Handle = some "389e544ec4ab02f9" := by decide

/-- [C04] `Conn.HandleBG` is the body the model transcribes -/
theorem shape_Conn_HandleBG : Facts.shape_Conn_HandleBG = some "2efc60d97e743353" := by decide

/-- [C04] `Conn.HandleFunc` is the body the model transcribes -/
theorem shape_Conn_HandleFunc : Facts.shape_Conn_HandleFunc = some "bed3694ecdbd08ad" := by decide

/-- [C04] `Conn.handle` is the body the model transcribes -/
theorem shape_Conn_handle : Facts.shape_Conn_handle = some "922ae6235530898e" := by decide

/-- [C02,C04,C15,C16] `hNode.Handle` is the body the model transcribes -/
theorem shape_hNode_Handle : Facts.shape_hNode_Handle = some "20a4045af74921ab" := by decide

/-- [C16] `Conn.LogPanic` is the body the model transcribes -/
theorem shape_Conn_LogPanic : Facts.shape_Conn_LogPanic = some "213e05d3daeae8de" := by decide

/-- [C05,C13] `Conn.addIntHandlers` is the body the model transcribes -/
theorem shape_Conn_addIntHandlers : Facts.shape_Conn_addIntHandlers = some "34995594cd6c49de" := by decide

/-- [C05,C13] `Conn.addSTHandlers` is the body the model transcribes -/
theorem shape_Conn_addSTHandlers : Facts.shape_Conn_addSTHandlers = some "3f2e602f79209909" := by decide

/-- [C05,C13] `Conn.delSTHandlers` is the body the model transcribes -/
theorem shape_Conn_delSTHandlers : Facts.shape_Conn_delSTHandlers = some "3b3b0f98101671cd" := by decide

/-- [C01,C02,C03,C06,C07] `Conn.recvFor` is the body the model transcribes -/
theorem shape_Conn_recvFor : Facts.shape_Conn_recvFor = some "252c29c51d77d72b" := by decide


/-- [C02,C05,C13,C14,C16] every exported tracker method takes the mutex first (`Lock; defer Unlock`), NewNick/NewChannel after a
prologue that does not mention the tracker at all. The `defer` is what C02 / C16 rest on when a built-in handler panics inside
the tracker: the recovered panic leaves no lock behind (round 4: three getters unlocked by hand, one odd 324 wedged the client) -/
theorem tracker_lock_discipline : Facts.trackerLockDiscipline = some ["Associate:first", "ChannelModes:first", "DelChannel:first",
    "DelNick:first", "Dissociate:first", "GetChannel:first", "GetNick:first", "IsOn:first", "Me:first", "NewChannel:after-pure-prologue",
    "NewNick:after-pure-prologue", "NickInfo:first", "NickModes:first", "ReNick:first", "String:first", "Topic:first", "Wipe:first"] := by decide

/-- [C14] every exported tracker method returns only nil / false / a debugging string, or the result of `.Nick()`,
`.Channel()`, `.Copy()` or `isOn` - the four functions the snapshot heap model transcribes -/
theorem tracker_returns : Facts.trackerReturns = some ["Associate:cp.Copy()", "Associate:nil", "ChannelModes:ch.Channel()", "ChannelModes:nil",
    "DelChannel:ch.Channel()", "DelChannel:nil", "DelNick:nil", "DelNick:nk.Nick()", "GetChannel:ch.Channel()", "GetChannel:nil", "GetNick:nil",
    "GetNick:nk.Nick()", "IsOn:false", "IsOn:nil", "IsOn:nk.isOn(ch)", "Me:st.me.Nick()", "NewChannel:nil", "NewChannel:st.chans[c].Channel()",
    "NewNick:nil", "NewNick:st.nicks[n].Nick()", "NickInfo:nil", "NickInfo:nk.Nick()", "NickModes:nil", "NickModes:nk.Nick()", "ReNick:nil",
    "ReNick:nk.Nick()", "String:str", "Topic:ch.Channel()", "Topic:nil"] := by decide

/-- [C06,C07] `Conn.ConnectContext` is the body the model transcribes -/
theorem shape_Conn_ConnectContext : Facts.shape_Conn_ConnectContext = some "6b90b9428cf36912" := by decide

/-- [C06,C07] `Conn.Close` is the body the model transcribes -/
theorem shape_Conn_Close : Facts.shape_Conn_Close = some "dd307aad985d0218" := by decide

/-- [C03,C06,C07] `Conn.closeFor` is the body the model transcribes (it keeps `mu` until every goroutine, and so every
foreground handler, of the connection has finished: a new connection cannot start before) -/
theorem shape_Conn_closeFor : Facts.shape_Conn_closeFor = some "7a4905e768233287" := by decide

/-- [C03,C06,C07,C18,C19] `Conn.initialise` is the body the model transcribes: both queues are made afresh for every connection
(nothing queued on or for an earlier connection reaches the next one) -/
theorem shape_Conn_initialise : Facts.shape_Conn_initialise = some "f0d142f345650584" := by decide

/-- [C06,C07] `Conn.Connected` is the body the model transcribes: it reads the flag under `cmu`, not under `mu`, so
a handler that asks does not wait for a teardown in progress (the model's handlers never need `mu`) -/
theorem shape_Conn_Connected : Facts.shape_Conn_Connected = some "9be693d3ea187476" := by decide

/-- [C06,C07] `Conn.setConnected`: the only writer of the flag; `cmu` is held for the assignment alone -/
theorem shape_Conn_setConnected : Facts.shape_Conn_setConnected = some "fafe01e0098f8642" := by decide

/-- [C02,C13] `Conn.h.JOIN` is the body the model transcribes -/
theorem shape_Conn_h_JOIN : Facts.shape_Conn_h_JOIN = some "4e8bac6d5ca61bab" := by decide

/-- [C02,C13] `Conn.h.PART` is the body the model transcribes -/
theorem shape_Conn_h_PART : Facts.shape_Conn_h_PART = some "18ef056c9dd03e49" := by decide

/-- [C02,C13] `Conn.h.KICK` is the body the model transcribes -/
theorem shape_Conn_h_KICK : Facts.shape_Conn_h_KICK = some "df74f1564422b6fe" := by decide

/-- [C02,C13] `Conn.h.QUIT` is the body the model transcribes -/
theorem shape_Conn_h_QUIT : Facts.shape_Conn_h_QUIT = some "fcc5e93767cd9b87" := by decide

/-- [C02,C13] `Conn.h.MODE` is the body the model transcribes -/
theorem shape_Conn_h_MODE : Facts.shape_Conn_h_MODE = some "101cc699eb0e07dc" := by decide

/-- [C02,C13] `Conn.h.TOPIC` is the body the model transcribes -/
theorem shape_Conn_h_TOPIC : Facts.shape_Conn_h_TOPIC = some "55a6d5cbdca4d8b5" := by decide

/-- [C02,C13] `Conn.h.311` is the body the model transcribes -/
theorem shape_Conn_h_311 : Facts.shape_Conn_h_311 = some "83ca2ad8ad48c63a" := by decide

/-- [C02,C13] `Conn.h.324` is the body the model transcribes -/
theorem shape_Conn_h_324 : Facts.shape_Conn_h_324 = some "632000adbbef5a1c" := by decide

/-- [C02,C13] `Conn.h.332` is the body the model transcribes -/
theorem shape_Conn_h_332 : Facts.shape_Conn_h_332 = some "9bba4416deaee0ae" := by decide

/-- [C02,C13] `Conn.h.352` is the body the model transcribes -/
theorem shape_Conn_h_352 : Facts.shape_Conn_h_352 = some "e4aa9dc387218e58" := by decide

/-- [C02,C13] `Conn.h.353` is the body the model transcribes -/
theorem shape_Conn_h_353 : Facts.shape_Conn_h_353 = some "c8b1c7c5aa9b3462" := by decide

/-- [C02,C13] `Conn.h.671` is the body the model transcribes -/
theorem shape_Conn_h_671 : Facts.shape_Conn_h_671 = some "80efc4f70dec750d" := by decide

/-- [C02,C13] `Conn.h.CTCP` is the body the model transcribes -/
theorem shape_Conn_h_CTCP : Facts.shape_Conn_h_CTCP = some "gen" := by decide



/-! ### dependency closures

One obligation per property: the hash over (name, normalised-body fingerprint) of every function, variable, constant and type of
the client and state packages that the property's root functions can reach through a conservative name-based call graph
(`harness/cmd/extract/closure.go`; the member lists are in `Facts.golden`). A change anywhere a property's code paths can go
moves its obligation, however far from the property's anchors it is made. -/

/-- [C01] everything the roots of C01 can reach is as pinned -/
theorem closure_C01 : Facts.closure_C01 = some "b3a2fb110ca2a342" := by decide

/-- [C02] everything the roots of C02 can reach is as pinned -/
theorem closure_C02 : Facts.closure_C02 = some "b3a2fb110ca2a342" := by decide

/-- [C03] everything the roots of C03 can reach is as pinned -/
theorem closure_C03 : Facts.closure_C03 = some "40781ca377106822" := by decide

/-- [C04] everything the roots of C04 can reach is as pinned -/
theorem closure_C04 : Facts.closure_C04 = some "b3a2fb110ca2a342" := by decide

/-- [C05] everything the roots of C05 can reach is as pinned -/
theorem closure_C05 : Facts.closure_C05 = some "b3a2fb110ca2a342" := by decide

/-- [C06] everything the roots of C06 can reach is as pinned -/
theorem closure_C06 : Facts.closure_C06 = some "40781ca377106822" := by decide

/-- [C07] everything the roots of C07 can reach is as pinned -/
theorem closure_C07 : Facts.closure_C07 = some "40781ca377106822" := by decide

/-- [C08] everything the roots of C08 can reach is as pinned -/
theorem closure_C08 : Facts.closure_C08 = some "f2e9f0f8012d4b92" := by decide

/-- [C09] everything the roots of C09 can reach is as pinned -/
theorem closure_C09 : Facts.closure_C09 = some "697baf3a53e84a5e" := by decide

/-- [C10] everything the roots of C10 can reach is as pinned -/
theorem closure_C10 : Facts.closure_C10 = some "0147731905c66491" := by decide

/-- [C11] everything the roots of C11 can reach is as pinned -/
theorem closure_C11 : Facts.closure_C11 = some "ec13fabaefea5760" := by decide

/-- [C12] everything the roots of C12 can reach is as pinned -/
theorem closure_C12 : Facts.closure_C12 = some "6ac47a78efe04476" := by decide

/-- [C13] everything the roots of C13 can reach is as pinned -/
theorem closure_C13 : Facts.closure_C13 = some "940804d6c9d89a99" := by decide

/-- [C14] everything the roots of C14 can reach is as pinned -/
theorem closure_C14 : Facts.closure_C14 = some "6ac47a78efe04476" := by decide

/-- [C15] everything the roots of C15 can reach is as pinned -/
theorem closure_C15 : Facts.closure_C15 = some "eae4d61ba5f0516e" := by decide

/-- [C16] everything the roots of C16 can reach is as pinned -/
theorem closure_C16 : Facts.closure_C16 = some "40781ca377106822" := by decide

/-- [C17] everything the roots of C17 can reach is as pinned -/
theorem closure_C17 : Facts.closure_C17 = some "7f964e1a7d96abcf" := by decide

/-- [C18] everything the roots of C18 can reach is as pinned -/
theorem closure_C18 : Facts.closure_C18 = some "8edb04fc69f5e153" := by decide

/-- [C19] everything the roots of C19 can reach is as pinned -/
theorem closure_C19 : Facts.closure_C19 = some "4c7b0f3229c112f3" := by decide

/-- [C20] everything the roots of C20 can reach is as pinned -/
theorem closure_C20 : Facts.closure_C20 = some "40781ca377106822" := by decide

end FactsCheck
