import Goirc.Facts
import Goirc.Model.Split
/-!
# Tie A obligations: what was extracted from /repo now vs what the model assumes

Each theorem is tagged `[Cxx,…]` with the properties whose models rely on it; the check script
reads those tags.  `Facts.lean` is regenerated from the working tree on every run, so a source
edit that moves a fact breaks the obligation *by name*.  `shape_*` facts are fingerprints of a
function's normalised body (comments and logging calls removed); the normalised text is printed
next to each fingerprint in `Facts.lean` and the pinned text is in `Facts.golden`.
-/
namespace FactsCheck
open Go

/-- [C11] SplitLen default -/
theorem defaultSplit_is_450 : Facts.defaultSplit = some 450 := by decide

/-- [C11] the eight sentence separators `indexFragment` looks for are the model's `seps`, each followed by a space -/
theorem fragSeps_eq_model : Facts.fragSeps = some (Go.seps.map fun c => [c, 32]) := by decide

/-- [C11] `indexFragment` is the function `Go.indexFragment` transcribes -/
theorem shape_indexFragment : Facts.shape_indexFragment = some "e9a1baa5483ae5b0" := by decide

/-- [C11] `splitMessage` is the function `Go.splitMessage` transcribes -/
theorem shape_splitMessage : Facts.shape_splitMessage = some "87612613cc56ed28" := by decide

end FactsCheck
