import Goirc.Go.Bytes
import Goirc.Model.Split
import Goirc.Spec.Split
import Goirc.Proofs.Split
import Goirc.Props.C11
