import Driver.Hex
import Goirc.Spec.HSet
/-! The `hs` sub-protocol: handler-set model and Spec side by side. -/
namespace Driver
open Go.HSet

structure HsState where
  m : HS := {}
  s : Spec.HSet.S := []
  n : Nat := 0

def encIds (l : List Nat) : String := if l.isEmpty then "_" else ",".intercalate (l.map toString)

def sortS (l : List String) : List String := l.mergeSort (fun a b => !(b < a))

/-- every name in the model's map with its forward and backward walks -/
def hsLinks (hs : HS) : String :=
  "|".intercalate (sortS (hs.set.map fun (name, l) =>
    hexEncode name ++ "=" ++ encIds (walkFwd hs (hs.nodes.length + 1) l.start) ++ "/" ++ encIds (walkBwd hs (hs.nodes.length + 1) l.«end»)))

/-- the Spec's view in the same format (backward = reverse of forward) -/
def hsLinksS (s : Spec.HSet.S) : String :=
  "|".intercalate (sortS (s.map fun (name, l) =>
    hexEncode name ++ "=" ++ encIds (l.map (·.1)) ++ "/" ++ encIds ((l.map (·.1)).reverse)))

def asciiExt : Go.UnicodeExt := ⟨id, id⟩

def hsHandle (st : HsState) (ws : List String) : HsState × String :=
  match ws with
  | ["new"] => ({}, "ok")
  | ["add", ev, h] =>
    match hexDecode ev, h.toNat? with
    | some ev, some h =>
      let (m', id) := add asciiExt st.m ev h
      ({ m := m', s := Spec.HSet.add asciiExt st.s ev st.n h, n := st.n + 1 }, toString id)
    | _, _ => (st, "bad-op")
  | ["remove", k] =>
    match k.toNat? with
    | some k => ({ st with m := remove st.m k, s := Spec.HSet.remove st.s k }, "ok")
    | none => (st, "bad-op")
  | ["get", ev] =>
    match hexDecode ev with
    | some ev => (st, encIds (getHandlers st.m ev))
    | none => (st, "bad-op")
  | ["dispatch", cmd] =>
    match hexDecode cmd with
    | some c => (st, encIds (dispatchList asciiExt st.m c))
    | none => (st, "bad-op")
  | ["links"] => (st, hsLinks st.m)
  | ["speclinks", impl0] =>
    let impl := if impl0 == "-" then "" else impl0
    (st, if hsLinksS st.s == impl then "ok" else "fail:spec=" ++ hsLinksS st.s)
  | ["specdispatch", cmd, impl] =>
    match hexDecode cmd with
    | some c => (st, if encIds (Spec.HSet.handlersFor asciiExt st.s c) == impl then "ok" else "fail:spec=" ++ encIds (Spec.HSet.handlersFor asciiExt st.s c))
    | none => (st, "bad-op")
  | _ => (st, "bad-op")

end Driver
