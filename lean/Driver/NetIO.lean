import Driver.TrackerIO
import Driver.LineIO
import Goirc.Spec.Net
/-! The `net` sub-protocol: the model IRC network (Spec.Net) generates the lines of a session. -/
namespace Driver
open Spec.Net

def changeDecode (t : String) : Option ModeChange :=
  match t.splitOn ":" with
  | ["f+", l] => do pure (.flag true (← hexDecode l).head!)
  | ["f-", l] => do pure (.flag false (← hexDecode l).head!)
  | ["k+", k] => do pure (.key true (← hexDecode k))
  | ["k-"] => some (.key false [])
  | ["l+", n] => do pure (.limit true (← n.toNat?))
  | ["l-"] => some (.limit false 0)
  | ["p+", l, u] => do pure (.priv true (← hexDecode l).head! (← hexDecode u))
  | ["p-", l, u] => do pure (.priv false (← hexDecode l).head! (← hexDecode u))
  | ["b+", m] => do pure (.ban true (← hexDecode m))
  | ["b-", m] => do pure (.ban false (← hexDecode m))
  | _ => none

def eventDecode (ws : List String) : Option Event :=
  let b := hexDecode
  match ws with
  | ["join", u, c] => do pure (.join (← b u) (← b c))
  | ["part", u, c] => do pure (.part (← b u) (← b c))
  | ["kick", k, c, v] => do pure (.kick (← b k) (← b c) (← b v))
  | ["quit", u] => do pure (.quit (← b u))
  | ["nick", u, n] => do pure (.nick (← b u) (← b n))
  | ["topic", u, c, t] => do pure (.topic (← b u) (← b c) (← b t))
  | ["mode", u, c, chs] => do pure (.mode (← b u) (← b c) (← (chs.splitOn ",").mapM changeDecode))
  | ["amode", c] => do pure (.answerMode (← b c))
  | ["awho", c] => do pure (.answerWho (← b c))
  | ["umode", a, l] => do pure (.umode (a == "+") (← b l).head!)
  | _ => none

def netNew (ws : List String) : Option Net := do
  let ps ← ws.mapM kv
  let g := fun k => (ps.find? (·.1 == k)).map (·.2)
  let othersS ← g "others"
  let others ← (if othersS == "_" then some [] else (othersS.splitOn ",").mapM fun t =>
    match t.splitOn ":" with
    | [n, i, h, r] => do pure ((← hexDecode n), (⟨← hexDecode i, ← hexDecode h, ← hexDecode r⟩ : NUser))
    | _ => none)
  pure (start (← hexDecode (← g "me")) (← hexDecode (← g "ident")) (← hexDecode (← g "host")) (← hexDecode (← g "real")) others)

def netHandle (st : Option Net) (ws : List String) : Option Net × String :=
  match ws with
  | "new" :: rest => match netNew rest with | some n => (some n, "ok") | none => (st, "bad-op")
  | "ev" :: rest =>
    match st, eventDecode rest with
    | some n, some e =>
      if conforms n e then
        let (n', lines) := serverStep n e
        (some n', s!"conf=1 lines={listEncode lines}")
      else (st, "conf=0 lines=_")
    | _, _ => (st, "bad-op")
  | ["view"] => match st with | some n => (st, encObsS n.view) | none => (st, "bad-op")
  | _ => (st, "bad-op")

end Driver
