import Driver.Hex
import Goirc.Model.Split
import Goirc.Spec.Split
/-!
# Line-protocol oracle: one request per line on stdin, one reply per line on stdout.

The functions called here are the same definitions the theorems in `Goirc/Props` talk about.
Anything the driver does not understand is answered `bad-op`, never a default.
-/
open Driver Go

def boolStr (b : Bool) : String := if b then "1" else "0"

def handle (words : List String) : String :=
  match words with
  | ["split", n, t] =>
    match n.toInt?, hexDecode t with
    | some n, some t => listEncode (splitMessage t n)
    | _, _ => "bad-op"
  | ["frag", t] =>
    match hexDecode t with
    | some t => toString (indexFragment t)
    | none => "bad-op"
  | ["spec11", n, t, ps] =>
    match n.toInt?, hexDecode t, listDecode ps with
    | some n, some t, some ps => if Spec.Split.ok n t ps then "ok" else "fail"
    | _, _, _ => "bad-op"
  | _ => "bad-op"

partial def loop (hin hout : IO.FS.Stream) : IO Unit := do
  let line ← hin.getLine
  if line.isEmpty then return ()
  let words := (line.trimAscii.toString.splitOn " ").filter (· ≠ "")
  hout.putStrLn (handle words)
  loop hin hout

def main : IO Unit := do
  let hin ← IO.getStdin
  let hout ← IO.getStdout
  loop hin hout
  hout.flush
