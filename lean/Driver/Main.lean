import Driver.Hex
import Goirc.Model.Split
import Goirc.Spec.Split
import Goirc.Model.Commands
import Goirc.Spec.Wire
import Goirc.Model.Flood
import Goirc.Spec.Flood
import Driver.LineIO
import Driver.TrackerIO
import Driver.ClientIO
import Driver.SpecIO
import Driver.HSetIO
import Driver.LinIO
import Driver.NetIO
/-!
# Line-protocol oracle: one request per line on stdin, one reply per line on stdout.

The functions called here are the same definitions the theorems in `Goirc/Props` talk about.
Anything the driver does not understand is answered `bad-op`, never a default.
-/
open Driver Go

def boolStr (b : Bool) : String := if b then "1" else "0"

/-- parse a command-method call: method name followed by its arguments (hex / list) -/
def parseCmd (m : String) (args : List String) : Option Cmd :=
  let b := hexDecode
  let l := listDecode
  match m, args with
  | "Raw", [a] => do pure (.raw (← b a))
  | "Pass", [a] => do pure (.pass (← b a))
  | "Nick", [a] => do pure (.nick (← b a))
  | "User", [a, c] => do pure (.user (← b a) (← b c))
  | "Join", [a, k] => do pure (.join (← b a) (← l k))
  | "Part", [a, k] => do pure (.part (← b a) (← l k))
  | "Kick", [a, n, k] => do pure (.kick (← b a) (← b n) (← l k))
  | "Quit", [k] => do pure (.quit (← l k))
  | "Whois", [a] => do pure (.whois (← b a))
  | "Who", [a] => do pure (.who (← b a))
  | "Privmsg", [a, c] => do pure (.privmsg (← b a) (← b c))
  | "Notice", [a, c] => do pure (.notice (← b a) (← b c))
  | "Ctcp", [a, c, k] => do pure (.ctcp (← b a) (← b c) (← l k))
  | "CtcpReply", [a, c, k] => do pure (.ctcpReply (← b a) (← b c) (← l k))
  | "Version", [a] => do pure (.version (← b a))
  | "Action", [a, c] => do pure (.action (← b a) (← b c))
  | "Topic", [a, k] => do pure (.topic (← b a) (← l k))
  | "Mode", [a, k] => do pure (.mode (← b a) (← l k))
  | "Away", [k] => do pure (.away (← l k))
  | "Invite", [a, c] => do pure (.invite (← b a) (← b c))
  | "Oper", [a, c] => do pure (.oper (← b a) (← b c))
  | "VHost", [a, c] => do pure (.vhost (← b a) (← b c))
  | "Ping", [a] => do pure (.ping (← b a))
  | "Pong", [a] => do pure (.pong (← b a))
  | "Cap", [a, k] => do pure (.cap (← b a) (← l k))
  | "Authenticate", [a] => do pure (.authenticate (← b a))
  | _, _ => none

def handle (words : List String) : String :=
  match words with
  | "cmd" :: n :: q :: up :: m :: args =>
    match n.toInt?, hexDecode q, hexDecode up, parseCmd m args with
    | some n, some q, some up, some c => listEncode (exec ⟨fun _ => up, fun x => x⟩ ⟨n, q⟩ c)
    | _, _, _, _ => "bad-op"
  | "spec08" :: lines :: m :: args =>
    match listDecode lines, parseCmd m args with
    | some ls, some c => if Spec.Wire.ok (verbOf c) ls then "ok" else "fail"
    | _, _ => "bad-op"
  | "spec08b" :: wire :: m :: args =>
    match hexDecode wire, parseCmd m args with
    | some w, some c => if Spec.Wire.bytesOk (verbOf c) w then "ok" else "fail"
    | _, _ => "bad-op"
  | ["frames", h] =>
    match hexDecode h with
    | some b =>
      let fs := recvFrames b
      if fs.isEmpty then "_" else ",".intercalate (fs.map fun f => if f.isEmpty then "-" else hexEncode f)
    | none => "bad-op"
  | ["parse", h, tb] =>
    match hexDecode h, tableDecode tb with
    | some b, some t =>
      match parseLine (extOf t) b with
      | none => "nil"
      | some l => match needs l with
        | some x => "need " ++ hexEncode x
        | none => lineEncode l
    | _, _ => "bad-op"
  | ["acc", h, tb] =>
    match hexDecode h, tableDecode tb with
    | some b, some t =>
      match parseLine (extOf t) b with
      | none => "nil"
      | some l => match needs l with
        | some x => "need " ++ hexEncode x
        | none => s!"text={hexEncode l.text} public={boolStr l.public} target={hexEncode l.target}"
    | _, _ => "bad-op"
  | "accl" :: "line" :: ws =>   -- accessors of the model applied to a given line
    match lineDecode ws with
    | some l => s!"text={hexEncode l.text} public={boolStr l.public} target={hexEncode l.target}"
    | none => "bad-op"
  | "spec01acc" :: text :: pub :: target :: "line" :: ws =>
    match hexDecode text, hexDecode target, lineDecode ws with
    | some t, some tg, some l => if Spec.Irc.accessorsOk l t (pub == "1") tg then "ok" else "fail"
    | _, _, _ => "bad-op"
  | "render" :: tb :: ws =>
    match tableDecode tb, msgDecode ws with
    | some t, some m =>
      let e := Spec.Irc.expected (extOf t) m
      s!"wf={boolStr m.wf} bytes={hexEncode (Spec.Irc.render m)} expect={lineEncode e}"
    | _, _ => "bad-op"
  | ["trimcrlf", h] =>
    match hexDecode h with
    | some b => hexEncode (recvTrim b)
    | none => "bad-op"
  | ["fields", h] =>
    match hexDecode h with
    | some b => listEncode (fields b)
    | none => "bad-op"
  | ["trimspace", h] =>
    match hexDecode h with
    | some b => hexEncode (trimSpace b)
    | none => "bad-op"
  | ["userhost", h] =>
    match hexDecode h with
    | some b => match parseUserHost b with
      | some (n, i, ho) => s!"{hexEncode n} {hexEncode i} {hexEncode ho} 1"
      | none => "- - - 0"
    | none => "bad-op"
  | ["rate", c, b, e] =>
    match c.toNat?, b.toInt?, e.toInt? with
    | some c, some b, some e => let r := Go.Flood.rate c b e; s!"{r.1} {r.2}"
    | _, _, _ => "bad-op"
  | ["spec10", c, b0, lo, hi, ret, b'] =>
    match c.toNat?, b0.toInt?, lo.toInt?, hi.toInt?, ret.toInt?, b'.toInt? with
    | some c, some b0, some lo, some hi, some ret, some b' => if Spec.Flood.okCall c b0 lo hi ret b' then "ok" else "fail"
    | _, _, _, _, _, _ => "bad-op"
  | ["spec10w", obs] =>
    let parse (p : String) : Option (Nat × Int) :=
      match p.splitOn ":" with
      | [c, w] => do pure ((← c.toNat?), (← w.toInt?))
      | _ => none
    match (obs.splitOn ",").mapM parse with
    | some l => if Spec.Flood.windowOk l then "ok" else "fail"
    | none => "bad-op"
  | ["spec10ws", slack, obs] =>
    -- the window bound with a tolerance for the one thing an outside observer cannot see: how late after its timer the
    -- FIRST line of a run was really written (later lines are only ever later). Every run i..j is judged by
    -- `Spec.Flood.windowFrom` with `slack` added to the write times after the first.
    let parse (p : String) : Option (Nat × Int) :=
      match p.splitOn ":" with
      | [c, w] => do pure ((← c.toNat?), (← w.toInt?))
      | _ => none
    match slack.toInt?, (obs.splitOn ",").mapM parse with
    | some sl, some l =>
      let ok := (List.range l.length).all fun i =>
        match l.drop i with
        | [] => true
        | x :: rest => Spec.Flood.windowFrom (x :: rest.map fun (c, w) => (c, w + sl))
      if ok then "ok" else "fail"
    | _, _ => "bad-op"
  | ["cut", t] =>
    match hexDecode t with
    | some t => hexEncode (cutNewLines t)
    | none => "bad-op"
  | ["splitargs", n, l] =>
    match n.toInt?, listDecode l with
    | some n, some l => listEncode (splitArgs l n)
    | _, _ => "bad-op"
  | ["split", n, t] =>
    match n.toInt?, hexDecode t with
    | some n, some t => listEncode (splitMessage t n)
    | _, _ => "bad-op"
  | ["frag", t] =>
    match hexDecode t with
    | some t => toString (indexFragment t)
    | none => "bad-op"
  | ["spec11", n, t, ps] =>
    match n.toInt?, hexDecode t, listDecode ps with
    | some n, some t, some ps => if Spec.Split.ok n t ps then "ok" else "fail"
    | _, _, _ => "bad-op"
  | _ => "bad-op"

structure DState where
  tk : Option TkState := none
  cl : Option Go.Client.Client := none
  ns : Option NsState := none
  hs : HsState := {}
  net : Option Spec.Net.Net := none

def handleSt (st : DState) (words : List String) : DState × String :=
  match words with
  | "tk" :: ws => let (t, r) := tkHandle st.tk ws; ({ st with tk := t }, r)
  | "cl" :: ws => let (c, r) := clHandle st.cl ws; ({ st with cl := c }, r)
  | "net" :: ws => let (n, r) := netHandle st.net ws; ({ st with net := n }, r)
  | "hs" :: ws => let (h, r) := hsHandle st.hs ws; ({ st with hs := h }, r)
  | "ns" :: ws => let (n, r) := nsHandle st.ns ws; ({ st with ns := n }, r)
  | _ => match specHandle words with
    | some r => (st, r)
    | none => match linHandle words with
      | some r => (st, r)
      | none => (st, handle words)

partial def loop (hin hout : IO.FS.Stream) (st : DState) : IO Unit := do
  let line ← hin.getLine
  if line.isEmpty then return ()
  let words := (line.trimAscii.toString.splitOn " ").filter (· ≠ "")
  let (st', r) := handleSt st words
  hout.putStrLn r
  loop hin hout st'

def main : IO Unit := do
  let hin ← IO.getStdin
  let hout ← IO.getStdout
  loop hin hout {}
  hout.flush
