import Driver.LineIO
import Driver.TrackerIO
import Goirc.Model.Client
/-! The `cl` sub-protocol: the sequential client-core model behind the line protocol. -/
namespace Driver
open Go Go.Client

def kvGet (ps : List (String × String)) (k : String) : Option String := (ps.find? (·.1 == k)).map (·.2)

def saslDecode (s : String) : Option (Option Sasl) :=
  match s.splitOn ":" with
  | ["none"] => some none
  | ["plain", i, u, p] => do pure (some (.plain (← hexDecode i) (← hexDecode u) (← hexDecode p)))
  | ["ext", i] => do pure (some (.external (← hexDecode i)))
  | _ => none

def newNickDecode (s : String) : Option (Bytes → Bytes) :=
  match s.splitOn ":" with
  | ["default"] => some defaultNewNick
  | ["append", x] => do let x ← hexDecode x; pure (fun o => o ++ x)
  | ["const", x] => do let x ← hexDecode x; pure (fun _ => x)
  | _ => none

def clNew (ws : List String) : Option Client := do
  let ps ← ws.mapM kv
  let g := kvGet ps
  let cfg : Config := {
    meNick := ← hexDecode (← g "nick"), meIdent := ← hexDecode (← g "ident"), meName := ← hexDecode (← g "name"),
    pass := ← hexDecode (← g "pass"), capNeg := (← g "capneg") == "1", caps := ← listDecode (← g "caps"),
    sasl := ← saslDecode (← g "sasl"), version := ← hexDecode (← g "version"),
    cmd := ⟨← (← g "split").toInt?, ← hexDecode (← g "quit")⟩ }
  let c : Client := { cfg := clientConfig cfg, newNick := ← newNickDecode (← g "newnick"), ext := extOf [] }
  pure (if (← g "track") == "1" then enableTracking c else c)

def encCaps (m : List (Bytes × Bool)) : String :=
  -- only what `Has` can observe: the names currently mapped to true
  "[" ++ ";".intercalate (sortStr ((m.filter (·.2)).map fun (k, _) => hexEncode k)) ++ "]"

def clObs (c : Client) : String :=
  let c' := refreshMe c
  let tkS := match c.st with | some s => encObsM s | none => "none"
  if c'.cfg.meNil then s!"menil={bit c.cfg.meNil} me=nil sup={encCaps c.supported} cur={encCaps c.curr} tracker={tkS}" else
  s!"menil={bit c.cfg.meNil} me={hexEncode c'.cfg.meNick},{hexEncode c'.cfg.meIdent},{hexEncode c'.cfg.meHost},{hexEncode c'.cfg.meName} sup={encCaps c.supported} cur={encCaps c.curr} tracker={tkS}"

def encHR (r : HR) : String := s!"out={listEncode r.out} panic={bit r.panicked} connected={bit r.connected}"

def clHandle (st : Option Client) (ws : List String) : Option Client × String :=
  match ws with
  | "new" :: rest =>
    match clNew rest with
    | some c => (some c, "ok")
    | none => (st, "bad-op")
  | ["obs"] => match st with | some c => (st, clObs c) | none => (st, "bad-op")
  | ["wipe"] => match st with | some c => (some (wipeOnConnect c), "ok") | none => (st, "bad-op")
  | ["track", "on"] => match st with | some c => (some (enableTracking c), "ok") | none => (st, "bad-op")
  | ["track", "off"] => match st with | some c => (some (disableTracking c), "ok") | none => (st, "bad-op")
  | "in" :: "line" :: lw =>
    match st, lineDecode lw with
    | some c, some l => let r := dispatchInternal c l; (some r.c, encHR r)
    | _, _ => (st, "bad-op")
  | ["raw", h] =>     -- a line as received from the server: parse, then dispatch
    match st, hexDecode h with
    | some c, some b =>
      match parseLine c.ext b with
      | none => (st, "rejected")
      | some l => let r := dispatchInternal c l; (some r.c, encHR r)
    | _, _ => (st, "bad-op")
  | _ => (st, "bad-op")

end Driver
