import Driver.TrackerIO
/-!
Linearizability check of a timed concurrent history of tracker operations against the relational
Spec (Wing–Gong search): is there an order of the operations, consistent with real time (an
operation that returned before another was called comes first), in which the Spec returns exactly
the observed values?  Used only to judge implementation histories (Tie B), never in place of a theorem.
-/
namespace Driver
open Go.Tracker

structure LOp where
  call : Nat
  ret : Nat
  op : Op
  retS : String

def linSearch : Nat → Spec.Tracker.S → List LOp → Bool
  | 0, _, rem => rem.isEmpty
  | fuel + 1, s, rem =>
    if rem.isEmpty then true else
    (List.range rem.length).any fun i =>
      match rem[i]? with
      | none => false
      | some o =>
        -- o may go first only if no other pending operation returned before o was called
        let minimal := rem.all fun o' => !(o'.ret < o.call)
        if !minimal then false else
        let (s', r) := Spec.Tracker.step s o.op
        encRet r == o.retS && linSearch fuel s' (rem.eraseIdx i)

def lopDecode (t : String) : Option LOp :=
  match t.splitOn "|" with
  | [c, r, m, args, retS] => do
    let as := if args == "" then [] else args.splitOn "/"
    pure { call := ← c.toNat?, ret := ← r.toNat?, op := ← parseOp m as, retS := retS }
  | _ => none

def linHandle (ws : List String) : Option String :=
  match ws with
  | "lin" :: me :: ops => do
    let me ← hexDecode me
    let l ← ops.mapM lopDecode
    pure (if linSearch (l.length + 1) (Spec.Tracker.new me) l then "ok" else "fail:not-linearizable")
  | _ => none

end Driver
