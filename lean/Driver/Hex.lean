import Goirc.Go.Bytes
/-! Line-protocol helpers: lower-case hex for byte strings (`-` = empty), comma-separated
lists (`_` = empty list). -/
namespace Driver

def hexDigit (n : Nat) : Char := if n < 10 then Char.ofNat (48 + n) else Char.ofNat (87 + n)

def hexEncode (b : Bytes) : String :=
  if b.isEmpty then "-" else
  String.ofList (b.flatMap (fun x => [hexDigit (x.toNat / 16), hexDigit (x.toNat % 16)]))

def hexVal (c : Char) : Option Nat :=
  if '0' ≤ c ∧ c ≤ '9' then some (c.toNat - 48)
  else if 'a' ≤ c ∧ c ≤ 'f' then some (c.toNat - 87)
  else none

def hexDecodeChars : List Char → Option Bytes
  | [] => some []
  | a :: b :: rest => do
      let x ← hexVal a; let y ← hexVal b; let r ← hexDecodeChars rest
      pure (UInt8.ofNat (x * 16 + y) :: r)
  | _ => none

def hexDecode (s : String) : Option Bytes :=
  if s == "-" then some [] else hexDecodeChars s.toList

def listEncode (l : List Bytes) : String :=
  if l.isEmpty then "_" else ",".intercalate (l.map hexEncode)

def listDecode (s : String) : Option (List Bytes) :=
  if s == "_" then some [] else (s.splitOn ",").mapM hexDecode

def optEncode : Option Bytes → String
  | none => "nil"
  | some b => hexEncode b

end Driver
