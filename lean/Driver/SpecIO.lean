import Driver.ClientIO
import Goirc.Spec.Caps
import Goirc.Spec.NickScript
import Goirc.Spec.Register
import Goirc.Spec.Life
import Goirc.Spec.Send
import Goirc.Spec.Dispatch
/-! Driver requests that evaluate the C17–C20 Specs on implementation output. -/
namespace Driver
open Go Go.Client

def okFail (b : Bool) : String := if b then "ok" else "fail"

structure NsState where
  srv : Spec.NickScript.Srv
  gen : Bytes → Bytes

def nsEv (ws : List String) : Option Spec.NickScript.Ev :=
  match ws with
  | ["433", r] => do pure (.s433 (← hexDecode r))
  | ["001", n] => do pure (.s001 (← hexDecode n) true)
  | ["001nomask", n] => do pure (.s001 (← hexDecode n) false)
  | ["nick", n] => do pure (.sNick (← hexDecode n))
  | ["other", f, t] => do pure (.sOther (← hexDecode f) (← hexDecode t))
  | _ => none

def nsHandle (st : Option NsState) (ws : List String) : Option NsState × String :=
  match ws with
  | ["new", nick, gen] =>
    match hexDecode nick, newNickDecode gen with
    | some n, some g => (some { srv := { nick := n }, gen := g }, "ok")
    | _, _ => (st, "bad-op")
  | "ev" :: rest =>
    match st, nsEv rest with
    | some s, some e =>
      let conf := Spec.NickScript.conforms s.srv e
      let line := Spec.NickScript.lineOf s.srv e
      let srv' := Spec.NickScript.step s.gen s.srv e
      (some { s with srv := srv' },
       s!"conf={bit conf} line={hexEncode line} nick={hexEncode srv'.nick} reg={bit srv'.registered} reply={listEncode (Spec.NickScript.replyOf s.gen e)}")
    | _, _ => (st, "bad-op")
  | _ => (st, "bad-op")

def lifeEv (t : String) : Option Spec.Life.Ev :=
  match t with
  | "R1" => some (.register true) | "R0" => some (.register false)
  | "C1" => some (.connected true) | "C0" => some (.connected false)
  | "D1" => some (.disconnected true) | "D0" => some (.disconnected false)
  | "CALL" => some .connectCall | "OK" => some .connectOk | "ERR" => some .connectErr
  | "AGAINOK" => some .againOk | "AGAINREF" => some .againRefused
  | "ALIVE" => some .alive | "DEAD" => some .dead | "CAUSE" => some .cause | "CLOSERET" => some .closeRet
  | "FRESHUP" => some .freshUp | "FRESHDOWN" => some .freshDown | "CWC" => some .closedFired
  | _ => none

def specHandle (ws : List String) : Option String :=
  match ws with
  | ["spec09", final, issued, wire] => do
    let pairs (t : String) : Option (List (Nat × Nat)) :=
      if t == "_" then some [] else (t.splitOn ",").mapM fun p =>
        match p.splitOn ":" with
        | [a, b] => do pure ((← a.toNat?), (← b.toNat?))
        | _ => none
    let iss ← pairs issued
    let w ← pairs wire
    let items : List Go.Send.Item := w.map fun (a, b) => ⟨a, b⟩
    pure (okFail (if final == "1" then Spec.Send.okComplete iss items else Spec.Send.okPrefix (iss.map (·.1)) items))
  | ["spec03", evs] => do
    let ev (t : String) : Option Go.Dispatch.Obs :=
      match t.splitOn ":" with
      | ["E", k, h, a] => do pure (.fgEnter (← k.toNat?) (← h.toNat?) (← a.toNat?))
      | ["X", k, h, a] => do pure (.fgExit (← k.toNat?) (← h.toNat?) (← a.toNat?))
      | ["B", k, h, a] => do pure (.bgEnter (← k.toNat?) (← h.toNat?) (← a.toNat?))
      | ["CE", k, h] => do pure (.connEnter (← k.toNat?) (← h.toNat?))
      | ["CX", k, h] => do pure (.connExit (← k.toNat?) (← h.toNat?))
      | ["W", k] => do pure (.welcomeApplied (← k.toNat?))
      | ["D"] => some .discEnter
      | _ => none
    let l ← (if evs == "_" then some [] else (evs.splitOn ",").mapM ev)
    pure (if Spec.Dispatch.ok l then "ok" else
      "fail:" ++ (if !Spec.Dispatch.serial l none then "serial " else "") ++ (if !Spec.Dispatch.connAfterWelcome l [] then "connAfterWelcome " else "")
        ++ (if !Spec.Dispatch.nothingAfterDisc l false then "nothingAfterDisc " else "") ++ (if !Spec.Dispatch.trackerTiming l then "trackerTiming" else ""))
  | ["spec06", final, evs] => do
    let l ← (if evs == "_" then some [] else (evs.splitOn ",").mapM lifeEv)
    pure (okFail (if final == "1" then Spec.Life.okFinal l else Spec.Life.okPrefix l))
  | ["spec19ls", caps, sasl, adv, out] => do
    pure (okFail (Spec.Caps.okAfterLS (← listDecode caps) (sasl == "1") (← listDecode adv) (← listDecode out)))
  | ["spec19ack", sasl, acked, out] => do
    pure (okFail (Spec.Caps.okAfterACK (← saslDecode sasl) (← listDecode acked) (← listDecode out)))
  | ["spec19held", acks, cap, held] => do
    pure (okFail (Spec.Caps.heldAfter (← listDecode acks) (← hexDecode cap) == (held == "1")))
  | ["spec19pay", sasl, out] => do
    match ← saslDecode sasl with
    | some s => pure (okFail ((← listDecode out) == [Spec.Caps.payload s]))
    | none => none
  | ["spec19end", out] => do pure (okFail ((← listDecode out) == [Spec.Caps.CAPEND]))
  | ["spec18reg", capneg, pass, nick, ident, name, out] => do
    pure (okFail (Spec.Register.expected (capneg == "1") (← hexDecode pass) (← hexDecode nick) (← hexDecode ident) (← hexDecode name) == (← listDecode out)))
  | ["dialaddr", ssl, server] => do pure (hexEncode (Spec.Register.dialAddr (ssl == "1") (← hexDecode server)))
  | ["spec18addr", ssl, server, got] => do
    pure (okFail (Spec.Register.expectedAddr (ssl == "1") (← hexDecode server) == (← hexDecode got)))
  | ["spec20", pass, records] => do
    let p ← hexDecode pass
    pure (okFail (p.isEmpty || (← listDecode records).all (fun r => !Spec.Register.occurs p r)))
  | ["logof", line] => do pure (hexEncode (Spec.Register.logOf (← hexDecode line)))
  | ["newnick", gen, old] => do pure (hexEncode ((← newNickDecode gen) (← hexDecode old)))
  | _ => none

end Driver
