import Driver.Hex
import Goirc.Spec.Irc
/-! Canonical text encoding of `Line` and `Msg` for the line protocol. -/
namespace Driver
open Go Spec.Irc

def bytesLt (a b : Bytes) : Bool := decide (a < b)

def insertSorted (p : Bytes × Bytes) : List (Bytes × Bytes) → List (Bytes × Bytes)
  | [] => [p]
  | q :: rest => if bytesLt p.1 q.1 then p :: q :: rest else q :: insertSorted p rest

def sortByKey (m : List (Bytes × Bytes)) : List (Bytes × Bytes) := m.foldl (fun acc p => insertSorted p acc) []

def tagsEncode : Option (List (Bytes × Bytes)) → String
  | none => "nil"
  | some [] => "empty"
  | some m => ";".intercalate ((sortByKey m).map fun p => hexEncode p.1 ++ ":" ++ hexEncode p.2)

def lineEncode (l : Line) : String :=
  s!"line tags={tagsEncode l.tags} nick={hexEncode l.nick} ident={hexEncode l.ident} host={hexEncode l.host} src={hexEncode l.src} cmd={hexEncode l.cmd} raw={hexEncode l.raw} args={listEncode l.args}"

def optLineEncode : Option Line → String
  | none => "nil"
  | some l => lineEncode l

def kv (w : String) : Option (String × String) :=
  match w.splitOn "=" with
  | [k, v] => some (k, v)
  | _ => none

def tagsDecode (s : String) : Option (Option (List (Bytes × Bytes))) :=
  if s == "nil" then some none
  else if s == "empty" then some (some [])
  else do
    let ps ← (s.splitOn ";").mapM fun p =>
      match p.splitOn ":" with
      | [k, v] => do pure ((← hexDecode k), (← hexDecode v))
      | _ => none
    pure (some ps)

/-- decode the words after "line" -/
def lineDecode (ws : List String) : Option Line := do
  let ps ← ws.mapM kv
  let get (k : String) : Option String := (ps.find? (·.1 == k)).map (·.2)
  pure { tags := ← tagsDecode (← get "tags"), nick := ← hexDecode (← get "nick"), ident := ← hexDecode (← get "ident"),
         host := ← hexDecode (← get "host"), src := ← hexDecode (← get "src"), cmd := ← hexDecode (← get "cmd"),
         raw := ← hexDecode (← get "raw"), args := ← listDecode (← get "args") }

/-- ToUpper on non-ASCII input comes from the harness as a table (`in:out,...` or `_`);
a missing entry yields a sentinel so that the reply can ask for it -/
def sentinel : Bytes := [0xFF, 0xFE, 0x55]

def tableDecode (s : String) : Option (List (Bytes × Bytes)) :=
  if s == "_" then some [] else (s.splitOn ",").mapM fun p =>
    match p.splitOn ":" with
    | [k, v] => do pure ((← hexDecode k), (← hexDecode v))
    | _ => none

def extOf (table : List (Bytes × Bytes)) : UnicodeExt :=
  { upper := fun x => match table.find? (·.1 == x) with | some p => p.2 | none => sentinel ++ x,
    lower := fun x => match table.find? (·.1 == x) with | some p => p.2 | none => sentinel ++ x }

/-- if the line's decisive strings contain the sentinel, report which input needs a table entry -/
def needs (l : Line) : Option Bytes :=
  if hasPrefix l.cmd sentinel then some (l.cmd.drop 3)
  else match l.args with
    | a :: _ => if hasPrefix a sentinel then some (a.drop 3) else none
    | [] => none

def msgDecode (ws : List String) : Option Msg := do
  let ps ← ws.mapM kv
  let get (k : String) : Option String := (ps.find? (·.1 == k)).map (·.2)
  let tagsS ← get "tags"
  let tags : Option (List (Bytes × Option Bytes)) ←
    (if tagsS == "nil" then some none
    else if tagsS == "empty" then some (some [])
    else do
      let l ← (tagsS.splitOn ";").mapM (fun p =>
        match p.splitOn ":" with
        | [k] => do pure ((← hexDecode k), (none : Option Bytes))
        | [k, v] => do pure ((← hexDecode k), some (← hexDecode v))
        | _ => none)
      pure (some l))
  let srcS ← get "src"
  let source : Option Source ←
    match srcS.splitOn ":" with
    | ["nil"] => some none
    | ["s", n] => do pure (some (.server (← hexDecode n)))
    | ["u", n, u, h] => do pure (some (.user (← hexDecode n) (← hexDecode u) (← hexDecode h)))
    | _ => none
  let verb ← hexDecode (← get "verb")
  let midS ← get "mid"
  let middles : List (Nat × Bytes) ←
    (if midS == "_" then some [] else (midS.splitOn ",").mapM (fun p =>
      match p.splitOn ":" with
      | [n, b] => do pure ((← n.toNat?), (← hexDecode b))
      | _ => none))
  let trS ← get "trail"
  let trailing : Option (Nat × Bytes) ←
    match trS.splitOn ":" with
    | ["nil"] => some none
    | [n, b] => do pure (some ((← n.toNat?), (← hexDecode b)))
    | _ => none
  pure { tags, source, verb, middles, trailing }

end Driver
