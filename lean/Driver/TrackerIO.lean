import Driver.Hex
import Goirc.Spec.Tracker
/-! Canonical text encodings for tracker values, and the `tk` sub-protocol. -/
namespace Driver
open Go.Tracker

def bit (b : Bool) : String := if b then "1" else "0"
def sortStr (l : List String) : List String := l.mergeSort (fun a b => !(b < a))

def encPrivs (p : ChanPrivs) : String := bit p.owner ++ bit p.admin ++ bit p.op ++ bit p.halfOp ++ bit p.voice
def encNickMode (m : NickMode) : String :=
  bit m.bot ++ bit m.invisible ++ bit m.oper ++ bit m.wallOps ++ bit m.hiddenHost ++ bit m.ssl
def encChanMode (m : ChanMode) : String :=
  bit m.priv ++ bit m.secret ++ bit m.protectedTopic ++ bit m.noExternalMsg ++ bit m.moderated ++
  bit m.inviteOnly ++ bit m.operOnly ++ bit m.sslOnly ++ bit m.registered ++ bit m.allSSL ++ "," ++ hexEncode m.key ++ "," ++ toString m.limit

def encMemb (l : List (Bytes × ChanPrivs)) : String :=
  "[" ++ ";".intercalate (sortStr (l.map fun (k, p) => hexEncode k ++ ":" ++ encPrivs p)) ++ "]"

def encNickSnap (n : NickSnap) : String :=
  s!"N({hexEncode n.nick},{hexEncode n.ident},{hexEncode n.host},{hexEncode n.name},{encNickMode n.modes},{encMemb n.channels})"
def encChanSnap (c : ChanSnap) : String :=
  s!"C({hexEncode c.name},{hexEncode c.topic},{encChanMode c.modes},{encMemb c.nicks})"

def encRet : Ret → String
  | .nick none => "nick:nil"
  | .nick (some n) => "nick:" ++ encNickSnap n
  | .chan none => "chan:nil"
  | .chan (some c) => "chan:" ++ encChanSnap c
  | .privs none ok => "privs:nil," ++ bit ok
  | .privs (some p) ok => "privs:" ++ encPrivs p ++ "," ++ bit ok
  | .assoc none => "assoc:nil"
  | .assoc (some p) => "assoc:" ++ encPrivs p
  | .unit => "unit"

/-- the Spec's observable view: me, every nick, every channel (sorted) -/
def encObsS (s : Spec.Tracker.S) : String :=
  let ns := sortStr ((AL.keys s.nicks).map fun n => encNickSnap (Spec.Tracker.nickSnap s n))
  let cs := sortStr ((AL.keys s.chans).map fun c => encChanSnap (Spec.Tracker.chanSnap s c))
  s!"me={encNickSnap (Spec.Tracker.nickSnap s s.me)}|nicks=[{";".intercalate ns}]|chans=[{";".intercalate cs}]"

/-- the model's observable view through its own exported operations -/
def encObsM (s : St) : String :=
  let ns := sortStr ((AL.keys s.nicks).map fun n => match (step s (.getNick n)).2 with | .nick (some x) => encNickSnap x | _ => "?")
  let cs := sortStr ((AL.keys s.chans).map fun c => match (step s (.getChannel c)).2 with | .chan (some x) => encChanSnap x | _ => "?")
  s!"me={encNickSnap (nickSnap s s.me)}|nicks=[{";".intercalate ns}]|chans=[{";".intercalate cs}]"

/-- the model's internal maps, pointer ids replaced by the names of the objects pointed to -/
def encDumpM (s : St) : String :=
  let nk := sortStr (s.nicks.map fun (k, i) =>
    let o := getN s i
    let lk := sortStr (o.lookup.map fun (cn, ci) => hexEncode cn ++ ">" ++ hexEncode (getC s ci).name)
    let ch := sortStr (o.chans.map fun (ci, cell) =>
      hexEncode (getC s ci).name ++ ":" ++ encPrivs (getP s cell) ++ ":" ++ bit (AL.lookup (getC s ci).nicks i == some cell))
    s!"{hexEncode k}=>nick={hexEncode o.nick},lookup=[{";".intercalate lk}],chans=[{";".intercalate ch}]")
  let cs := sortStr (s.chans.map fun (k, i) =>
    let o := getC s i
    let lk := sortStr (o.lookup.map fun (nn, ni) => hexEncode nn ++ ">" ++ hexEncode (getN s ni).nick)
    let nn := sortStr (o.nicks.map fun (ni, cell) =>
      hexEncode (getN s ni).nick ++ ":" ++ encPrivs (getP s cell) ++ ":" ++ bit (AL.lookup (getN s ni).chans i == some cell))
    s!"{hexEncode k}=>name={hexEncode o.name},lookup=[{";".intercalate lk}],nicks=[{";".intercalate nn}]")
  "nicks{" ++ "|".intercalate nk ++ "}chans{" ++ "|".intercalate cs ++ "}me=" ++ hexEncode (getN s s.me).nick

def parseOp (m : String) (args : List String) : Option Op :=
  let b := hexDecode
  match m, args with
  | "NewNick", [a] => do pure (.newNick (← b a))
  | "GetNick", [a] => do pure (.getNick (← b a))
  | "ReNick", [a, c] => do pure (.reNick (← b a) (← b c))
  | "DelNick", [a] => do pure (.delNick (← b a))
  | "NickInfo", [a, c, d, e] => do pure (.nickInfo (← b a) (← b c) (← b d) (← b e))
  | "NickModes", [a, c] => do pure (.nickModes (← b a) (← b c))
  | "NewChannel", [a] => do pure (.newChannel (← b a))
  | "GetChannel", [a] => do pure (.getChannel (← b a))
  | "DelChannel", [a] => do pure (.delChannel (← b a))
  | "Topic", [a, c] => do pure (.topic (← b a) (← b c))
  | "ChannelModes", [a, c, l] => do pure (.channelModes (← b a) (← b c) (← listDecode l))
  | "Me", [] => some .me
  | "IsOn", [a, c] => do pure (.isOn (← b a) (← b c))
  | "Associate", [a, c] => do pure (.associate (← b a) (← b c))
  | "Dissociate", [a, c] => do pure (.dissociate (← b a) (← b c))
  | "Wipe", [] => some .wipe
  | _, _ => none

structure TkState where
  m : St
  s : Spec.Tracker.S
  lastS : String := "unit"

def tkHandle (st : Option TkState) (ws : List String) : Option TkState × String :=
  match ws with
  | ["new", me] =>
    match hexDecode me with
    | some me => (some { m := Go.Tracker.new me, s := Spec.Tracker.new me }, "ok")
    | none => (st, "bad-op")
  | ["obs"] => match st with | some t => (st, encObsM t.m) | none => (st, "bad-op")
  | ["dump"] => match st with | some t => (st, encDumpM t.m) | none => (st, "bad-op")
  -- Spec evaluated on the implementation's answers
  | ["specret", impl] => match st with
    | some t => (st, if t.lastS == impl then "ok" else "fail:spec=" ++ t.lastS)
    | none => (st, "bad-op")
  | ["specobs", impl] => match st with
    | some t => (st, if encObsS t.s == impl then "ok" else "fail:spec=" ++ encObsS t.s)
    | none => (st, "bad-op")
  | op :: args =>
    match st, parseOp op args with
    | some t, some o =>
      let (m', r) := step t.m o
      let (s', rs) := Spec.Tracker.step t.s o
      (some { m := m', s := s', lastS := encRet rs }, encRet r)
    | _, _ => (st, "bad-op")
  | _ => (st, "bad-op")

end Driver
