#!/bin/bash
# sweep.sh <tier> <first-seed> <last-seed> [props...]: run the checks on the unchanged tree with many seeds; prints one line
# per run and every VIOLATION (there must be none). Meant for `vp run` (builds in the snapshot it is started in).
T=${1:-quick}; A=${2:-2}; B=${3:-20}; shift 3
P=${@:-C01 C02 C03 C04 C05 C06 C07 C08 C09 C10 C11 C12 C13 C14 C15 C16 C17 C18 C19 C20}
cd "$(dirname "$0")/.." || exit 2
[ -x harness/bin/corr ] || ./setup.sh >/dev/null 2>&1 || { echo "setup failed"; exit 2; }
for s in $(seq $A $B); do for p in $P; do
  out=$(VERIF_SEED=$s ./check $p $T 2>&1 | tail -8)
  echo "$out" | grep -E "^check |VIOLATION|KNOWN|failing input|no longer" 
done; done
echo sweep done
