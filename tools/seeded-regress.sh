#!/bin/bash
# seeded-regress.sh [name-prefix]: regression suite for the checks themselves. Every stored seeded change that still
# applies to /repo's HEAD is applied in a scratch worktree (never in /repo), the quick check of its property is run
# against that worktree (VERIF_REPO) and must report a VIOLATION. Prints one line per change. Works from a snapshot
# of /verif too (vp run): it builds what it needs where it is.
cd "$(dirname "$0")/.." || exit 2
[ -x harness/bin/extract ] && [ -x lean/.lake/build/bin/driver ] || ./setup.sh >/dev/null 2>&1 || { echo "setup failed"; exit 2; }
WT=/tmp/regress-wt-$$
git -C /repo worktree add --detach $WT HEAD >/dev/null 2>&1 || { echo "cannot create worktree"; exit 2; }
trap 'git -C /repo worktree remove --force $WT >/dev/null 2>&1; rm -rf harness/bin/*-$(echo -n $WT | sha256sum | cut -c1-8)*' EXIT
for d in seeded/${1:-}*/; do
  n=$(basename $d); p=${n%%-*}
  git -C $WT checkout -q -- . ; git -C $WT clean -fdq
  if ! git -C $WT apply --check $PWD/$d/patch.diff 2>/dev/null; then
    if ! (cd $WT && patch -p1 --dry-run -s -F3 < $OLDPWD/$d/patch.diff >/dev/null 2>&1); then echo "$n: SKIP (does not apply to HEAD)"; continue; fi
    (cd $WT && patch -p1 -s -F3 < $OLDPWD/$d/patch.diff >/dev/null; find . -name '*.orig' -delete)
  else
    git -C $WT apply $PWD/$d/patch.diff
  fi
  out=$(VERIF_REPO=$WT ./check $p quick 2>&1 | tail -12)
  v=$(echo "$out" | grep -c "^VIOLATION property=$p")
  nf=$(echo "$out" | grep -c "no-failing-input-found")
  t=$(echo "$out" | grep -o "[0-9.]*s$" | tail -1)
  if [ "$v" = 1 ] && [ "$nf" = 0 ]; then echo "$n: caught, concrete failing input ($t)";
  elif [ "$v" = 1 ]; then echo "$n: caught, no failing input found ($t)";
  else echo "$n: MISSED ($t)"; fi
done
echo regress done
