#!/bin/bash
# seeded-regress.sh [name-prefix]: regression suite for the checks themselves. Every stored seeded change that still
# applies to /repo's HEAD is applied, the quick check of its property is run and must report a VIOLATION, and the
# change is undone. Evidence is restored afterwards (it must come from the unchanged tree). Prints one line per change.
cd /verif || exit 2
git -C /repo diff --quiet || { echo "/repo not clean"; exit 2; }
EVBAK=$(mktemp -d); cp -r evidence/. $EVBAK/
for d in seeded/${1:-}*/; do
  n=$(basename $d); p=${n%%-*}
  if ! git -C /repo apply --check $PWD/$d/patch.diff 2>/dev/null; then
    if ! (cd /repo && patch -p1 --dry-run -s -F3 < /verif/$d/patch.diff >/dev/null 2>&1); then echo "$n: SKIP (does not apply to HEAD)"; continue; fi
    (cd /repo && patch -p1 -s -F3 < /verif/$d/patch.diff >/dev/null)
  else
    git -C /repo apply $PWD/$d/patch.diff
  fi
  out=$(./check $p quick 2>&1 | tail -12)
  v=$(echo "$out" | grep -c "^VIOLATION property=$p")
  nf=$(echo "$out" | grep -c "no-failing-input-found")
  t=$(echo "$out" | grep -o "[0-9.]*s$" | tail -1)
  if [ "$v" = 1 ] && [ "$nf" = 0 ]; then echo "$n: caught, concrete failing input ($t)";
  elif [ "$v" = 1 ]; then echo "$n: caught, no failing input found ($t)";
  else echo "$n: MISSED ($t)"; fi
  git -C /repo checkout -- . ; git -C /repo clean -fdq -e '*.orig' ; find /repo -name '*.orig' -delete; find /repo -name '*.rej' -delete
done
rm -rf evidence; mkdir -p evidence; cp -r $EVBAK/. evidence/; rm -rf $EVBAK
git -C /repo status --short
