#!/bin/bash
# runall.sh [tier]: run every registered check on the current tree (refreshes evidence/)
cd /verif
T=${1:-quick}
python3 -c "import json;print(' '.join(c['property_id'] for c in json.load(open('MANIFEST.json'))['checks']))" | tr ' ' '\n' | while read p; do ./check $p $T | tail -3; done
