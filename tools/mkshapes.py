#!/usr/bin/env python3
"""mkshapes.py <tags> <name>... : print FactsCheck theorems pinning the current fingerprints."""
import re, sys
facts = open('/verif/lean/Goirc/Facts.lean').read()
tags = sys.argv[1]
for n in sys.argv[2:]:
    m = re.search(r'def %s : Option String := some "([0-9a-f]+)"' % re.escape(n), facts)
    if not m: sys.exit("no fact " + n)
    print('/-- [%s] `%s` is the body the model transcribes -/' % (tags, n.replace("shape_", "").replace("_", ".")))
    print('theorem %s : Facts.%s = some "%s" := by decide\n' % (n, n, m.group(1)))
