#!/bin/bash
# trywt.sh <property> <worktree> [tier]: confirm a seeded change inside its own scratch worktree (which has the change
# applied): builds with and without the tag, baseline passes, demo fails with / passes without the change; then run our
# check against that worktree (VERIF_REPO), leaving /repo and evidence/ untouched.
set -u
P=$1; WT=$2; T=${3:-quick}
export GOFLAGS=-mod=mod GOPROXY=off GOSUMDB=off GOTOOLCHAIN=local
cd $WT || exit 2
DEMO=$(python3 -c "import json;print(json.load(open('$WT/meta.json'))['demo'])")
REL=${DEMO#$WT/}; PKG=./$(dirname $REL)/
git diff --quiet && { echo "worktree has no change applied"; git apply patch.diff || exit 2; }
echo "== build"; go build ./... && go build -tags verif ./... || echo BUILD-FAIL
mv "$DEMO" /tmp/.demo.$$ 
echo "== baseline with change"; go test -vet=off -count=1 ./... 2>&1 | grep -v "no test files"
mv /tmp/.demo.$$ "$DEMO"
echo "== demo with change (expect FAIL)"; go test -vet=off -count=1 -run TestSeededDemo $PKG 2>&1 | tail -4
git diff -- . ':!patch.diff' > /tmp/.cur.$$.diff
git apply -R /tmp/.cur.$$.diff
echo "== demo without change (expect ok)"; go test -vet=off -count=1 -run TestSeededDemo $PKG 2>&1 | tail -2
git apply /tmp/.cur.$$.diff; rm -f /tmp/.cur.$$.diff
mv "$DEMO" /tmp/.demo.$$
echo "== check $P $T"; (cd /verif && VERIF_REPO=$WT ./check $P $T 2>&1 | tail -8)
mv /tmp/.demo.$$ "$DEMO"
