#!/bin/bash
# keepmutant.sh <name> <worktree> "<caught-by text>" : store a confirmed seeded change under /verif/seeded/<name>/
N=$1; WT=$2; CAUGHT=$3
D=/verif/seeded/$N; mkdir -p $D
cp $WT/patch.diff $D/patch.diff
DEMO=$(python3 -c "import json;print(json.load(open('$WT/meta.json'))['demo'])")
cp "$DEMO" $D/$(basename $DEMO)
python3 - "$WT/meta.json" "$D/meta.json" "$CAUGHT" "${DEMO#$WT/}" <<'PY'
import json,sys
m=json.load(open(sys.argv[1]))
m["demo"]=sys.argv[4]
m["confirmed_by_us"]="tools/trymutant.sh: patch applied to /repo, go build (with and without -tags verif) ok, baseline go test passes, TestSeededDemo fails with the change and passes without it; /repo restored afterwards"
m["our_checks"]=sys.argv[3]
json.dump(m,open(sys.argv[2],"w"),indent=1)
PY
echo kept $D
