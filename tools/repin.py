#!/usr/bin/env python3
"""repin.py: ONLY for the maintainer of /verif, ONLY on the unchanged pinned tree: rewrite the pinned values of the
shape_* and closure_* obligations in FactsCheck.lean from the freshly regenerated Facts.lean and refresh the golden files.
(Run after adding a GenCheck obligation or changing the extractor's normalisation; never to make a changed tree pass.)"""
import re, shutil, subprocess, sys, os
V = os.path.dirname(os.path.dirname(os.path.abspath(__file__)))
if subprocess.run(["git", "-C", "/repo", "diff", "--quiet"]).returncode != 0:
    sys.exit("/repo has uncommitted changes: refusing to re-pin")
facts = open(V + "/lean/Goirc/Facts.lean").read()
vals = dict(re.findall(r'def ((?:shape|closure)_\w+) : Option String := some "([^"]*)"', facts))
fc = open(V + "/lean/Goirc/FactsCheck.lean").read()
n = 0
def sub(m):
    global n
    name, old = m.group(1), m.group(2)
    new = vals.get(name)
    if new is not None and new != old:
        n += 1
        return 'theorem %s : Facts.%s = some "%s"' % (name, name, new)
    return m.group(0)
fc = re.sub(r'theorem ((?:shape|closure)_\w+) : Facts\.\1 = some "([^"]*)"', sub, fc)
open(V + "/lean/Goirc/FactsCheck.lean", "w").write(fc)
shutil.copy(V + "/lean/Goirc/Facts.lean", V + "/lean/Goirc/Facts.golden")
if os.path.exists(V + "/lean/Goirc/Gen/Pure.lean"): shutil.copy(V + "/lean/Goirc/Gen/Pure.lean", V + "/lean/Goirc/Gen/Pure.golden")
print("re-pinned %d obligations" % n)
