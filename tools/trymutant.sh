#!/bin/bash
# trymutant.sh <property> <worktree> [checks...]: confirm a seeded change (compiles, baseline passes,
# demo fails with / passes without), then run our checks against it on /repo and undo it.
set -u
P=$1; WT=$2; shift 2; CHECKS=${@:-$P}
export GOFLAGS=-mod=mod GOPROXY=off GOSUMDB=off GOTOOLCHAIN=local
cd /repo || exit 2
git diff --quiet || { echo "/repo not clean"; exit 2; }
DEMO=$(python3 -c "import json;print(json.load(open('$WT/meta.json'))['demo'])")
REL=${DEMO#$WT/}
echo "== apply"; git apply "$WT/patch.diff" || exit 2
git diff --stat | tail -1
echo "== build"; go build ./... && go build -tags verif ./... || echo BUILD-FAIL
echo "== baseline with change"; go test -vet=off -count=1 ./... 2>&1 | grep -v "no test files"
cp "$DEMO" "/repo/$REL"
echo "== demo with change (expect FAIL)"; go test -vet=off -count=1 -run TestSeededDemo ./$(dirname $REL)/ 2>&1 | tail -3
rm -f "/repo/$REL"
EVBAK=$(mktemp -d); cp -r /verif/evidence/. $EVBAK/
for c in $CHECKS; do echo "== check $c"; (cd /verif && ./check $c 2>&1 | tail -6); done
rm -rf /verif/evidence; mkdir -p /verif/evidence; cp -r $EVBAK/. /verif/evidence/; rm -rf $EVBAK   # evidence must come from the unchanged tree
git checkout -- . ; rm -f "/repo/$REL"
cp "$DEMO" "/repo/$REL"
echo "== demo without change (expect ok)"; go test -vet=off -count=1 -run TestSeededDemo ./$(dirname $REL)/ 2>&1 | tail -2
rm -f "/repo/$REL"; git status --short
