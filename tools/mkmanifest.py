#!/usr/bin/env python3
"""Regenerates MANIFEST.json from the table below (keeps it valid at all times)."""
import json, os
V = os.path.dirname(os.path.dirname(os.path.abspath(__file__)))

# id -> (technique, level text, level note, design ref)
CLAIMED = {
 "C01": ("Lean 4 theorems over a statement-by-statement model of ParseLine and the accessors + the message grammar as an executable Spec + go/ast facts + differential correspondence on Spec-rendered messages",
         "Machine-checked proof of the round trip parseLine (render m) = some (expected m) for EVERY well-formed message m (tags incl. key-only/empty/escaped values and duplicate keys, server and nick!user@host sources, any-case letter verbs and numerics, any number of middles with extra spaces, optional trailing, CTCP/ACTION rewriting) and every behaviour of ToUpper on non-ASCII input; plus unescape . escape = id, accessor consistency for every line, Copy equality, Raw unchanged. Tied to the tree by the replacer-pair fact, the pinned bodies of ParseLine, parseUserHost, Copy, Text, Target, Public, by a differential run on messages generated from the Spec's Msg type and rendered by the Lean driver (so the real parser is fed the theorem's `render m` and compared with `expected m`), and by delivering the same messages over an in-memory connection in several read chunkings to a foreground handler.",
         "Trusted: Lean kernel; extractor; harness + driver; Go's strings.Fields/TrimSpace/Index/SplitN as transcribed in lean/Goirc/Go/Strings.lean (Unicode white space recognised by encoding; argued exact in that file, validated on invalid UTF-8); strings.ToUpper on non-ASCII input is a parameter of the model (the harness supplies Go's value).",
         "6 (C01)"),
 "C02": ("Lean 4 total model of ParseLine/accessors with explicit guards + theorem that every line is rejected or has consistent accessors + bounded-exhaustive and random differential correspondence including panic/no-panic",
         "The model of the parser and accessors is a total Lean function with no panic outcome, proved to reject or to yield a line whose accessors are defined and consistent for every byte string; that the Go code agrees - including whether it panics - is checked on every token sequence up to length 3 (4 in thorough) over the property's alphabet, random byte strings and mutations of valid lines. A Go panic is reported as a concrete failing input.",
         "Trusted: as C01. Panics inside Go's runtime/stdlib and in user Recover functions are outside the model. End-to-end survival over a real connection is covered with the dispatch checks (C03/C16).",
         "6 (C02)"),
 "C11": ("Lean 4 theorems over the splitMessage model (well-founded recursion; induction) + go/ast facts + differential correspondence",
         "Machine-checked proof (Lean 4, no sorry/axioms beyond propext/Classical.choice/Quot.sound) that the model of splitMessage satisfies the executable C11 predicate for every text and every SplitLen (lossless, bounded, marker, non-empty, default 450); the model is tied to the working tree by regenerated facts (constants, separator table, normalised function bodies) and by a differential run of the real splitMessage against the compiled model, with the Spec predicate also evaluated on the implementation's own output.",
         "Trusted: Lean kernel; the go/ast extractor; the Go harness and compiled driver; Go's strings.LastIndex and slicing as transcribed in lean/Goirc/Go/Bytes.lean. The tie is sampled (counts in the evidence), the theorem is not.",
         "6 (C11)"),
 "C08": ("Lean 4 theorem over an inductive model of all 28 command methods (case analysis + list lemmas) + go/ast facts + differential correspondence",
         "Machine-checked proof that for every command constructor, every byte string in every argument position, every SplitLen and every behaviour of ToUpper on non-ASCII input, each line the model puts on the outgoing queue is free of CR/LF and begins with the method's verb, and that the bytes write emits re-split at CRLF into exactly those lines. Tied to the tree by facts (only Raw sends on conn.out; the exported methods reaching Raw are exactly the modelled ones; verb constants; normalised bodies of Raw, write, cutNewLines, splitArgs and every command method) and by a differential run of every method on a real Conn against the compiled model, with the Spec predicate evaluated on the implementation's queue contents.",
         "Trusted: Lean kernel; extractor; harness + driver; fmt.Sprintf/Sprintln (Privmsgf/ln are modelled as Privmsg of the formatted string); bufio write+flush delivering the queued line followed by CRLF (write's body is pinned by a fact; bytes on a real connection are compared in C09's correspondence).",
         "6 (C08)"),
 "C10": ("Lean 4 theorems over the rateLimit arithmetic and over valid timed runs (invariant + accumulation lemma, omega) + facts + exact/interval differential correspondence",
         "Machine-checked proof of the per-line rule (charge 2 s + chars/120 s; penalty' = max 0 (penalty + charge - elapsed); held for its own charge iff penalty' > 10 s; Flood => never delayed) and of the window bound for every run of consecutive lines in every history of a fresh client under every scheduling delay (total charge <= wall-clock between first and last write + 10 s + the first two lines' charges). Tied to the tree by the pinned bodies of rateLimit and write and by running the real rateLimit in an exact regime (saturated elapsed, penalties placed on 10 s - 1 ns / 10 s / 10 s + 1 ns) and a real-clock regime judged by the interval Spec.",
         "Trusted: Lean kernel; extractor; harness + driver; time.Now monotonic, time.After not early (assumptions of the Valid predicate); int64 wrap-around not modelled.",
         "6 (C10)"),
}
ALL = [l for l in open(os.path.join(V, "properties.jsonl"))]
ids = [json.loads(l)["id"] for l in ALL]

checks = []
for pid in ids:
    if pid not in CLAIMED: continue
    tech, text, note, ref = CLAIMED[pid]
    checks.append({
        "property_id": pid,
        "quick_cmd": "./check %s quick" % pid,
        "thorough_cmd": "./check %s thorough" % pid,
        "evidence_file": "/verif/evidence/%s.json" % pid,
        "replay_cmd_template": "./check %s --replay {path}" % pid,
        "engine": "lean4-proof+correspondence",
        "level_claimed": {"category": "proof", "text": text, "design_ref": "DESIGN.md section " + ref},
        "level_note": note,
        "technique": tech,
    })
na = [{"property_id": pid, "reason": "not yet covered: model, theorems and correspondence for this property are still being built (see DESIGN.md section 6); nothing is claimed until its check runs"}
      for pid in ids if pid not in CLAIMED]
m = {
 "version": 1,
 "setup_cmd": "./setup.sh",
 "hooks": {"guard": "verif", "enable": "go build -tags verif (harness module replaces github.com/fluffle/goirc => /repo)",
           "baseline_off_cmd": "cd /repo && go test -mod=mod -vet=off -count=1 ./...",
           "source_commits": [l.strip() for l in open(os.path.join(V, "MANIFEST.hooks")) if l.strip() and not l.startswith("#")],
           "add_only": True},
 "engines": [{"name": "lean4-proof+correspondence", "path": "/verif/check",
              "serves_properties": [c["property_id"] for c in checks],
              "kind_free_text": "Lean 4 theorems about hand-written executable models (lean/Goirc); tie A = facts regenerated from /repo by a go/ast extractor with kernel-checked obligations; tie B = Go harness running the real code against the compiled Lean driver, Spec predicates evaluated on implementation output"}],
 "checks": checks,
 "not_applicable": na,
 "notes": "All checks are ./check <id> <tier>; VERIF_SEED selects the PRNG seed. Fuzzing/enumeration is used only to validate the model against the code and to search for replays; the property-level claim is the Lean theorem.",
}
json.dump(m, open(os.path.join(V, "MANIFEST.json"), "w"), indent=1)
print("MANIFEST.json: %d claimed, %d not yet" % (len(checks), len(na)))
