#!/usr/bin/env python3
"""Regenerates MANIFEST.json from the table below (keeps it valid at all times)."""
import json, os
V = os.path.dirname(os.path.dirname(os.path.abspath(__file__)))

# id -> (technique, level text, level note, design ref)
CLAIMED = {
 "C12": ("Lean 4 refinement proof (simulation relation WF + Abs, one lemma per operation, ~2800 lines) between a heap-faithful model of the tracker and the plain relational Spec + facts + differential correspondence incl. internal maps",
         "Machine-checked proof that for EVERY sequence of the 16 tracker operations (any names incl. empty and in-use ones, any mode strings and arguments) every return value of the heap-faithful model - ids for *nick/*channel/*ChanPrivs, st.nicks/st.chans, both lookup maps, both pointer-keyed maps, shared privilege cells - equals that of the relational Spec (nicks, channels, membership relation with privileges, me), snapshot maps compared as finite maps; queries are operations, so every query after every history is covered. Tied to the tree by pinned bodies of every tracker/nick/channel method and by random operation walks on the real tracker comparing, after every step, the return value, the full public observation and a dump of the internal two-way maps (pointer sharing included) with the model, with the Spec evaluated on the implementation's own answers.",
         "Trusted: Lean kernel; extractor; harness + driver; Go map iteration order (the model iterates in list order; the Spec side is proved order-independent, the Go side is exercised with Go's real random order); strconv.Atoi as transcribed. Left unspecified by the property and fixed as the code does it: a privilege change for a non-member and -k consume no argument.",
         "6 (C12)"),
 "C09": ("Lean 4 invariant proof over the Send LTS (any number of senders, any interleaving, any queue capacity) + facts + concurrent sender sessions judged by Spec.Send",
         "Machine-checked proof that in every reachable state of the outgoing-path LTS, for every sender, wire ++ in-flight ++ queue holds exactly the lines it issued, once each, in issue order; hence the wire is per sender an in-order duplicate-free prefix, nothing issued is lost, and while the connection is up the send goroutine always has an enabled step that moves a pending line to the wire. Tied to the tree by the facts that only Raw sends on conn.out and the pinned bodies of Raw, send and write, and by real connections with 1..32 concurrent senders (user goroutines, foreground and background handlers) x 1..2000 lines x fast/slow/bursty server, transcript compared byte for byte and judged by the same Spec predicate.",
         "Trusted: Lean kernel; extractor; harness + driver; Go channel FIFO semantics and goroutine interleaving as modelled by the LTS (runtime behaviour: partial w.r.t. the Go memory model); bufio write+flush per line.",
         "6 (C09)"),
 "C18": ("Lean 4 theorems over the client model and an address model (register order, hasPort = explicit-port, dial address, PONG token round trip through the proven parser theorem) + facts + real connections through the in-memory dialer",
         "Machine-checked proofs that REGISTER queues exactly CAP LS? PASS? NICK USER in that order for every configuration, that the address computed for dialling is the configured one with :6667/:6697 added exactly when no port was given (and is idempotent across reconnects), and that every PING token free of CR/LF (empty, with spaces, with colons) is answered by exactly PONG :token which re-parses to the same token. Tied to the tree by handler/connect body facts and by real connections over the configuration cross product (first wire lines, address seen by the dialer, PING tokens incl. 400 bytes interleaved with traffic, PingFreq 0 vs >0).",
         "Trusted: Lean kernel; extractor; harness + driver; net.JoinHostPort as transcribed; the periodic ping goroutine is runtime behaviour: its start condition is pinned by the postConnect fact and observed, not proved. Outside the stated configurations: a bracketed IPv6 literal without port becomes [[::1]]:6667.",
         "6 (C18)"),
 "C20": ("Lean 4 non-interference theorems over the client model (log text of registration lines independent of the password; every other handler commutes with setting the password) + facts + capturing-logger sessions",
         "Machine-checked proofs that the PASS line is logged only as the mask whatever the password, that two clients differing only in a non-empty password log identical records for their registration lines, and that for every event other than REGISTER the whole dispatch (output, panics, state) is independent of the password. Tied to the tree by the facts that cfg.Pass is read only in h_REGISTER and that write masks before logging (pinned body), and by sessions with a capturing logger at all four levels (random passwords incl. ones starting with PASS / containing %-verbs, negotiation/tracking on and off, failing dials and TLS handshakes): no format, argument or rendered record may contain the password, twin runs must log identically.",
         "Trusted: Lean kernel; extractor; harness + driver; log records of handlers other than write are functions of data that never contains cfg.Pass (fact), they are not modelled individually.",
         "6 (C20)"),
 "C19": ("Lean 4 theorems over the capability/SASL handlers of the client model against executable Spec.Caps predicates (list/sort/split lemmas, per-handler preservation lemmas) + facts + exhaustive small-universe dialogue correspondence",
         "Machine-checked proofs that after CAP LS a fresh client sends END on an empty intersection and otherwise REQ lines naming exactly wanted n advertised once each with every line <= 450 bytes (any sets of sane names), that a capability is held iff the latest acknowledgement naming it enabled it, that NAK, an ACK that does not start SASL, 903, 904 and 908 each produce exactly CAP END, that the SASL payload is the mechanism's (PLAIN = base64(authzid NUL user NUL pass), EXTERNAL empty => +) and that no AUTHENTICATE payload is produced and no pending SASL response is created except by an ACK of sasl. Tied to the tree by handler/capSet body facts and by driving every dialogue over a 3x4 capability universe x SASL kinds x replies x outcomes (plus 40-300 capability sets that force REQ splitting) through the real handlers, judged by Spec.Caps.",
         "Trusted: Lean kernel; extractor; harness + driver; go-sasl's PLAIN/EXTERNAL clients (transcribed as saslStart; they answer every later challenge with an error); sort.Strings as insertion sort; base64.StdEncoding as transcribed.",
         "6 (C19)"),
 "C17": ("Lean 4 theorem by induction over server scripts generated by an executable Spec (invariant relating the client model's idea of its nick, the tracker and the Spec server) + facts + script correspondence through the real handlers",
         "Machine-checked proof that after EVERY conforming server script (433 before the welcome, 001 with the same or another nick, NICK lines confirming or forcing a change, 433 afterwards, other users' NICKs), with and without state tracking and for every nick generator producing sane names, Me() reports the nick the Spec server uses and Config().Me is not nil; that every collision is answered by NICK <generator(refused)>; and that the default generator yields, for every non-empty nick, a different nick of the same length differing only in its last byte. Tied to the tree by the handler-table and handler-body facts and by running Spec-generated scripts through the real internal handlers, comparing Me()/Config().Me/tracker/replies with the model and with the Spec server.",
         "Trusted: Lean kernel; extractor; harness + driver; handlers of one event run sequentially in the model (in Go they run on separate goroutines; at most one acts per verb). Found and fixed on the way: Config().Me became nil after a welcome confirming the same nick (known_findings.json).",
         "6 (C17)"),
 "C01": ("Lean 4 theorems over a statement-by-statement model of ParseLine and the accessors + the message grammar as an executable Spec + go/ast facts + differential correspondence on Spec-rendered messages",
         "Machine-checked proof of the round trip parseLine (render m) = some (expected m) for EVERY well-formed message m (tags incl. key-only/empty/escaped values and duplicate keys, server and nick!user@host sources, any-case letter verbs and numerics, any number of middles with extra spaces, optional trailing, CTCP/ACTION rewriting) and every behaviour of ToUpper on non-ASCII input; plus unescape . escape = id, accessor consistency for every line, Copy equality, Raw unchanged. Tied to the tree by the replacer-pair fact, the pinned bodies of ParseLine, parseUserHost, Copy, Text, Target, Public, by a differential run on messages generated from the Spec's Msg type and rendered by the Lean driver (so the real parser is fed the theorem's `render m` and compared with `expected m`), and by delivering the same messages over an in-memory connection in several read chunkings to a foreground handler.",
         "Trusted: Lean kernel; extractor; harness + driver; Go's strings.Fields/TrimSpace/Index/SplitN as transcribed in lean/Goirc/Go/Strings.lean (Unicode white space recognised by encoding; argued exact in that file, validated on invalid UTF-8); strings.ToUpper on non-ASCII input is a parameter of the model (the harness supplies Go's value).",
         "6 (C01)"),
 "C02": ("Lean 4 total model of ParseLine/accessors with explicit guards + theorem that every line is rejected or has consistent accessors + bounded-exhaustive and random differential correspondence including panic/no-panic",
         "The model of the parser and accessors is a total Lean function with no panic outcome, proved to reject or to yield a line whose accessors are defined and consistent for every byte string; that the Go code agrees - including whether it panics - is checked on every token sequence up to length 3 (4 in thorough) over the property's alphabet, random byte strings and mutations of valid lines. A Go panic is reported as a concrete failing input.",
         "Trusted: as C01. Panics inside Go's runtime/stdlib and in user Recover functions are outside the model. End-to-end survival over a real connection is covered with the dispatch checks (C03/C16).",
         "6 (C02)"),
 "C11": ("Lean 4 theorems over the splitMessage model (well-founded recursion; induction) + go/ast facts + differential correspondence",
         "Machine-checked proof (Lean 4, no sorry/axioms beyond propext/Classical.choice/Quot.sound) that the model of splitMessage satisfies the executable C11 predicate for every text and every SplitLen (lossless, bounded, marker, non-empty, default 450); the model is tied to the working tree by regenerated facts (constants, separator table, normalised function bodies) and by a differential run of the real splitMessage against the compiled model, with the Spec predicate also evaluated on the implementation's own output.",
         "Trusted: Lean kernel; the go/ast extractor; the Go harness and compiled driver; Go's strings.LastIndex and slicing as transcribed in lean/Goirc/Go/Bytes.lean. The tie is sampled (counts in the evidence), the theorem is not.",
         "6 (C11)"),
 "C08": ("Lean 4 theorem over an inductive model of all 28 command methods (case analysis + list lemmas) + go/ast facts + differential correspondence",
         "Machine-checked proof that for every command constructor, every byte string in every argument position, every SplitLen and every behaviour of ToUpper on non-ASCII input, each line the model puts on the outgoing queue is free of CR/LF and begins with the method's verb, and that the bytes write emits re-split at CRLF into exactly those lines. Tied to the tree by facts (only Raw sends on conn.out; the exported methods reaching Raw are exactly the modelled ones; verb constants; normalised bodies of Raw, write, cutNewLines, splitArgs and every command method) and by a differential run of every method on a real Conn against the compiled model, with the Spec predicate evaluated on the implementation's queue contents.",
         "Trusted: Lean kernel; extractor; harness + driver; fmt.Sprintf/Sprintln (Privmsgf/ln are modelled as Privmsg of the formatted string); bufio write+flush delivering the queued line followed by CRLF (write's body is pinned by a fact; bytes on a real connection are compared in C09's correspondence).",
         "6 (C08)"),
 "C10": ("Lean 4 theorems over the rateLimit arithmetic and over valid timed runs (invariant + accumulation lemma, omega) + facts + exact/interval differential correspondence",
         "Machine-checked proof of the per-line rule (charge 2 s + chars/120 s; penalty' = max 0 (penalty + charge - elapsed); held for its own charge iff penalty' > 10 s; Flood => never delayed) and of the window bound for every run of consecutive lines in every history of a fresh client under every scheduling delay (total charge <= wall-clock between first and last write + 10 s + the first two lines' charges). Tied to the tree by the pinned bodies of rateLimit and write and by running the real rateLimit in an exact regime (saturated elapsed, penalties placed on 10 s - 1 ns / 10 s / 10 s + 1 ns) and a real-clock regime judged by the interval Spec.",
         "Trusted: Lean kernel; extractor; harness + driver; time.Now monotonic, time.After not early (assumptions of the Valid predicate); int64 wrap-around not modelled.",
         "6 (C10)"),
}
ALL = [l for l in open(os.path.join(V, "properties.jsonl"))]
ids = [json.loads(l)["id"] for l in ALL]

checks = []
for pid in ids:
    if pid not in CLAIMED: continue
    tech, text, note, ref = CLAIMED[pid]
    checks.append({
        "property_id": pid,
        "quick_cmd": "./check %s quick" % pid,
        "thorough_cmd": "./check %s thorough" % pid,
        "evidence_file": "/verif/evidence/%s.json" % pid,
        "replay_cmd_template": "./check %s --replay {path}" % pid,
        "engine": "lean4-proof+correspondence",
        "level_claimed": {"category": "proof", "text": text, "design_ref": "DESIGN.md section " + ref},
        "level_note": note,
        "technique": tech,
    })
na = [{"property_id": pid, "reason": "not yet covered: model, theorems and correspondence for this property are still being built (see DESIGN.md section 6); nothing is claimed until its check runs"}
      for pid in ids if pid not in CLAIMED]
m = {
 "version": 1,
 "setup_cmd": "./setup.sh",
 "hooks": {"guard": "verif", "enable": "go build -tags verif (harness module replaces github.com/fluffle/goirc => /repo)",
           "baseline_off_cmd": "cd /repo && go test -mod=mod -vet=off -count=1 ./...",
           "source_commits": [l.strip() for l in open(os.path.join(V, "MANIFEST.hooks")) if l.strip() and not l.startswith("#")],
           "add_only": True},
 "engines": [{"name": "lean4-proof+correspondence", "path": "/verif/check",
              "serves_properties": [c["property_id"] for c in checks],
              "kind_free_text": "Lean 4 theorems about hand-written executable models (lean/Goirc); tie A = facts regenerated from /repo by a go/ast extractor with kernel-checked obligations; tie B = Go harness running the real code against the compiled Lean driver, Spec predicates evaluated on implementation output"}],
 "checks": checks,
 "not_applicable": na,
 "notes": "All checks are ./check <id> <tier>; VERIF_SEED selects the PRNG seed. Fuzzing/enumeration is used only to validate the model against the code and to search for replays; the property-level claim is the Lean theorem.",
}
json.dump(m, open(os.path.join(V, "MANIFEST.json"), "w"), indent=1)
print("MANIFEST.json: %d claimed, %d not yet" % (len(checks), len(na)))
