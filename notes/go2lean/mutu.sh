#!/bin/bash
# usage: mutu.sh NAME FILE 'python expr'   -- mutant expected to be (partly) UNSUPPORTED: only show the translator's verdict
export GOFLAGS=-mod=mod GOPROXY=off GOSUMDB=off GOTOOLCHAIN=local
rm -rf /tmp/g2l/repo2; cp -r /repo /tmp/g2l/repo2; chmod -R u+w /tmp/g2l/repo2
python3 - "$2" "$3" <<'PY'
import sys
p='/tmp/g2l/repo2/'+sys.argv[1]
s=open(p).read()
t=eval(sys.argv[2])
assert t!=s, "edit did not change the file"
open(p,'w').write(t)
PY
[ $? -eq 0 ] || exit 1
echo "=== mutant $1"
(cd /tmp/g2l/repo2 && go build ./client) || { echo "mutant does not compile"; exit 1; }
cd /tmp/g2l/verif && harness/bin/go2lean -repo /tmp/g2l/repo2 -out /tmp/g2l/scratch/mut-$1.lean 2>&1
grep -n UNSUPPORTED /tmp/g2l/scratch/mut-$1.lean
