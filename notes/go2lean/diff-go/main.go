//go:build verif

// Differential test driver: runs the real Go functions on many inputs, writes
//   expected.txt   one line per case:  name|args|result
//   Cases.lean     the same cases as Lean data for DiffMain.lean
package main

import (
	"encoding/hex"
	"fmt"
	"math/rand"
	"os"
	"sort"
	"strconv"
	"strings"

	"github.com/fluffle/goirc/client"
)

func hx(s string) string { return "x" + hex.EncodeToString([]byte(s)) }
func hxs(ss []string) string {
	var p []string
	for _, s := range ss {
		p = append(p, hx(s))
	}
	return "[" + strings.Join(p, ",") + "]"
}

var exp, lean strings.Builder
var n int

// run f, turning a runtime panic into "PANIC <message>"
func try(f func() string) (out string) {
	defer func() {
		if r := recover(); r != nil {
			out = "PANIC " + strings.TrimPrefix(fmt.Sprint(r), "runtime error: ")
		}
	}()
	return f()
}

func add(name string, f func() string, args ...any) {
	var toks []string
	for _, a := range args {
		switch a := a.(type) {
		case string:
			toks = append(toks, hx(a))
		case int:
			toks = append(toks, strconv.Itoa(a))
		case []string:
			toks = append(toks, hxs(a))
		}
	}
	fmt.Fprintf(&exp, "%s|%s|%s\n", name, strings.Join(toks, " "), try(f))
	fmt.Fprintf(&lean, "%s|%s\n", name, strings.Join(toks, " "))
	n++
}

func showLine(l *client.Line) string {
	if l == nil {
		return "nil"
	}
	tags := "nil"
	if l.Tags != nil {
		var ks []string
		for k := range l.Tags {
			ks = append(ks, k)
		}
		sort.Strings(ks)
		var p []string
		for _, k := range ks {
			p = append(p, hx(k)+"="+hx(l.Tags[k]))
		}
		tags = "{" + strings.Join(p, ",") + "}"
	}
	return fmt.Sprintf("Tags=%s Nick=%s Ident=%s Host=%s Src=%s Cmd=%s Raw=%s Args=%s", tags, hx(l.Nick), hx(l.Ident), hx(l.Host), hx(l.Src), hx(l.Cmd), hx(l.Raw), hxs(l.Args))
}

var rng = rand.New(rand.NewSource(20260930))

func pick(alpha []string, maxn int) string {
	var b strings.Builder
	for k := rng.Intn(maxn + 1); k > 0; k-- {
		b.WriteString(alpha[rng.Intn(len(alpha))])
	}
	return b.String()
}

func main() {
	// ---- primitives: index / slice panics and messages
	s := "hello"
	for _, i := range []int{-2, -1, 0, 1, 4, 5, 6, 100} {
		i := i
		add("idx", func() string { return fmt.Sprint(s[i]) }, s, i)
		add("sliceFrom", func() string { return hx(s[i:]) }, s, i)
		add("sliceTo", func() string { return hx(s[:i]) }, s, i)
		for _, j := range []int{-1, 0, 2, 5, 6} {
			j := j
			add("slice", func() string { return hx(s[i:j]) }, s, i, j)
		}
	}
	l := []string{"a", "b", "c"}
	for _, i := range []int{-1, 0, 2, 3, 4} {
		i := i
		add("lidx", func() string { return hx(l[i]) }, l, i)
		add("lsliceFrom", func() string { return hxs(l[i:]) }, l, i)
		add("lset", func() string {
			c := append([]string{}, l...)
			c[i] = "Z"
			return hxs(c)
		}, l, i)
	}
	add("nilmap", func() string { var m map[string]string; m["a"] = "b"; return "ok" })

	// ---- library functions
	strs := []string{"", " ", "a", "ab", "a b", "a  b", "ab ab", " a ", "aXbXc", "XX", "aXXb", "X", "abcabc", ". . ", "x. y: z", "\x01A b\x01", "\x01\x01", "::", "a:b]c", "]:",
		" a b\u3000", "\xc2", "\xe2\x80", "a\x85b", "\xc2\x85x\xc2\xa0", "\t\n\v\f\r a \t", "\\s\\:\\\\\\r\\n", "\\", "\\\\s", "a\\", "\\x\\:",
		"\u2003a\u2028b\u205f", "\xe2\x80\x80\xe2", "\xe1\x9a\x80z\xe1\x9a", "a=b=c", "=", ";;a;"}
	seps := []string{" ", "X", "XX", "ab", " :", "=", ";", "\x01", ". "}
	for _, a := range strs {
		a := a
		add("fields", func() string { return hxs(strings.Fields(a)) }, a)
		add("trimSpace", func() string { return hx(strings.TrimSpace(a)) }, a)
		add("replaceTags", func() string {
			return hx(strings.NewReplacer("\\:", ";", "\\s", " ", "\\\\", "\\", "\\r", "\r", "\\n", "\n").Replace(a))
		}, a)
		// overlapping olds: argument order decides, not length
		add("replaceAB", func() string {
			return hx(strings.NewReplacer("a", "1", "ab", "2", "bc", "3", "b", "", "XX", "Y").Replace(a))
		}, a)
		add("replaceBA", func() string {
			return hx(strings.NewReplacer("ab", "2", "a", "1", "X", "YY", "XX", "Z", "ab", "never").Replace(a))
		}, a)
		for _, sep := range seps {
			sep := sep
			add("index", func() string { return fmt.Sprint(strings.Index(a, sep)) }, a, sep)
			add("lastIndex", func() string { return fmt.Sprint(strings.LastIndex(a, sep)) }, a, sep)
			add("split", func() string { return hxs(strings.Split(a, sep)) }, a, sep)
			for _, k := range []int{-1, 0, 1, 2, 3} {
				k := k
				add("splitN", func() string { return hxs(strings.SplitN(a, sep, k)) }, a, sep, k)
			}
			add("trim", func() string { return hx(strings.Trim(a, sep)) }, a, sep)
			add("hasPrefix", func() string { return fmt.Sprint(strings.HasPrefix(a, sep)) }, a, sep)
			add("hasSuffix", func() string { return fmt.Sprint(strings.HasSuffix(a, sep)) }, a, sep)
		}
		add("lastIndex", func() string { return fmt.Sprint(strings.LastIndex(a, "")) }, a, "")
		add("index", func() string { return fmt.Sprint(strings.Index(a, "")) }, a, "")
		add("join", func() string { return hx(strings.Join(strings.Split(a, "X"), ", ")) }, strings.Split(a, "X"), ", ")
	}
	add("join", func() string { return hx(strings.Join(nil, ", ")) }, []string{}, ", ")

	// ---- the translated functions
	words := []string{"a", "b", "foo", "bar", " ", " ", ". ", ": ", "; ", ", ", "! ", "? ", "\" ", "' ", ".", ":", "\r", "\n", "xxxxxxxxxx", "\xc3\xa9"}
	for k := 0; k < 60; k++ {
		a := pick(words, 12)
		add("cutNewLines", func() string { return hx(client.VerifCutNewLines(a)) }, a)
		add("indexFragment", func() string { return fmt.Sprint(client.VerifIndexFragment(a)) }, a)
	}
	for _, a := range strs {
		a := a
		add("cutNewLines", func() string { return hx(client.VerifCutNewLines(a)) }, a)
		add("indexFragment", func() string { return fmt.Sprint(client.VerifIndexFragment(a)) }, a)
		add("hasPort", func() string { return fmt.Sprint(client.VerifHasPort(a)) }, a)
	}
	for _, a := range []string{"host", "host:6667", "[::1]", "[::1]:6667", ":", "]", "a]:", "a:]", ""} {
		a := a
		add("hasPort", func() string { return fmt.Sprint(client.VerifHasPort(a)) }, a)
	}
	for k := 0; k < 90; k++ {
		a := pick(words, 40)
		sl := []int{-5, 0, 5, 12, 13, 14, 15, 16, 20, 31, 50, 450}[rng.Intn(12)]
		add("splitMessage", func() string { return hxs(client.VerifSplitMessage(a, sl)) }, a, sl)
	}
	long := strings.Repeat("word. another, one! ", 60)
	for _, sl := range []int{0, 13, 100, 449, 450, 451, 1199, 1200, 5000} {
		sl := sl
		add("splitMessage", func() string { return hxs(client.VerifSplitMessage(long, sl)) }, long, sl)
	}
	nospace := strings.Repeat("x", 100)
	add("splitMessage", func() string { return hxs(client.VerifSplitMessage(nospace, 13)) }, nospace, 13)
	for k := 0; k < 70; k++ {
		args := []string{}
		for j := rng.Intn(8); j > 0; j-- {
			args = append(args, pick([]string{"a", "bc", "#chan", "x"}, 4))
		}
		ml := []int{-1, 0, 1, 3, 5, 8, 10, 20, 100}[rng.Intn(9)]
		add("splitArgs", func() string { return hxs(client.VerifSplitArgs(args, ml)) }, args, ml)
	}
	uhAlpha := []string{"n", "u", "h", "!", "@", " ", ".", "\u3000", "\t", "\xc2"}
	uhs := []string{"nick!user@host", "nick@host!user", "!@", "@!", "a!b", "a@b", "a!@b", " n!u@h ", "!!@@", "n!u@h@x!y", ""}
	for k := 0; k < 60; k++ {
		uhs = append(uhs, pick(uhAlpha, 9))
	}
	for _, a := range uhs {
		a := a
		add("parseUserHost", func() string {
			n, i, h, ok := client.VerifParseUserHost(a)
			return fmt.Sprintf("%s %s %s %v", hx(n), hx(i), hx(h), ok)
		}, a)
	}
	lines := []string{"", "@", "@a", "@a ", "@ ", ":", ": ", ":a", ":a ", ":a b", "PING", "ping :x", " ", "  ", " :", " : ", ": :", ":n!u@h PRIVMSG #c :hi there",
		":n!u@h PRIVMSG #c :\x01ACTION waves\x01", ":n!u@h PRIVMSG #c :\x01action waves\x01", ":n!u@h NOTICE me :\x01VERSION x y\x01", ":n!u@h PRIVMSG me :\x01VERSION\x01",
		":n!u@h PRIVMSG me :\x01\x01", ":n!u@h PRIVMSG me :\x01\x01\x01", ":n!u@h PRIVMSG me :\x01 \x01", ":n!u@h PRIVMSG me :\x01  x\x01", ":n!u@h PRIVMSG me \x01A\x01 b",
		":n!u@h PRIVMSG :\x01ACTION x\x01", ":n!u@h notice #c :\x01ping 1\x01", ":n!u@h PRIVMSG a b c d :\x01X y\x01", ":n!u@h PRIVMSG a \x01X\x01 c",
		"@a=b;c;d=\\s\\:e;;a=z :srv 001 me :hi", "@a=b", "@a=b ", "@a=b :", "@a=b : ", "@=x;=y;k== :s C", "@a\\s=b\\\\;x\\:=1 CMD", "@a;a=1;a cmd x",
		"@t :n!u@h PRIVMSG #c :\x01ACTION \x01", ":srv.example 433 * nick :in use", ":a@b!c X", ": X", ":  X", "CMD :", "CMD : ", "CMD  a  b  : c :d ", "cmd\ta b :t",
		":n!u@h PRIVMSG #c \x01ACTION", ":n!u@h PRIVMSG #c :\x01ACTION", "PRIVMSG a :\x01b\x01c\x01", "NOTICE a :\x01\x01b\x01", "@;; X", "@a=\\ X", "@a=b\\ X",
		"CMD\u3000a\xc2\xa0b :t\u2003", ":n\xc3\xa9!u@h PRIVMSG #c :\xc3\xa9"}
	lineAlpha := []string{"@", ":", " ", " :", "a", "b=c", ";", "\\s", "!", "PRIVMSG", "NOTICE", "\x01", "ACTION", "#c", "x y", "n!u@h", "=", "\\"}
	for k := 0; k < 160; k++ {
		lines = append(lines, pick(lineAlpha, 10))
	}
	for k := 0; k < 40; k++ {
		lines = append(lines, ":n!u@h "+[]string{"PRIVMSG", "NOTICE", "privmsg"}[rng.Intn(3)]+" "+pick([]string{"#c", "me", " ", ":", "\x01", "A", "action", " :"}, 4)+pick([]string{"\x01", "ACTION", "a", " ", "x"}, 6))
	}
	for _, a := range lines {
		a := a
		add("ParseLine", func() string { return showLine(client.ParseLine(a)) }, a)
	}
	cmds := []string{"PRIVMSG", "NOTICE", "ACTION", "CTCP", "CTCPREPLY", "JOIN", ""}
	argss := [][]string{{}, {""}, {"#c"}, {"me"}, {"&c", "x"}, {"X", "#c"}, {"X", ""}, {"X", "+c", "t"}, {"", "!c"}, {"x", "y", "z"}, {"!"}, {"a", "b"}}
	for _, c := range cmds {
		for _, as := range argss {
			c, as := c, as
			ln := &client.Line{Cmd: c, Nick: "nk", Args: as}
			add("Text", func() string { return hx(ln.Text()) }, c, "nk", as)
			add("Target", func() string { return hx(ln.Target()) }, c, "nk", as)
			add("Public", func() string { return fmt.Sprint(ln.Public()) }, c, "nk", as)
		}
	}

	os.WriteFile("expected.txt", []byte(exp.String()), 0o644)
	os.WriteFile("cases.txt", []byte(lean.String()), 0o644)
	fmt.Println("cases:", n)
}
