//go:build verif

// Differential driver for go2lean v2: the command methods of *Conn (lines queued on conn.out),
// DefaultNewNick, the capSet methods, string(byte), sort.Strings.
package main

import (
	"encoding/hex"
	"fmt"
	"math/rand"
	"os"
	"sort"
	"strconv"
	"strings"

	"github.com/fluffle/goirc/client"
)

func hx(s string) string { return "x" + hex.EncodeToString([]byte(s)) }
func hxs(ss []string) string {
	p := []string{}
	for _, s := range ss {
		p = append(p, hx(s))
	}
	return "[" + strings.Join(p, ",") + "]"
}

var exp, cases strings.Builder
var n int

func try(f func() string) (out string) {
	defer func() {
		if r := recover(); r != nil {
			out = "PANIC " + strings.TrimPrefix(fmt.Sprint(r), "runtime error: ")
		}
	}()
	return f()
}

func add(name string, f func() string, args ...any) {
	var toks []string
	for _, a := range args {
		switch a := a.(type) {
		case string:
			toks = append(toks, hx(a))
		case int:
			toks = append(toks, strconv.Itoa(a))
		case []string:
			toks = append(toks, hxs(a))
		}
	}
	fmt.Fprintf(&exp, "%s|%s|%s\n", name, strings.Join(toks, " "), try(f))
	fmt.Fprintf(&cases, "%s|%s\n", name, strings.Join(toks, " "))
	n++
}

var rng = rand.New(rand.NewSource(42))

func pick(alpha []string, maxn int) string {
	var b strings.Builder
	for k := rng.Intn(maxn + 1); k > 0; k-- {
		b.WriteString(alpha[rng.Intn(len(alpha))])
	}
	return b.String()
}

var alpha = []string{"a", "b", "#chan", "nick", " ", " ", "\r", "\n", ":", ". ", ", ", "! ", "\x01", "xxxxxxxxxx", "word ", "\xc3\xa9"}

func str() string { return pick(alpha, 6) }
func list() []string {
	l := []string{}
	for k := rng.Intn(4); k > 0; k-- {
		l = append(l, str())
	}
	return l
}
func long() string { return pick([]string{"word. ", "another, ", "one! ", "xxxxxxxxxxxxxxxxxxxx", "y ", "\r", "\n"}, 150) }

// method table: kinds of the arguments ("s" string, "v" variadic strings, "u" ASCII verb for ToUpper, "m" message that may be long)
var methods = []struct{ name, sig string }{
	{"Raw", "s"}, {"Pass", "s"}, {"Nick", "s"}, {"User", "ss"}, {"Join", "sv"}, {"Part", "sv"}, {"Kick", "ssv"}, {"Quit", "v"},
	{"Whois", "s"}, {"Who", "s"}, {"Privmsg", "sm"}, {"Notice", "sm"}, {"Ctcp", "suw"}, {"CtcpReply", "suw"}, {"Version", "s"},
	{"Action", "sm"}, {"Topic", "sv"}, {"Mode", "sv"}, {"Away", "v"}, {"Invite", "ss"}, {"Oper", "ss"}, {"VHost", "ss"},
	{"Ping", "s"}, {"Pong", "s"}, {"Cap", "sc"}, {"Authenticate", "s"},
}

func call(conn *client.Conn, name string, a []any) {
	s := func(i int) string { return a[i].(string) }
	v := func(i int) []string { return a[i].([]string) }
	switch name {
	case "Raw":
		conn.Raw(s(0))
	case "Pass":
		conn.Pass(s(0))
	case "Nick":
		conn.Nick(s(0))
	case "User":
		conn.User(s(0), s(1))
	case "Join":
		conn.Join(s(0), v(1)...)
	case "Part":
		conn.Part(s(0), v(1)...)
	case "Kick":
		conn.Kick(s(0), s(1), v(2)...)
	case "Quit":
		conn.Quit(v(0)...)
	case "Whois":
		conn.Whois(s(0))
	case "Who":
		conn.Who(s(0))
	case "Privmsg":
		conn.Privmsg(s(0), s(1))
	case "Notice":
		conn.Notice(s(0), s(1))
	case "Ctcp":
		conn.Ctcp(s(0), s(1), v(2)...)
	case "CtcpReply":
		conn.CtcpReply(s(0), s(1), v(2)...)
	case "Version":
		conn.Version(s(0))
	case "Action":
		conn.Action(s(0), s(1))
	case "Topic":
		conn.Topic(s(0), v(1)...)
	case "Mode":
		conn.Mode(s(0), v(1)...)
	case "Away":
		conn.Away(v(0)...)
	case "Invite":
		conn.Invite(s(0), s(1))
	case "Oper":
		conn.Oper(s(0), s(1))
	case "VHost":
		conn.VHost(s(0), s(1))
	case "Ping":
		conn.Ping(s(0))
	case "Pong":
		conn.Pong(s(0))
	case "Cap":
		conn.Cap(s(0), v(1)...)
	case "Authenticate":
		conn.Authenticate(s(0))
	}
}

func main() {
	splitLens := []int{-1, 0, 5, 12, 13, 14, 20, 40, 100, 450, 451}
	for _, m := range methods {
		for k := 0; k < 14; k++ {
			sl := splitLens[rng.Intn(len(splitLens))]
			quit := []string{"GoBye!", "", "bye\r\nQUIT"}[rng.Intn(3)]
			var a []any
			for _, c := range m.sig {
				switch c {
				case 's':
					a = append(a, str())
				case 'v':
					a = append(a, list())
				case 'u':
					a = append(a, []string{"version", "PING", "aCtIoN", "", "x y"}[rng.Intn(5)])
				case 'm':
					if k%2 == 0 {
						a = append(a, long())
					} else {
						a = append(a, str())
					}
				case 'w': // variadic whose join may be long
					l := list()
					if k%2 == 0 {
						l = append(l, long())
					}
					a = append(a, l)
				case 'c': // capabilities: many short words, so that splitArgs splits
					l := []string{}
					for j := rng.Intn(140); j > 0; j-- {
						l = append(l, pick([]string{"cap", "-", "sasl", "multi-prefix", "x"}, 3))
					}
					if k == 0 {
						l = []string{}
					}
					a = append(a, l)
				}
			}
			if k == 1 && strings.Contains(m.sig, "v") { // empty variadic
				for i := range a {
					if _, ok := a[i].([]string); ok {
						a[i] = []string{}
					}
				}
			}
			name, args := m.name, a
			cfg := client.NewConfig("me")
			cfg.SplitLen, cfg.QuitMessage = sl, quit
			conn := client.Client(cfg)
			add("Conn."+name, func() string { return hxs(client.VerifCapture(conn, func() { call(conn, name, args) })) }, append([]any{sl, quit}, args...)...)
		}
	}
	// two calls in a row on the same conn: the queue keeps order (here: captured together)
	for k := 0; k < 10; k++ {
		a, b, c := str(), str(), list()
		conn := client.Client(client.NewConfig("me"))
		add("Seq", func() string {
			return hxs(client.VerifCapture(conn, func() { conn.Nick(a); conn.Join(b, c...); conn.Quit() }))
		}, a, b, c)
	}
	// DefaultNewNick: every last byte, a few prefixes
	for b := 0; b < 256; b++ {
		for _, pre := range []string{"", "nick"} {
			s := pre + string([]byte{byte(b)})
			add("DefaultNewNick", func() string { return hx(client.DefaultNewNick(s)) }, s)
		}
		bb := byte(b)
		add("byteString", func() string { return hx(string(rune(bb))) }, string([]byte{bb}))
	}
	add("DefaultNewNick", func() string { return hx(client.DefaultNewNick("")) }, "")
	// capSet scripts
	for k := 0; k < 120; k++ {
		start := []string{"new", "new", "zero"}[rng.Intn(3)]
		var ops [][]string
		var toks []string
		for j := 1 + rng.Intn(6); j > 0; j-- {
			var op []string
			switch rng.Intn(5) {
			case 0, 1:
				op = []string{"add"}
				for i := rng.Intn(4); i > 0; i-- {
					op = append(op, pick([]string{"-", "a", "b", "sasl"}, 2))
				}
			case 2:
				op = []string{"clear"}
			case 3:
				op = []string{"has", pick([]string{"-", "a", "b", "sasl"}, 2)}
			case 4:
				op = []string{"size"}
			}
			ops = append(ops, op)
			toks = append(toks, op[0]+hxs(op[1:]))
		}
		script := strings.Join(toks, ";")
		fmt.Fprintf(&exp, "capSet|%s %s|%s\n", start, script, try(func() string { return client.VerifCapSet(start, ops) }))
		fmt.Fprintf(&cases, "capSet|%s %s\n", start, script)
		n++
	}
	for k := 0; k < 40; k++ {
		l := list()
		l = append(l, list()...)
		add("sortStrings", func() string { c := append([]string{}, l...); sort.Strings(c); return hxs(c) }, l)
	}
	os.WriteFile("expected.txt", []byte(exp.String()), 0o644)
	os.WriteFile("cases.txt", []byte(cases.String()), 0o644)
	fmt.Println("cases:", n)
}
