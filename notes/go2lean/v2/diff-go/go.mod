module scratch/diff2

go 1.21

require github.com/fluffle/goirc v0.0.0

require (
	github.com/emersion/go-sasl v0.0.0-20220912192320-0145f2c60ead // indirect
	github.com/golang/mock v1.5.0 // indirect
	golang.org/x/net v0.18.0 // indirect
)

replace github.com/fluffle/goirc => /tmp/g2l/repo3
