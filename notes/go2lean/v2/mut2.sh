#!/bin/bash
# usage: mut2.sh NAME FILE 'python expr on s' [lines]  -- v2: edit a copy of /repo, retranslate, rebuild, rerun the v2 differential test
export GOFLAGS=-mod=mod GOPROXY=off GOSUMDB=off GOTOOLCHAIN=local
name=$1; file=$2; edit=$3
rm -rf /tmp/g2l/repo2; cp -r /repo /tmp/g2l/repo2; chmod -R u+w /tmp/g2l/repo2; cp /tmp/g2l/repo3/client/verif_capset.go /tmp/g2l/repo2/client/
python3 - "$file" "$edit" <<'PY'
import sys
p='/tmp/g2l/repo2/'+sys.argv[1]
s=open(p).read()
t=eval(sys.argv[2])
assert t!=s, "edit did not change the file"
open(p,'w').write(t)
PY
[ $? -eq 0 ] || exit 1
echo "=== mutant $name"
(cd /tmp/g2l/repo2 && go build ./client) || { echo "mutant does not compile"; exit 1; }
cd /tmp/g2l/verif && harness/bin/go2lean -repo /tmp/g2l/repo2 -out lean/Goirc/Gen/Pure.lean 2>&1 | grep -v -E 'Privmsgln|Privmsgf|capSet.Intersect|capSet.Slice'
diff /tmp/g2l/scratch/Pure.v2.lean lean/Goirc/Gen/Pure.lean | grep -v '^[<>] -- |' | grep '^[<>]' | cut -c1-200 | head -${4:-14}
if grep -q "UNSUPPORTED" <(diff /tmp/g2l/scratch/Pure.v2.lean lean/Goirc/Gen/Pure.lean); then echo "(refused: no differential run)"; else
(cd lean && lake build Goirc.Gen.Pure 2>&1 | grep -v WARNING | grep -E 'error|Built Goirc.Gen.Pure' | head -5)
cd /tmp/g2l/scratch/diffm2 && go run -tags verif . >/dev/null && (cd /tmp/g2l/verif/lean && lake env lean --run /tmp/g2l/scratch/Diff2.lean /tmp/g2l/scratch/diffm2/cases.txt > /tmp/g2l/scratch/diffm2/actual.txt)
echo "go panics: $(grep -c PANIC expected.txt)   go-vs-lean mismatches: $(diff expected.txt actual.txt | grep -c '^<')   changed vs unmutated Go: $(diff expected.txt ../diff2/expected.txt | grep -c '^<')"
fi
cp /tmp/g2l/scratch/Pure.v2.lean /tmp/g2l/verif/lean/Goirc/Gen/Pure.lean
rm -f /tmp/g2l/verif/lean/Goirc/Gen/Pure.lean.manifest.tmp
