import Goirc.Gen.Pure
/-! Differential test driver: evaluates the generated defs / the Rt prelude on cases.txt and prints
`name|args|result` in the format of the Go driver (scratch/diff/main.go). -/
open Go Go.Rt

def hexDigit (n : Nat) : Char := if n < 10 then Char.ofNat (48 + n) else Char.ofNat (87 + n)
def hx (b : Bytes) : String :=
  "x" ++ String.ofList (b.flatMap fun c => [hexDigit (c.toNat / 16), hexDigit (c.toNat % 16)])
def hxs (l : List Bytes) : String := "[" ++ ",".intercalate (l.map hx) ++ "]"

def unhexDigit (c : Char) : Nat := if c.toNat ≥ 97 then c.toNat - 87 else c.toNat - 48
def unhexAux : List Char → Bytes
  | a :: b :: rest => (unhexDigit a * 16 + unhexDigit b).toUInt8 :: unhexAux rest
  | _ => []
def unhex (s : String) : Bytes := unhexAux (s.toList.drop 1)
def unhexs (s : String) : List Bytes :=
  let inner := String.ofList ((s.toList.drop 1).dropLast)
  if inner.isEmpty then [] else (inner.splitOn ",").map unhex

/-- Go's runtime error text -/
def panicMsg : Panic → String
  | .index i len => if i < 0 then s!"index out of range [{i}]" else s!"index out of range [{i}] with length {len}"
  | .slice i j len =>
    if j < 0 then s!"slice bounds out of range [:{j}]"
    else if j > len then s!"slice bounds out of range [:{j}] with length {len}"
    else if i < 0 then s!"slice bounds out of range [{i}:]"
    else s!"slice bounds out of range [{i}:{j}]"
  | .nilMap => "assignment to entry in nil map"
  | .fuel => "FUEL"
  | .unsupported w => "UNSUPPORTED " ++ w

def out {α} (r : M α) (f : α → String) : String :=
  match r with
  | .ok v => f v
  | .error p => "PANIC " ++ panicMsg p


def ext : UnicodeExt := ⟨id, id⟩
def int (s : String) : Int := s.toInt!
def b2s (b : Bool) : String := if b then "true" else "false"

/-- run a command method on a fresh Conn with the given config; print the queue -/
def conn (a : List String) : Gen.Conn := { cfg := { SplitLen := int (a[0]!), QuitMessage := unhex (a[1]!), Version := Go.lit "Powered by GoIRC" } }
def q (r : M Gen.Conn) : String := out r (fun c => hxs c.out)

def capOp (st : Gen.capSet × List String) (op : String) : M (Gen.capSet × List String) := do
  let (c, log) := st
  let name := String.ofList (op.toList.takeWhile (· != '['))
  let args := unhexs (String.ofList (op.toList.dropWhile (· != '[')))
  match name with
  | "add" => let c' ← Gen.capSet_Add c args; pure (c', log)
  | "clear" => let c' ← Gen.capSet_Clear c; pure (c', log)
  | "has" => let r ← Gen.capSet_Has c (args.headD []); pure (c, log ++ [b2s r])
  | "size" => let r ← Gen.capSet_Size c; pure (c, log ++ [toString r])
  | _ => pure (c, log ++ ["?"])

def run (name : String) (a : List String) : String :=
  let s (i : Nat) : Bytes := unhex (a[i + 2]!)
  let l (i : Nat) : List Bytes := unhexs (a[i + 2]!)
  let c (_ : Unit) := conn a
  match name with
  | "Conn.Raw" => q (Gen.Conn_Raw (c ()) (s 0))
  | "Conn.Pass" => q (Gen.Conn_Pass (c ()) (s 0))
  | "Conn.Nick" => q (Gen.Conn_Nick (c ()) (s 0))
  | "Conn.User" => q (Gen.Conn_User (c ()) (s 0) (s 1))
  | "Conn.Join" => q (Gen.Conn_Join (c ()) (s 0) (l 1))
  | "Conn.Part" => q (Gen.Conn_Part (c ()) (s 0) (l 1))
  | "Conn.Kick" => q (Gen.Conn_Kick (c ()) (s 0) (s 1) (l 2))
  | "Conn.Quit" => q (Gen.Conn_Quit (c ()) (l 0))
  | "Conn.Whois" => q (Gen.Conn_Whois (c ()) (s 0))
  | "Conn.Who" => q (Gen.Conn_Who (c ()) (s 0))
  | "Conn.Privmsg" => q (Gen.Conn_Privmsg (c ()) (s 0) (s 1))
  | "Conn.Notice" => q (Gen.Conn_Notice (c ()) (s 0) (s 1))
  | "Conn.Ctcp" => q (Gen.Conn_Ctcp ext (c ()) (s 0) (s 1) (l 2))
  | "Conn.CtcpReply" => q (Gen.Conn_CtcpReply ext (c ()) (s 0) (s 1) (l 2))
  | "Conn.Version" => q (Gen.Conn_Version ext (c ()) (s 0))
  | "Conn.Action" => q (Gen.Conn_Action ext (c ()) (s 0) (s 1))
  | "Conn.Topic" => q (Gen.Conn_Topic (c ()) (s 0) (l 1))
  | "Conn.Mode" => q (Gen.Conn_Mode (c ()) (s 0) (l 1))
  | "Conn.Away" => q (Gen.Conn_Away (c ()) (l 0))
  | "Conn.Invite" => q (Gen.Conn_Invite (c ()) (s 0) (s 1))
  | "Conn.Oper" => q (Gen.Conn_Oper (c ()) (s 0) (s 1))
  | "Conn.VHost" => q (Gen.Conn_VHost (c ()) (s 0) (s 1))
  | "Conn.Ping" => q (Gen.Conn_Ping (c ()) (s 0))
  | "Conn.Pong" => q (Gen.Conn_Pong (c ()) (s 0))
  | "Conn.Cap" => q (Gen.Conn_Cap (c ()) (s 0) (l 1))
  | "Conn.Authenticate" => q (Gen.Conn_Authenticate (c ()) (s 0))
  | "Seq" => q (do
      let c0 : Gen.Conn := { cfg := { SplitLen := 450, QuitMessage := Go.lit "GoBye!" } }
      let c1 ← Gen.Conn_Nick c0 (unhex (a[0]!))
      let c2 ← Gen.Conn_Join c1 (unhex (a[1]!)) (unhexs (a[2]!))
      Gen.Conn_Quit c2 [])
  | "DefaultNewNick" => out (Gen.DefaultNewNick (unhex (a[0]!))) hx
  | "byteString" => hx (Rt.byteString ((unhex (a[0]!)).headD 0))
  | "sortStrings" => hxs (Rt.sortStrings (unhexs (a[0]!)))
  | "capSet" =>
    let start : Gen.capSet := if a[0]! == "new" then { caps := some [] } else {}
    out ((a[1]!.splitOn ";").foldlM capOp (start, [])) (fun r => ",".intercalate r.2)
  | _ => "?"

def main (args : List String) : IO Unit := do
  let text ← IO.FS.readFile (args.headD "cases.txt")
  for line in text.splitOn "\n" do
    if line.isEmpty then continue
    match line.splitOn "|" with
    | [name, a] =>
      let toks := if a.isEmpty then [] else a.splitOn " "
      IO.println s!"{name}|{a}|{run name toks}"
    | _ => IO.println ("BAD " ++ line)
