#!/bin/bash
# usage: mut.sh NAME FILE 'python expr transforming s'   -- apply an edit to a fresh copy of /repo, retranslate, rebuild, diff-test
export GOFLAGS=-mod=mod GOPROXY=off GOSUMDB=off GOTOOLCHAIN=local
name=$1; file=$2; edit=$3
rm -rf /tmp/g2l/repo2; cp -r /repo /tmp/g2l/repo2; chmod -R u+w /tmp/g2l/repo2
python3 - "$file" "$edit" <<'PY'
import sys
p='/tmp/g2l/repo2/'+sys.argv[1]
s=open(p).read()
t=eval(sys.argv[2])
assert t!=s, "edit did not change the file"
open(p,'w').write(t)
PY
[ $? -eq 0 ] || exit 1
echo "=== mutant $name"
(cd /tmp/g2l/repo2 && go build ./client) || { echo "mutant does not compile"; exit 1; }
cd /tmp/g2l/verif && harness/bin/go2lean -repo /tmp/g2l/repo2 -out lean/Goirc/Gen/Pure.lean
diff /tmp/g2l/scratch/Pure.base.lean lean/Goirc/Gen/Pure.lean | grep -v '^[<>] -- |' | cut -c1-220 > /tmp/g2l/scratch/mut-$name.diff
head -${4:-40} /tmp/g2l/scratch/mut-$name.diff
(cd lean && lake build Goirc.Gen.Pure 2>&1 | grep -v WARNING | grep -E 'error|Built Goirc.Gen.Pure|rror' | head)
cd /tmp/g2l/scratch/diffm && go run -tags verif . >/dev/null && (cd /tmp/g2l/verif/lean && lake env lean --run /tmp/g2l/scratch/Diff.lean /tmp/g2l/scratch/diffm/cases.txt > /tmp/g2l/scratch/diffm/actual.txt)
echo "go panics in expected: $(grep -v -E '^(idx|slice|sliceFrom|sliceTo|lidx|lset|lsliceFrom|nilmap)\|' expected.txt | grep -c PANIC)   go-vs-lean mismatches: $(diff expected.txt actual.txt | grep -c '^<')   changed vs unmutated Go: $(diff expected.txt ../diff/expected.txt | grep -c '^<')"
diff expected.txt actual.txt | cut -c1-250 | head -6
cp /tmp/g2l/scratch/Pure.base.lean /tmp/g2l/verif/lean/Goirc/Gen/Pure.lean
