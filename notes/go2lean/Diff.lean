import Goirc.Gen.Pure
/-! Differential test driver: evaluates the generated defs / the Rt prelude on cases.txt and prints
`name|args|result` in the format of the Go driver (scratch/diff/main.go). -/
open Go Go.Rt

def hexDigit (n : Nat) : Char := if n < 10 then Char.ofNat (48 + n) else Char.ofNat (87 + n)
def hx (b : Bytes) : String :=
  "x" ++ String.ofList (b.flatMap fun c => [hexDigit (c.toNat / 16), hexDigit (c.toNat % 16)])
def hxs (l : List Bytes) : String := "[" ++ ",".intercalate (l.map hx) ++ "]"

def unhexDigit (c : Char) : Nat := if c.toNat ≥ 97 then c.toNat - 87 else c.toNat - 48
def unhexAux : List Char → Bytes
  | a :: b :: rest => (unhexDigit a * 16 + unhexDigit b).toUInt8 :: unhexAux rest
  | _ => []
def unhex (s : String) : Bytes := unhexAux (s.toList.drop 1)
def unhexs (s : String) : List Bytes :=
  let inner := String.ofList ((s.toList.drop 1).dropLast)
  if inner.isEmpty then [] else (inner.splitOn ",").map unhex

/-- Go's runtime error text -/
def panicMsg : Panic → String
  | .index i len => if i < 0 then s!"index out of range [{i}]" else s!"index out of range [{i}] with length {len}"
  | .slice i j len =>
    if j < 0 then s!"slice bounds out of range [:{j}]"
    else if j > len then s!"slice bounds out of range [:{j}] with length {len}"
    else if i < 0 then s!"slice bounds out of range [{i}:]"
    else s!"slice bounds out of range [{i}:{j}]"
  | .nilMap => "assignment to entry in nil map"
  | .fuel => "FUEL"
  | .unsupported w => "UNSUPPORTED " ++ w

def out {α} (r : M α) (f : α → String) : String :=
  match r with
  | .ok v => f v
  | .error p => "PANIC " ++ panicMsg p

def bytesLt : Bytes → Bytes → Bool
  | [], [] => false
  | [], _ => true
  | _, [] => false
  | a :: as, b :: bs => a < b || (a == b && bytesLt as bs)

def insertSorted (p : Bytes × Bytes) : List (Bytes × Bytes) → List (Bytes × Bytes)
  | [] => [p]
  | q :: qs => if bytesLt p.1 q.1 then p :: q :: qs else q :: insertSorted p qs

def showLine : Option Gen.Line → String
  | none => "nil"
  | some l =>
    let tags := match l.Tags with
      | none => "nil"
      | some m => "{" ++ ",".intercalate ((m.foldr insertSorted []).map fun (p : Bytes × Bytes) => hx p.1 ++ "=" ++ hx p.2) ++ "}"
    s!"Tags={tags} Nick={hx l.Nick} Ident={hx l.Ident} Host={hx l.Host} Src={hx l.Src} Cmd={hx l.Cmd} Raw={hx l.Raw} Args={hxs l.Args}"

def ext : UnicodeExt := ⟨id, id⟩  -- the cases keep everything that reaches ToUpper ASCII

def replAB : List (Bytes × Bytes) := [([97], [49]), ([97, 98], [50]), ([98, 99], [51]), ([98], []), ([88, 88], [89])]
def replBA : List (Bytes × Bytes) := [([97, 98], [50]), ([97], [49]), ([88], [89, 89]), ([88, 88], [90]), ([97, 98], [110, 101, 118, 101, 114])]

def int (s : String) : Int := s.toInt!
def b2s (b : Bool) : String := if b then "true" else "false"

def run (name : String) (a : List String) : String :=
  let s (i : Nat) : Bytes := unhex (a[i]!)
  let n (i : Nat) : Int := int (a[i]!)
  let l (i : Nat) : List Bytes := unhexs (a[i]!)
  let ln (_ : Unit) : Gen.Line := { Cmd := s 0, Nick := s 1, Args := l 2 }
  match name with
  | "idx" => out (Rt.idx (s 0) (n 1)) (fun b => toString b.toNat)
  | "sliceFrom" => out (Rt.sliceFrom (s 0) (n 1)) hx
  | "sliceTo" => out (Rt.sliceTo (s 0) (n 1)) hx
  | "slice" => out (Rt.slice (s 0) (n 1) (n 2)) hx
  | "lidx" => out (Rt.idx (l 0) (n 1)) hx
  | "lsliceFrom" => out (Rt.sliceFrom (l 0) (n 1)) hxs
  | "lset" => out (Rt.setIdx (l 0) (n 1) [90]) hxs
  | "nilmap" => out (Rt.mapSet none [97] [98]) (fun _ => "ok")
  | "fields" => hxs (fields (s 0))
  | "trimSpace" => hx (trimSpace (s 0))
  | "replaceTags" => hx (Rt.replace Gen.tagsReplacer (s 0))
  | "replaceAB" => hx (Rt.replace replAB (s 0))
  | "replaceBA" => hx (Rt.replace replBA (s 0))
  | "index" => toString (Rt.index (s 0) (s 1))
  | "lastIndex" => toString (Rt.lastIndex (s 0) (s 1))
  | "split" => hxs (Rt.split (s 0) (s 1))
  | "splitN" => hxs (Rt.splitN (s 0) (s 1) (n 2))
  | "trim" => hx (Rt.trim (s 0) (s 1))
  | "hasPrefix" => b2s (hasPrefix (s 0) (s 1))
  | "hasSuffix" => b2s (hasSuffix (s 0) (s 1))
  | "join" => hx (join (s 1) (l 0))
  | "cutNewLines" => out (Gen.cutNewLines (s 0)) hx
  | "indexFragment" => out (Gen.indexFragment (s 0)) toString
  | "hasPort" => out (Gen.hasPort (s 0)) b2s
  | "splitMessage" => out (Gen.splitMessage (s 0) (n 1)) hxs
  | "splitArgs" => out (Gen.splitArgs (l 0) (n 1)) hxs
  | "parseUserHost" => out (Gen.parseUserHost (s 0)) (fun r => s!"{hx r.1} {hx r.2.1} {hx r.2.2.1} {b2s r.2.2.2}")
  | "ParseLine" => out (Gen.ParseLine ext (s 0)) showLine
  | "Text" => out (Gen.Line_Text (ln ())) hx
  | "Target" => out (Gen.Line_Target (ln ())) hx
  | "Public" => out (Gen.Line_Public (ln ())) b2s
  | _ => "?"

def main (args : List String) : IO Unit := do
  let text ← IO.FS.readFile (args.headD "cases.txt")
  for line in text.splitOn "\n" do
    if line.isEmpty then continue
    match line.splitOn "|" with
    | [name, a] =>
      let toks := if a.isEmpty then [] else a.splitOn " "
      IO.println s!"{name}|{a}|{run name toks}"
    | _ => IO.println ("BAD " ++ line)
