abbrev Bytes := List UInt8

namespace Go

/-- strings.LastIndex(s, [a, b]) for a two-byte separator; -1 when absent. -/
def lastIndex2 (a b : UInt8) : Bytes → Nat → Int → Int
  | x :: y :: rest, i, acc => lastIndex2 a b (y :: rest) (i+1) (if x == a && y == b then (i : Int) else acc)
  | _, _, acc => acc

def lastIndex1 (a : UInt8) : Bytes → Nat → Int → Int
  | x :: rest, i, acc => lastIndex1 a rest (i+1) (if x == a then (i : Int) else acc)
  | [], _, acc => acc

theorem lastIndex2_bound (a b : UInt8) (s : Bytes) (i : Nat) (acc : Int)
    (h : acc = -1 ∨ (0 ≤ acc ∧ acc + 2 ≤ i + s.length)) :
    lastIndex2 a b s i acc = -1 ∨ (0 ≤ lastIndex2 a b s i acc ∧ lastIndex2 a b s i acc + 2 ≤ i + s.length) := by
  induction s generalizing i acc with
  | nil => simpa [lastIndex2] using h
  | cons x rest ih =>
    cases rest with
    | nil => simpa [lastIndex2] using h
    | cons y rest =>
      simp only [lastIndex2]
      have := ih (i+1) (if x == a && y == b then (i : Int) else acc) (by
        split
        · right; simp; omega
        · rcases h with h | h
          · left; exact h
          · right; simp at h ⊢; omega)
      simp at this ⊢
      omega

theorem lastIndex1_bound (a : UInt8) (s : Bytes) (i : Nat) (acc : Int)
    (h : acc = -1 ∨ (0 ≤ acc ∧ acc + 1 ≤ i + s.length)) :
    lastIndex1 a s i acc = -1 ∨ (0 ≤ lastIndex1 a s i acc ∧ lastIndex1 a s i acc + 1 ≤ i + s.length) := by
  induction s generalizing i acc with
  | nil => simpa [lastIndex1] using h
  | cons x rest ih =>
      simp only [lastIndex1]
      have := ih (i+1) (if x == a then (i : Int) else acc) (by
        split
        · right; simp; omega
        · rcases h with h | h
          · left; exact h
          · right; simp at h ⊢; omega)
      simp at this ⊢
      omega

def seps : List UInt8 := [46, 58, 59, 44, 33, 63, 34, 39]

def fragMax (s : Bytes) : Int :=
  seps.foldl (fun m p => if lastIndex2 p 32 s 0 (-1) > m then lastIndex2 p 32 s 0 (-1) else m) (-1)

def indexFragment (s : Bytes) : Int :=
  if fragMax s > 0 then fragMax s + 2
  else if lastIndex1 32 s 0 (-1) > 0 then lastIndex1 32 s 0 (-1) + 1 else -1

theorem fragMax_bound (s : Bytes) : fragMax s = -1 ∨ (0 ≤ fragMax s ∧ fragMax s + 2 ≤ s.length) := by
  have hfold : ∀ (l : List UInt8) (m : Int), (m = -1 ∨ (0 ≤ m ∧ m + 2 ≤ s.length)) →
      ((l.foldl (fun m p => if lastIndex2 p 32 s 0 (-1) > m then lastIndex2 p 32 s 0 (-1) else m) m) = -1 ∨
       (0 ≤ (l.foldl (fun m p => if lastIndex2 p 32 s 0 (-1) > m then lastIndex2 p 32 s 0 (-1) else m) m) ∧
        (l.foldl (fun m p => if lastIndex2 p 32 s 0 (-1) > m then lastIndex2 p 32 s 0 (-1) else m) m) + 2 ≤ s.length)) := by
    intro l
    induction l with
    | nil => intro m h; simpa using h
    | cons p l ih =>
      intro m h
      simp only [List.foldl_cons]
      apply ih
      have hb := lastIndex2_bound p 32 s 0 (-1) (Or.inl rfl)
      split
      · simpa using hb
      · exact h
  exact hfold seps (-1) (Or.inl rfl)

theorem indexFragment_bound (s : Bytes) :
    indexFragment s = -1 ∨ (2 ≤ indexFragment s ∧ indexFragment s ≤ s.length) := by
  unfold indexFragment
  have h1 := fragMax_bound s
  have h2 := lastIndex1_bound 32 s 0 (-1) (Or.inl rfl)
  simp at h2
  split
  · right; omega
  · split
    · right; omega
    · left; rfl

def dots : Bytes := [46, 46, 46]

def cutIdx (msg : Bytes) (splitLen : Nat) : Nat :=
  if indexFragment (msg.take (splitLen - 3)) < 0 then splitLen - 3
  else (indexFragment (msg.take (splitLen - 3))).toNat

theorem cutIdx_bound (msg : Bytes) (splitLen : Nat) (h : 13 ≤ splitLen) (hl : splitLen < msg.length) :
    2 ≤ cutIdx msg splitLen ∧ cutIdx msg splitLen ≤ splitLen - 3 := by
  unfold cutIdx
  have hb := indexFragment_bound (msg.take (splitLen - 3))
  have : (msg.take (splitLen - 3)).length = splitLen - 3 := by simp; omega
  rw [this] at hb
  split <;> omega

/-- splitMessage's loop, after the splitLen default has been applied. -/
def splitLoop (msg : Bytes) (splitLen : Nat) (h : 13 ≤ splitLen) : List Bytes :=
  if hl : splitLen < msg.length then
    (msg.take (cutIdx msg splitLen) ++ dots) :: splitLoop (msg.drop (cutIdx msg splitLen)) splitLen h
  else [msg]
termination_by msg.length
decreasing_by
  have := cutIdx_bound msg splitLen h hl
  simp [List.length_drop]; omega

def splitMessage (msg : Bytes) (splitLen : Int) : List Bytes :=
  if h : splitLen < 13 then splitLoop msg 450 (by decide) else splitLoop msg splitLen.toNat (by omega)

/-- Strip the continuation marker from every piece but the last and concatenate. -/
def rejoin : List Bytes → Bytes
  | [] => []
  | [p] => p
  | p :: ps => p.take (p.length - 3) ++ rejoin ps

theorem splitLoop_ne_nil (msg : Bytes) (n : Nat) (h : 13 ≤ n) : splitLoop msg n h ≠ [] := by
  unfold splitLoop; split <;> simp

theorem splitLoop_lossless (msg : Bytes) (n : Nat) (h : 13 ≤ n) : rejoin (splitLoop msg n h) = msg := by
  fun_induction splitLoop msg n h with
  | case1 msg hl ih =>
    have hne := splitLoop_ne_nil (msg.drop (cutIdx msg n)) n h
    match hs : splitLoop (msg.drop (cutIdx msg n)) n h with
    | [] => exact absurd hs hne
    | q :: qs =>
      rw [hs] at ih
      simp only [rejoin]
      rw [ih]
      simp [dots]
  | case2 msg hl => simp [rejoin]

theorem splitLoop_bounded (msg : Bytes) (n : Nat) (h : 13 ≤ n) : ∀ p ∈ splitLoop msg n h, p.length ≤ n := by
  fun_induction splitLoop msg n h with
  | case1 msg hl ih =>
    intro p hp
    simp only [List.mem_cons] at hp
    rcases hp with rfl | hp
    · have := cutIdx_bound msg n h hl
      simp [dots]; omega
    · exact ih p hp
  | case2 msg hl => intro p hp; simp at hp; subst hp; omega

end Go
