/-! Spike: representation for the tracker refinement (C12). Concrete state keeps pointer ids and the
redundant per-channel name lookup that ReNick must re-key; spec is the plain relation over names. -/
namespace TrackerSpike

abbrev Name := List UInt8

/-- finite maps as functions (proof-friendly); key lists are kept separately where code iterates -/
def upd {α β} [DecidableEq α] (f : α → Option β) (k : α) (v : Option β) : α → Option β :=
  fun x => if x = k then v else f x

@[simp] theorem upd_same {α β} [DecidableEq α] (f : α → Option β) (k v) : upd f k v k = v := by simp [upd]
@[simp] theorem upd_other {α β} [DecidableEq α] (f : α → Option β) (k v x) (h : x ≠ k) : upd f k v x = f x := by simp [upd, h]

structure Conc where
  nicks : Name → Option Nat            -- st.nicks
  chans : Name → Option Nat            -- st.chans
  nname : Nat → Option Name            -- nk.nick for live nick ids
  nkChans : Nat → List Nat             -- keys of nk.chans
  chNicks : Nat → Nat → Bool           -- ch.nicks membership: chNicks j i
  chLookup : Nat → Name → Option Nat   -- ch.lookup

structure Spec where
  nick : Name → Bool
  chan : Name → Bool
  mem : Name → Name → Bool             -- mem n c

/-- simulation relation -/
structure R (c : Conc) (s : Spec) : Prop where
  nick_iff : ∀ n, s.nick n = (c.nicks n).isSome
  chan_iff : ∀ ch, s.chan ch = (c.chans ch).isSome
  name_of : ∀ n i, c.nicks n = some i → c.nname i = some n
  nick_inj : ∀ n m i, c.nicks n = some i → c.nicks m = some i → n = m
  two_way : ∀ i j, j ∈ c.nkChans i ↔ c.chNicks j i = true
  look_iff : ∀ j n i, c.chLookup j n = some i ↔ (c.nicks n = some i ∧ c.chNicks j i = true)
  mem_iff : ∀ n ch, s.mem n ch = true ↔ ∃ i j, c.nicks n = some i ∧ c.chans ch = some j ∧ c.chNicks j i = true

/-- the loop `for ch := range nk.chans { delete(ch.lookup, old); ch.lookup[neu] = nk }` -/
def rekey (old neu : Name) (i : Nat) : List Nat → (Nat → Name → Option Nat) → (Nat → Name → Option Nat)
  | [], f => f
  | j :: js, f => rekey old neu i js (fun j' => if j' = j then upd (upd (f j) old none) neu (some i) else f j')

theorem rekey_apply (old neu : Name) (i : Nat) (js : List Nat) (f : Nat → Name → Option Nat) (j : Nat) (n : Name) :
    rekey old neu i js f j n =
      if j ∈ js then (if n = neu then some i else if n = old then none else f j n) else f j n := by
  induction js generalizing f with
  | nil => simp [rekey]
  | cons k ks ih =>
    simp only [rekey, ih]
    by_cases hjk : j = k
    · subst hjk
      by_cases hm : j ∈ ks <;> simp [hm, upd] <;> (split <;> simp_all)
    · by_cases hm : j ∈ ks <;> simp [hm, hjk]

def Conc.reNick (c : Conc) (old neu : Name) : Conc :=
  match c.nicks old, c.nicks neu with
  | some i, none =>
    { c with nname := upd c.nname i (some neu),
             nicks := upd (upd c.nicks old none) neu (some i),
             chLookup := rekey old neu i (c.nkChans i) c.chLookup }
  | _, _ => c

def Spec.reNick (s : Spec) (old neu : Name) : Spec :=
  if s.nick old && !s.nick neu then
    { s with nick := fun n => if n = neu then true else if n = old then false else s.nick n,
             mem := fun n ch => if n = neu then s.mem old ch else if n = old then false else s.mem n ch }
  else s

theorem reNick_sim (c : Conc) (s : Spec) (h : R c s) (old neu : Name) :
    R (c.reNick old neu) (s.reNick old neu) := by
  unfold Conc.reNick Spec.reNick
  have hno := h.nick_iff old
  have hnn := h.nick_iff neu
  cases ho : c.nicks old with
  | none => simp [ho] at hno; simp [hno]; exact h
  | some i =>
    cases hn : c.nicks neu with
    | some k => simp [hn] at hnn; simp [hnn]; exact h
    | none =>
      simp [ho] at hno; simp [hn] at hnn
      have hne : old ≠ neu := by intro e; subst e; simp [ho] at hn
      simp only [hno, hnn, Bool.not_false, Bool.and_self, if_true]
      -- no other name maps to i
      have hinj : ∀ m, c.nicks m = some i → m = old := fun m hm => h.nick_inj m old i hm ho
      have hlk_neu : ∀ j, c.chLookup j neu = none := by
        intro j
        cases hl : c.chLookup j neu with
        | none => rfl
        | some k' => have := (h.look_iff j neu k').mp hl; simp [hn] at this
      refine ⟨?_, h.chan_iff, ?_, ?_, h.two_way, ?_, ?_⟩
      · intro n; dsimp only
        by_cases h1 : n = neu <;> by_cases h2 : n = old <;> simp_all [upd, h.nick_iff n]
      · intro n k hk; dsimp only at hk ⊢
        by_cases h1 : n = neu
        · subst h1; simp [upd] at hk ⊢; subst hk; simp
        · by_cases h2 : n = old
          · simp [upd, h1, h2] at hk; exact absurd hk.1 hne
          · simp [upd, h1, h2] at hk
            have : k ≠ i := by intro e; subst e; exact h2 (hinj n hk)
            simp [upd, this, h.name_of n k hk]
      · intro n m k hn' hm'; dsimp only at hn' hm'
        by_cases h1 : n = neu <;> by_cases h2 : m = neu
        · simp [h1, h2]
        · subst h1; simp [upd] at hn'; subst hn'
          by_cases h3 : m = old
          · simp [upd, h2, h3] at hm'; exact absurd hm' hne
          · simp [upd, h2, h3] at hm'; exact absurd (hinj m hm') h3
        · subst h2; simp [upd] at hm'; subst hm'
          by_cases h3 : n = old
          · simp [upd, h1, h3] at hn'; exact absurd hn' hne
          · simp [upd, h1, h3] at hn'; exact absurd (hinj n hn') h3
        · by_cases h3 : n = old
          · simp [upd, h1, h3] at hn'; exact absurd hn'.1 hne
          · by_cases h4 : m = old
            · simp [upd, h2, h4] at hm'; exact absurd hm'.1 hne
            · simp [upd, h1, h3] at hn'; simp [upd, h2, h4] at hm'; exact h.nick_inj n m k hn' hm'
      · intro j n k; dsimp only
        rw [rekey_apply]
        by_cases hj : j ∈ c.nkChans i
        · have hji := (h.two_way i j).mp hj
          by_cases h1 : n = neu
          · subst h1; simp [hj, upd]; intro e; subst e; exact hji
          · by_cases h2 : n = old
            · subst h2; simp [hj, h1, upd]
            · simp [hj, h1, h2, upd, h.look_iff j n k]
        · have hji : ¬ c.chNicks j i = true := fun e => hj ((h.two_way i j).mpr e)
          by_cases h1 : n = neu
          · subst h1; simp [hj, upd, hlk_neu j]; intro e; subst e; simpa using hji
          · by_cases h2 : n = old
            · subst h2; simp [hj, h1, upd]
              intro hl; have := (h.look_iff j n k).mp hl; rw [ho] at this
              obtain ⟨e, hk⟩ := this; simp at e; subst e; exact absurd hk hji
            · simp [hj, h1, h2, upd, h.look_iff j n k]
      · intro n ch; dsimp only
        by_cases h1 : n = neu
        · subst h1; simp [upd]
          rw [h.mem_iff old ch]
          constructor
          · intro ⟨i', j, hi', hj, hm⟩; rw [ho] at hi'; simp at hi'; subst hi'; exact ⟨j, hj, hm⟩
          · intro ⟨j, hj, hm⟩; exact ⟨i, j, ho, hj, hm⟩
        · by_cases h2 : n = old
          · subst h2; simp [upd, h1]
          · simp [upd, h1, h2, h.mem_iff n ch]

end TrackerSpike
