/-! Spike: cost of the "cut at first space" step of ParseLine and of the escape round trip. -/
abbrev B := List UInt8
namespace ParseSpike

/-- strings.Index(s, " ") as Option -/
def indexByte (c : UInt8) : B → Option Nat
  | [] => none
  | x :: xs => if x == c then some 0 else (indexByte c xs).map (· + 1)

theorem indexByte_append (c : UInt8) (a b : B) (h : c ∉ a) :
    indexByte c (a ++ c :: b) = some a.length := by
  induction a with
  | nil => simp [indexByte]
  | cons x xs ih =>
    have hx : x ≠ c := fun e => h (by simp [e])
    have hxs : c ∉ xs := fun m => h (by simp [m])
    simp [indexByte, hx, ih hxs]

/-- the `if idx := strings.Index(s, " "); idx != -1 { a, s = s[1:idx], s[idx+1:] }` step -/
def cutSpace (s : B) : Option (B × B) :=
  match indexByte 32 s with
  | none => none
  | some i => some ((s.take i).drop 1, s.drop (i+1))

theorem cutSpace_render (lead : UInt8) (a b : B) (h : (32 : UInt8) ∉ a) (hl : lead ≠ 32) :
    cutSpace (lead :: a ++ 32 :: b) = some (a, b) := by
  have : (32 : UInt8) ∉ lead :: a := by simp [h, Ne.symm hl]
  have hi := indexByte_append 32 (lead :: a) b this
  simp only [List.cons_append] at hi
  simp [cutSpace, hi]

/-! tag value escaping -/
def esc1 (x : UInt8) : B :=
  if x == 59 then [92, 58] else if x == 32 then [92, 115] else if x == 92 then [92, 92]
  else if x == 13 then [92, 114] else if x == 10 then [92, 110] else [x]

def escape : B → B
  | [] => []
  | x :: xs => esc1 x ++ escape xs

def unesc1 (y : UInt8) : Option UInt8 :=
  if y == 58 then some 59 else if y == 115 then some 32 else if y == 92 then some 92
  else if y == 114 then some 13 else if y == 110 then some 10 else none

/-- the generic Replacer with the five two-byte pairs: scan left to right, no overlap -/
def unescape : B → B
  | [] => []
  | [x] => [x]
  | x :: y :: xs =>
    if x == 92 then
      match unesc1 y with
      | some c => c :: unescape xs
      | none => x :: unescape (y :: xs)
    else x :: unescape (y :: xs)

theorem unescape_cons_ne (x : UInt8) (xs : B) (h : x ≠ 92) : unescape (x :: xs) = x :: unescape xs := by
  cases xs with
  | nil => simp [unescape]
  | cons y ys => simp [unescape, h]

theorem unescape_escape (v : B) : unescape (escape v) = v := by
  induction v with
  | nil => simp [escape, unescape]
  | cons x xs ih =>
    simp only [escape, esc1]
    split
    · rename_i h; simp at h; subst h; simp [unescape, unesc1, ih]
    · split
      · rename_i h; simp at h; subst h; simp [unescape, unesc1, ih]
      · split
        · rename_i h; simp at h; subst h; simp [unescape, unesc1, ih]
        · split
          · rename_i h; simp at h; subst h; simp [unescape, unesc1, ih]
          · split
            · rename_i h; simp at h; subst h; simp [unescape, unesc1, ih]
            · rename_i h1 h2 h3 h4 h5
              simp at h3
              simp only [List.singleton_append]
              rw [unescape_cons_ne _ _ h3, ih]

end ParseSpike
