/-! Spike: outgoing path as a labelled transition system; per-sender FIFO invariant. -/
namespace SendSpike

abbrev Sender := Nat
structure Item where
  sender : Sender
  seq : Nat          -- per-sender sequence number
deriving DecidableEq, Repr

structure St where
  issued : Sender → Nat      -- how many lines each sender has handed to Raw so far
  q : List Item              -- conn.out (capacity cap)
  inflight : Option Item     -- dequeued by send(), not yet written
  wire : List Item           -- written to the socket, oldest first
  cap : Nat

inductive Label
  | raw (s : Sender)         -- sender s completes `conn.out <- line`
  | deq                      -- send goroutine receives from conn.out
  | write                    -- send goroutine writes + flushes

def step (st : St) : Label → Option St
  | .raw s => if st.q.length < st.cap then
      some { st with issued := fun t => if t = s then st.issued s + 1 else st.issued t,
                     q := st.q ++ [⟨s, st.issued s⟩] } else none
  | .deq => match st.inflight, st.q with
      | none, x :: rest => some { st with q := rest, inflight := some x }
      | _, _ => none
  | .write => match st.inflight with
      | some x => some { st with inflight := none, wire := st.wire ++ [x] }
      | none => none

def init (cap : Nat) : St := { issued := fun _ => 0, q := [], inflight := none, wire := [], cap := cap }

inductive Reach (cap : Nat) : St → Prop
  | init : Reach cap (init cap)
  | step {s s' l} : Reach cap s → step s l = some s' → Reach cap s'

/-- everything handed over so far, in pipeline order: wire, then in flight, then queued -/
def pipeline (st : St) : List Item := st.wire ++ st.inflight.toList ++ st.q

def seqsOf (s : Sender) (l : List Item) : List Nat := (l.filter (·.sender = s)).map (·.seq)

/-- Invariant: for every sender, its items appear in the pipeline exactly once each, in issue order. -/
def Inv (st : St) : Prop := ∀ s, seqsOf s (pipeline st) = List.range (st.issued s)

theorem inv_init (cap) : Inv (init cap) := by intro s; simp [Inv, init, pipeline, seqsOf]

theorem inv_step {st st' l} (h : Inv st) (hs : step st l = some st') : Inv st' := by
  cases l with
  | raw s =>
    simp only [step] at hs
    split at hs <;> simp at hs
    subst hs
    intro t
    have ht := h t
    simp only [pipeline, seqsOf, List.filter_append, List.map_append] at ht ⊢
    by_cases hts : t = s
    · subst hts; simp [List.range_succ, ← ht]
    · have : s ≠ t := fun e => hts e.symm
      simp [hts, this, ← ht]
  | deq =>
    simp only [step] at hs
    split at hs <;> simp at hs
    subst hs
    rename_i hi hq
    intro t
    have ht := h t
    simp only [pipeline, hi, hq] at ht ⊢
    simpa using ht
  | write =>
    simp only [step] at hs
    split at hs <;> simp at hs
    subst hs
    rename_i x hi
    intro t
    have ht := h t
    simp only [pipeline, hi] at ht ⊢
    simpa using ht

theorem inv_reach {cap st} (h : Reach cap st) : Inv st := by
  induction h with
  | init => exact inv_init cap
  | step _ hs ih => exact inv_step ih hs

/-- C09 shape: on the wire each sender's lines appear at most once, in order, as a prefix of what it issued. -/
theorem wire_prefix {cap st} (h : Reach cap st) (s : Sender) :
    seqsOf s st.wire <+: List.range (st.issued s) := by
  have := inv_reach h s
  simp only [pipeline, seqsOf, List.filter_append, List.map_append, List.append_assoc] at this
  rw [← this]
  exact List.prefix_append _ _

end SendSpike
