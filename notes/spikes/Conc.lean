/-! Spike: generic LTS, reachability invariants, bounded termination by rank, executable acceptor. -/
namespace ConcSpike

structure LTS (σ : Type) (L : Type) where
  init : σ
  step : σ → L → List σ

variable {σ L : Type}

inductive Reach (M : LTS σ L) : σ → Prop
  | init : Reach M M.init
  | step {s l s'} : Reach M s → s' ∈ M.step s l → Reach M s'

theorem inv_of_step (M : LTS σ L) (Inv : σ → Prop) (h0 : Inv M.init)
    (hs : ∀ s l s', Inv s → s' ∈ M.step s l → Inv s') : ∀ s, Reach M s → Inv s := by
  intro s h
  induction h with
  | init => exact h0
  | step _ hm ih => exact hs _ _ _ ih hm

/-- a path of `n` steps all of whose states before the last are not `done` -/
inductive Path (M : LTS σ L) (done : σ → Prop) : σ → Nat → σ → Prop
  | nil (s) : Path M done s 0 s
  | cons {s l s' n t} : ¬ done s → s' ∈ M.step s l → Path M done s' n t → Path M done s (n+1) t

/-- If every step taken from a not-yet-done state inside phase `P` stays in `P` and strictly
decreases `rank`, no path that avoids `done` is longer than the rank of its start. -/
theorem terminates_of_rank (M : LTS σ L) (P done : σ → Prop) (rank : σ → Nat)
    (hdec : ∀ s l s', P s → ¬ done s → s' ∈ M.step s l → P s' ∧ rank s' < rank s) :
    ∀ n s t, P s → Path M done s n t → n ≤ rank s := by
  intro n
  induction n with
  | zero => intros; omega
  | succ n ih =>
    intro s t hP hp
    cases hp with
    | cons hnd hm hrest =>
      have ⟨hP', hlt⟩ := hdec _ _ _ hP hnd hm
      have := ih _ _ hP' hrest
      omega

/-! Executable acceptor: observable labels must match the trace; hidden labels are tried freely. -/
structure Sys (σ L O : Type) extends LTS σ L where
  hidden : List L                 -- finite list of internal labels to try
  ofObs : O → L                   -- the label an observation corresponds to

variable {O : Type} [BEq σ]

def dedup (l : List σ) : List σ := l.foldl (fun acc x => if acc.contains x then acc else acc ++ [x]) []

def tauClosure (S : Sys σ L O) (fuel : Nat) (front : List σ) : List σ :=
  match fuel with
  | 0 => front
  | fuel+1 =>
    let next := dedup (front ++ front.flatMap (fun s => S.hidden.flatMap (fun l => S.step s l)))
    if next.length == front.length then front else tauClosure S fuel next

def accepts (S : Sys σ L O) (fuel : Nat) (trace : List O) : Bool :=
  let rec go (front : List σ) : List O → Bool
    | [] => !front.isEmpty
    | o :: rest =>
      let front' := tauClosure S fuel (dedup (front.flatMap (fun s => S.step s (S.ofObs o))))
      if front'.isEmpty then false else go front' rest
  go (tauClosure S fuel [S.init]) trace

end ConcSpike
