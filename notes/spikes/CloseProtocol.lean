/-! Spike: thread-parametric Close protocol — mutex + connected flag + wait group. -/
namespace LifeSpike

abbrev Tid := Nat
inductive CPc | idle | wantLock | locked | draining | unlocked | done
deriving DecidableEq, Repr

structure St where
  mu : Option Tid
  connected : Bool
  cancelled : Bool
  workerLive : Bool          -- one connection goroutine; counts 1 in the wait group while live
  pc : Tid → CPc
  disc : Nat                 -- DISCONNECTED dispatches so far (ghost)
  winner : Option Tid        -- ghost: who passed the test-and-clear

inductive Label
  | call (t : Tid) | lock (t : Tid) | test (t : Tid) | workerExit | finish (t : Tid) | fire (t : Tid)

def setPc (s : St) (t : Tid) (p : CPc) : Tid → CPc := fun u => if u = t then p else s.pc u

def step (s : St) : Label → Option St
  | .call t => if s.pc t = .idle then some { s with pc := setPc s t .wantLock } else none
  | .lock t => if s.pc t = .wantLock ∧ s.mu = none then some { s with mu := some t, pc := setPc s t .locked } else none
  | .test t =>
      if s.pc t = .locked then
        if s.connected then
          some { s with connected := false, cancelled := true, pc := setPc s t .draining, winner := some t }
        else some { s with mu := none, pc := setPc s t .done }
      else none
  | .workerExit => if s.workerLive ∧ s.cancelled then some { s with workerLive := false } else none
  | .finish t => if s.pc t = .draining ∧ s.workerLive = false then some { s with mu := none, pc := setPc s t .unlocked } else none
  | .fire t => if s.pc t = .unlocked then some { s with disc := s.disc + 1, pc := setPc s t .done } else none

def init : St := { mu := none, connected := true, cancelled := false, workerLive := true,
                   pc := fun _ => .idle, disc := 0, winner := none }

inductive Reach : St → Prop
  | init : Reach init
  | step {s l s'} : Reach s → step s l = some s' → Reach s'

structure Inv (s : St) : Prop where
  holder : ∀ t, s.mu = some t ↔ (s.pc t = .locked ∨ s.pc t = .draining)
  conn : s.connected = true → s.winner = none ∧ s.disc = 0 ∧ ∀ t, s.pc t ≠ .draining ∧ s.pc t ≠ .unlocked
  win : ∀ t, (s.pc t = .draining ∨ s.pc t = .unlocked) → s.winner = some t
  fired : s.disc ≤ 1
  firedDone : s.disc = 1 → ∀ t, s.pc t ≠ .draining ∧ s.pc t ≠ .unlocked

theorem inv_init : Inv init := by
  constructor <;> simp [init]

theorem inv_step {s s' l} (h : Inv s) (hs : step s l = some s') : Inv s' := by
  cases l with
  | call t =>
    simp only [step] at hs; split at hs <;> simp at hs; subst hs
    rename_i hp
    constructor
    · intro u; simp only [setPc]; by_cases e : u = t
      · subst e; simp; intro hm; have := (h.holder u).mp hm; simp [hp] at this
      · simp [e, h.holder u]
    · intro hc; have := h.conn hc; refine ⟨this.1, this.2.1, ?_⟩
      intro u; simp only [setPc]; by_cases e : u = t <;> simp [e, this.2.2 u]
    · intro u; simp only [setPc]; by_cases e : u = t
      · simp [e]
      · simp [e]; exact h.win u
    · exact h.fired
    · intro hd u; simp only [setPc]; by_cases e : u = t <;> simp [e, h.firedDone hd u]
  | lock t =>
    simp only [step] at hs; split at hs <;> simp at hs; subst hs
    rename_i hp
    obtain ⟨hp, hm⟩ := hp
    constructor
    · intro u; simp only [setPc]; by_cases e : u = t
      · subst e; simp
      · simp [e]; constructor
        · intro e'; exact absurd e'.symm e
        · intro hu; have := (h.holder u).mpr hu; simp [hm] at this
    · intro hc; have := h.conn hc; refine ⟨this.1, this.2.1, ?_⟩
      intro u; simp only [setPc]; by_cases e : u = t <;> simp [e, this.2.2 u]
    · intro u; simp only [setPc]; by_cases e : u = t
      · simp [e]
      · simp [e]; exact h.win u
    · exact h.fired
    · intro hd u; simp only [setPc]; by_cases e : u = t <;> simp [e, h.firedDone hd u]
  | test t =>
    simp only [step] at hs; split at hs
    · rename_i hp
      split at hs
      · rename_i hc
        simp at hs; subst hs
        have hcn := h.conn hc
        have hmu : s.mu = some t := (h.holder t).mpr (Or.inl hp)
        constructor
        · intro u; simp only [setPc]; by_cases e : u = t
          · subst e; simp [hmu]
          · simp [e]; rw [← h.holder u, hmu]
        · simp
        · intro u; simp only [setPc]; by_cases e : u = t
          · simp [e]
          · simp [e]; intro hu; have := hcn.2.2 u; rcases hu with hu | hu <;> simp [hu] at this
        · simp [hcn.2.1]
        · intro hd; simp [hcn.2.1] at hd
      · rename_i hc
        simp at hs; subst hs
        have hmu : s.mu = some t := (h.holder t).mpr (Or.inl hp)
        constructor
        · intro u; simp only [setPc]; by_cases e : u = t
          · subst e; simp
          · simp [e]
            have key : ¬ (s.pc u = .locked ∨ s.pc u = .draining) := by
              intro hu; have := (h.holder u).mpr hu; rw [hmu] at this; simp at this; exact e this.symm
            exact ⟨fun a => key (Or.inl a), fun a => key (Or.inr a)⟩
        · intro hc'; exact absurd hc' hc
        · intro u; simp only [setPc]; by_cases e : u = t
          · simp [e]
          · simp [e]; exact h.win u
        · exact h.fired
        · intro hd u; simp only [setPc]; by_cases e : u = t <;> simp [e, h.firedDone hd u]
    · simp at hs
  | workerExit =>
    simp only [step] at hs; split at hs <;> simp at hs; subst hs
    exact ⟨h.holder, h.conn, h.win, h.fired, h.firedDone⟩
  | finish t =>
    simp only [step] at hs; split at hs <;> simp at hs; subst hs
    rename_i hp
    have hmu : s.mu = some t := (h.holder t).mpr (Or.inr hp.1)
    have hw := h.win t (Or.inl hp.1)
    constructor
    · intro u; simp only [setPc]; by_cases e : u = t
      · subst e; simp
      · simp [e]
        have key : ¬ (s.pc u = .locked ∨ s.pc u = .draining) := by
          intro hu; have := (h.holder u).mpr hu; rw [hmu] at this; simp at this; exact e this.symm
        exact ⟨fun a => key (Or.inl a), fun a => key (Or.inr a)⟩
    · intro hc; have := (h.conn hc).1; rw [hw] at this; simp at this
    · intro u; simp only [setPc]; by_cases e : u = t
      · subst e; simp [hw]
      · simp [e]; exact h.win u
    · exact h.fired
    · intro hd; have := (h.firedDone hd t).1; exact absurd hp.1 this
  | fire t =>
    simp only [step] at hs; split at hs <;> simp at hs; subst hs
    rename_i hp
    have hw := h.win t (Or.inr hp)
    have hd0 : s.disc = 0 := by
      rcases Nat.lt_or_ge s.disc 1 with h0 | h1
      · omega
      · have : s.disc = 1 := by have := h.fired; omega
        exact absurd hp (h.firedDone this t).2
    constructor
    · intro u; simp only [setPc]; by_cases e : u = t
      · subst e; simp; intro hm; have := (h.holder u).mp hm; simp [hp] at this
      · simp [e, h.holder u]
    · intro hc; have := (h.conn hc).1; rw [hw] at this; simp at this
    · intro u; simp only [setPc]; by_cases e : u = t
      · simp [e]
      · simp [e]; exact h.win u
    · simp [hd0]
    · intro _ u; simp only [setPc]; by_cases e : u = t
      · simp [e]
      · simp [e]
        have hne : s.winner ≠ some u := by rw [hw]; simp; exact fun e' => e e'.symm
        constructor
        · intro hu; exact hne (h.win u (Or.inl hu))
        · intro hu; exact hne (h.win u (Or.inr hu))

theorem disconnected_at_most_once {s} (h : Reach s) : s.disc ≤ 1 := by
  have : Inv s := by
    induction h with
    | init => exact inv_init
    | step _ hs ih => exact inv_step ih hs
  exact this.fired

end LifeSpike
