import random
S=10**9
def charge(ch): return 2*S + ch*S//120
def run(seed):
    r=random.Random(seed)
    n=r.randint(2,40)
    b=0; last=0  # lastsent = creation time 0
    now=r.choice([0, r.randint(0,20*S)])
    c=[];w=[]
    worst=None
    for k in range(n):
        ch=r.choice([0,0,0,510,r.randint(0,510),60,720])
        ck=charge(ch)
        t=now
        l=t+r.choice([0,0,r.randint(0,1000),r.randint(0,S)])
        b=max(0,b+ck-(t-last))
        last=l
        d= ck if b>10*S else 0
        wk=l+d+r.choice([0,0,r.randint(0,1000),r.randint(0,30*S)])
        c.append(ck);w.append(wk)
        now=wk+r.choice([0,0,0,r.randint(0,3*S),r.randint(0,100*S)])
    best=-10**30
    for i in range(n):
        for j in range(i+1,n):
            lhs=sum(c[i:j+1]); rhs=(w[j]-w[i])+10*S+c[i]+c[i+1]
            best=max(best,lhs-rhs)
            assert lhs<=rhs,(seed,i,j,lhs,rhs)
            # tighter variants to see if they fail
    return best
m=-10**30
for s in range(200000):
    m=max(m,run(s))
print("max slack (lhs-rhs) over runs:",m)
